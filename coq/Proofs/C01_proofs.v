(* C01 / C02 proofs over Model/C01.v *)
From PV Require Import Bytes C01.
From Coq Require Import ZArith List Bool Lia ZifyBool.
Import ListNotations.
Open Scope Z_scope.

(* ---- small list / arithmetic facts ------------------------------------------ *)
Lemma zlen_app a b : zlen (a ++ b) = zlen a + zlen b.
Proof. unfold zlen. rewrite app_length. lia. Qed.
Lemma zlen_cons x l : zlen (x :: l) = 1 + zlen l.
Proof. unfold zlen. cbn [length]. lia. Qed.
Lemma zlen_nil : zlen [] = 0. Proof. reflexivity. Qed.
Lemma zlen_nonneg l : 0 <= zlen l. Proof. unfold zlen. lia. Qed.
Lemma zlen_be n v : zlen (be_encode n v) = Z.of_nat n.
Proof. unfold zlen. now rewrite be_encode_length. Qed.
Lemma zlen_repeat (x : Z) n : zlen (repeat x n) = Z.of_nat n.
Proof. unfold zlen. now rewrite repeat_length. Qed.

Lemma app_inv_len {A} (a b c d : list A) :
  length a = length c -> a ++ b = c ++ d -> a = c /\ b = d.
Proof.
  revert c. induction a as [|x a IH]; intros [|y c] L E; cbn in *; try discriminate.
  - auto.
  - injection E as -> E. destruct (IH c) as [-> ->]; auto.
Qed.

Lemma firstn_app_exact {A} (a b : list A) n : n = length a -> firstn n (a ++ b) = a.
Proof. intros ->. rewrite firstn_app, Nat.sub_diag, firstn_all. cbn. apply app_nil_r. Qed.
Lemma skipn_app_exact {A} (a b : list A) n : n = length a -> skipn n (a ++ b) = b.
Proof. intros ->. rewrite skipn_app, Nat.sub_diag, skipn_all. reflexivity. Qed.

Lemma split_at {A} (l : list A) (n : Z) :
  0 <= n <= Z.of_nat (length l) -> exists a b, l = a ++ b /\ Z.of_nat (length a) = n.
Proof.
  intros H. exists (firstn (Z.to_nat n) l), (skipn (Z.to_nat n) l). split.
  - now rewrite firstn_skipn.
  - rewrite firstn_length. lia.
Qed.

(* ---- C02: constant_time_bytes_eq --------------------------------------------- *)
Lemma xor_acc_zero : forall a b res, length a = length b ->
  (xor_acc res a b = 0 <-> res = 0 /\ a = b).
Proof.
  induction a as [|x a IH]; intros [|y b] res L; cbn in *; try discriminate.
  - tauto.
  - rewrite IH by lia. rewrite Z.lor_eq_0_iff, Z.lxor_eq_0_iff. split.
    + intros [[-> ->] ->]. auto.
    + intros [-> E]. injection E as -> ->. auto.
Qed.

Lemma cteq_iff a b : constant_time_bytes_eq a b = true <-> a = b.
Proof.
  unfold constant_time_bytes_eq. destruct (Nat.eqb (length a) (length b)) eqn:E; cbn [negb].
  - apply Nat.eqb_eq in E. rewrite Z.eqb_eq, xor_acc_zero by exact E. tauto.
  - apply Nat.eqb_neq in E. split; [discriminate|]. intros ->. now elim E.
Qed.

Lemma cteq_refl a : constant_time_bytes_eq a a = true.
Proof. now apply cteq_iff. Qed.

(* ---- read_all over a chunked socket = take on the concatenation ----------------- *)
Definition ne (s : list (list Z)) : Prop := Forall (fun c => c <> []) s.

Lemma ftake_exact n x rest : zlen x = n -> ftake n (x ++ rest) = Some (x, rest).
Proof.
  intros H. unfold ftake. pose proof (zlen_nonneg x).
  destruct (n <=? 0) eqn:E1.
  - assert (x = []) by (destruct x; [reflexivity|rewrite zlen_cons in H; pose proof (zlen_nonneg x); lia]).
    subst x. reflexivity.
  - rewrite zlen_app. pose proof (zlen_nonneg rest).
    destruct (zlen x + zlen rest <? n) eqn:E2; [lia|].
    rewrite firstn_app_exact, skipn_app_exact by (unfold zlen in H; lia). reflexivity.
Qed.

Lemma ftake_short n buf : 0 < n -> zlen buf < n -> ftake n buf = None.
Proof.
  intros H1 H2. unfold ftake. destruct (n <=? 0) eqn:E1; [lia|].
  destruct (zlen buf <? n) eqn:E2; [reflexivity|lia].
Qed.

Lemma ftake_inv n buf x rest : ftake n buf = Some (x, rest) ->
  buf = x ++ rest /\ zlen x = Z.max 0 n.
Proof.
  unfold ftake. destruct (n <=? 0) eqn:E1.
  - intros H. injection H as <- <-. split; [reflexivity|]. rewrite zlen_nil. lia.
  - destruct (zlen buf <? n) eqn:E2; [discriminate|]. intros H. injection H as <- <-.
    rewrite firstn_skipn. split; [reflexivity|]. unfold zlen in *. rewrite firstn_length. lia.
Qed.

Lemma read_all_spec : forall sock n out, ne sock ->
  match read_all n out sock with
  | Some (x, sock') => exists y, x = out ++ y /\ ftake n (concat sock) = Some (y, concat sock') /\ ne sock'
  | None => ftake n (concat sock) = None
  end.
Proof.
  induction sock as [|c rest IH]; intros n out Hne; cbn [read_all].
  - destruct (n <=? 0) eqn:E.
    + exists []. rewrite app_nil_r. unfold ftake. rewrite E. auto.
    + cbn [concat]. apply ftake_short; [lia|rewrite zlen_nil; lia].
  - destruct (n <=? 0) eqn:E.
    + exists []. rewrite app_nil_r. unfold ftake. rewrite E. auto.
    + inversion Hne as [|? ? Hc Hrest]; subst. destruct c as [|c0 c']; [congruence|].
      set (c := c0 :: c') in *. cbn [concat].
      destruct (zlen c <=? n) eqn:E2.
      * specialize (IH (n - zlen c) (out ++ c) Hrest).
        destruct (read_all (n - zlen c) (out ++ c) rest) as [[x sock']|].
        -- destruct IH as (y & -> & Ht & Hn). exists (c ++ y). rewrite app_assoc. split; [reflexivity|].
           split; [|exact Hn]. apply ftake_inv in Ht as [Hc1 Hc2]. rewrite Hc1, app_assoc.
           apply ftake_exact. rewrite zlen_app. lia.
        -- unfold ftake in *. rewrite E. rewrite zlen_app.
           destruct (n - zlen c <=? 0) eqn:E3; [discriminate|].
           destruct (zlen (concat rest) <? n - zlen c) eqn:E4; [|discriminate].
           destruct (zlen c + zlen (concat rest) <? n) eqn:E5; [reflexivity|lia].
      * exists (firstn (Z.to_nat n) c). split; [reflexivity|]. split.
        -- cbn [concat]. rewrite <- (firstn_skipn (Z.to_nat n) c) at 1. rewrite <- app_assoc.
           apply ftake_exact. unfold zlen in *. rewrite firstn_length. lia.
        -- constructor; [|exact Hrest]. intros Hs.
           assert (L : length (skipn (Z.to_nat n) c) = 0%nat) by now rewrite Hs.
           rewrite skipn_length in L. unfold zlen in *. lia.
Qed.

(* ---- simulation: reader over any socket model vs reader over the flat stream ------- *)
Section Sim.
Variable P : prims.
Variable SS : Type.
Variable tk : Z -> SS -> option (list Z * SS).
Variable alpha : SS -> list Z.          (* the bytes the socket will deliver *)
Variable good : SS -> Prop.
Hypothesis Htk : forall n s, good s ->
  match tk n s with
  | Some (x, s') => ftake n (alpha s) = Some (x, alpha s') /\ good s'
  | None => ftake n (alpha s) = None
  end.
Notation FS := (list Z).

Definition srel {A} (x : rr SS A) (y : rr FS A) : Prop :=
  match x with
  | Need => y = Need
  | Fail e => y = Fail e
  | Done a s' => y = Done a (alpha s') /\ good s'
  end.
Definition sim {A} (m1 : reader SS A) (m2 : reader FS A) : Prop :=
  forall s, good s -> srel (m1 s) (m2 (alpha s)).

Lemma sim_ret A (a : A) : sim (rret SS a) (rret FS a).
Proof. intros s H. cbn. auto. Qed.
Lemma sim_fail A e : sim (@rfail SS A e) (@rfail FS A e).
Proof. intros s H. reflexivity. Qed.
Lemma sim_lift A (x : result A) : sim (rlift SS x) (rlift FS x).
Proof. destruct x; [apply sim_ret|apply sim_fail]. Qed.
Lemma sim_take n : sim (rtake SS tk n) (rtake FS ftake n).
Proof.
  intros s H. unfold rtake. pose proof (Htk n s H) as R.
  destruct (tk n s) as [[x s']|].
  - destruct R as [-> Hn]. cbn. auto.
  - rewrite R. reflexivity.
Qed.
Lemma sim_bind A B (m1 : reader SS A) m2 (f1 : A -> reader SS B) f2 :
  sim m1 m2 -> (forall a, sim (f1 a) (f2 a)) -> sim (rbind SS m1 f1) (rbind FS m2 f2).
Proof.
  intros Hm Hf s H. unfold rbind. specialize (Hm s H). unfold srel in Hm.
  destruct (m1 s) as [| e | a s'].
  - now rewrite Hm.
  - now rewrite Hm.
  - destruct Hm as [-> Hn]. apply Hf, Hn.
Qed.

Ltac sim_tac :=
  repeat first
    [ apply sim_take | apply sim_ret | apply sim_fail | apply sim_lift
    | apply sim_bind; [| intros ?]
    | match goal with
      | |- sim (if ?c then _ else _) (if ?c then _ else _) => destruct c
      | |- sim (match ?x with _ => _ end) (match ?x with _ => _ end) => destruct x
      end ].

Lemma sim_read_body r h : sim (read_body P SS tk r h) (read_body P FS ftake r h).
Proof. unfold read_body, read_classic. cbv beta iota zeta. sim_tac. Qed.

Lemma sim_read_message r : sim (read_message P SS tk r) (read_message P FS ftake r).
Proof. unfold read_message. apply sim_bind; [apply sim_take|apply sim_read_body]. Qed.

Lemma sim_read_many : forall fuel r s, good s ->
  let '(ps, evs, fi, rf, sf) := read_many P SS tk fuel r s in
  read_many P FS ftake fuel r (alpha s) = (ps, evs, fi, rf, alpha sf).
Proof.
  induction fuel as [|f IH]; intros r s H; cbn [read_many]; [reflexivity|].
  pose proof (sim_read_message r s H) as R. unfold srel in R.
  destruct (read_message P SS tk r s) as [| e | [[p ev] r'] s'].
  - now rewrite R.
  - now rewrite R.
  - destruct R as [-> Hn]. specialize (IH r' s' Hn).
    destruct (read_many P SS tk f r' s') as [[[[ps evs] fi] rf] sf]. now rewrite IH.
Qed.
End Sim.

Lemma stake_spec : forall n s, ne s ->
  match stake n s with
  | Some (x, s') => ftake n (concat s) = Some (x, concat s') /\ ne s'
  | None => ftake n (concat s) = None
  end.
Proof.
  intros n s H. unfold stake. pose proof (read_all_spec s n [] H) as R.
  destruct (read_all n [] s) as [[x s']|]; [|exact R].
  destruct R as (y & -> & Ht & Hn). auto.
Qed.

Definition sim_read_many_chunks P :=
  sim_read_many P (list (list Z)) stake (@concat Z) ne stake_spec.

(* ---- prefix monotonicity of flat readers --------------------------------------- *)
Section Mono.
Variable P : prims.
Notation FS := (list Z).

Definition mono {A} (m : reader FS A) : Prop :=
  forall buf a rest, m buf = Done a rest ->
    exists c, buf = c ++ rest /\ (forall rest', m (c ++ rest') = Done a rest') /\
              (forall q, strict_prefix q c -> m q = Need).

Lemma strict_prefix_app : forall (c1 c2 q : list Z), strict_prefix q (c1 ++ c2) ->
  strict_prefix q c1 \/ exists q2, q = c1 ++ q2 /\ strict_prefix q2 c2.
Proof.
  induction c1 as [|x c1 IH]; intros c2 q [t [Ht E]].
  - right. exists q. split; [reflexivity|]. exists t. auto.
  - destruct q as [|y q].
    + left. exists (x :: c1). split; [discriminate|reflexivity].
    + cbn in E. injection E as <- E. destruct (IH c2 q) as [[t' [Ht' ->]] | (q2 & -> & Hq2)].
      * exists t. auto.
      * left. exists t'. split; [exact Ht'|reflexivity].
      * right. exists q2. auto.
Qed.

Lemma mono_ret A (a : A) : mono (rret FS a).
Proof.
  intros buf a' rest H. injection H as <- <-. exists []. split; [reflexivity|]. split; [reflexivity|].
  intros q [t [Ht E]]. destruct q; destruct t; cbn in E; congruence.
Qed.
Lemma mono_fail A e : mono (@rfail FS A e).
Proof. intros buf a rest H. discriminate. Qed.
Lemma mono_lift A (x : result A) : mono (rlift FS x).
Proof. destruct x; [apply mono_ret|apply mono_fail]. Qed.
Lemma mono_take n : mono (rtake FS ftake n).
Proof.
  intros buf x rest H. unfold rtake in *. destruct (ftake n buf) as [[x' r']|] eqn:E; [|discriminate].
  injection H as <- <-. apply ftake_inv in E as [-> Hl]. exists x'. split; [reflexivity|]. split.
  - intros rest'. destruct (n <=? 0) eqn:E1.
    + assert (x' = []) by (destruct x'; [reflexivity|rewrite zlen_cons in Hl; pose proof (zlen_nonneg x'); lia]).
      subst. unfold ftake. now rewrite E1.
    + rewrite ftake_exact by lia. reflexivity.
  - intros q [t [Ht ->]]. rewrite zlen_app in Hl.
    assert (0 < zlen t) by (destruct t; [congruence|rewrite zlen_cons; pose proof (zlen_nonneg t); lia]).
    pose proof (zlen_nonneg q). rewrite ftake_short by lia. reflexivity.
Qed.
Lemma mono_bind A B (m : reader FS A) (f : A -> reader FS B) :
  mono m -> (forall a, mono (f a)) -> mono (rbind FS m f).
Proof.
  intros Hm Hf buf b rest H. unfold rbind in H.
  destruct (m buf) as [| e | a r1] eqn:E; try discriminate.
  destruct (Hm _ _ _ E) as (c1 & -> & X1 & N1).
  destruct (Hf a _ _ _ H) as (c2 & -> & X2 & N2).
  exists (c1 ++ c2). split; [now rewrite app_assoc|]. split.
  - intros rest'. unfold rbind. rewrite <- app_assoc, X1. apply X2.
  - intros q Hq. unfold rbind. apply strict_prefix_app in Hq as [Hq | (q2 & -> & Hq2)].
    + now rewrite (N1 _ Hq).
    + rewrite X1. apply N2, Hq2.
Qed.

Ltac mono_tac :=
  repeat first
    [ apply mono_take | apply mono_ret | apply mono_fail | apply mono_lift
    | apply mono_bind; [| intros ?]
    | match goal with
      | |- mono (if ?c then _ else _) => destruct c
      | |- mono (match ?x with _ => _ end) => destruct x
      end ].

Lemma mono_read_body r h : mono (read_body P FS ftake r h).
Proof. unfold read_body, read_classic. cbv beta iota zeta. mono_tac. Qed.
Lemma mono_read_message r : mono (read_message P FS ftake r).
Proof. unfold read_message. apply mono_bind; [apply mono_take|apply mono_read_body]. Qed.
End Mono.

(* ---- arithmetic of _build_packet ------------------------------------------------ *)
Lemma pad_range bs x : 0 < bs -> 4 <= 3 + bs - x mod bs <= bs + 3.
Proof. intros H. pose proof (Z.mod_pos_bound x bs H). lia. Qed.
Lemma pad_align bs x : 0 < bs -> (x + (bs - x mod bs)) mod bs = 0.
Proof.
  intros H. rewrite (Z.div_mod x bs) at 1 by lia.
  replace (bs * (x / bs) + x mod bs + (bs - x mod bs)) with ((x / bs + 1) * bs) by ring.
  apply Z_mod_mult.
Qed.
Lemma pad_ge bs x : 0 < bs -> 0 <= x -> bs <= x + (bs - x mod bs).
Proof. intros H H0. pose proof (Z.mod_le x bs H0 H). lia. Qed.
Lemma mod0_sub bs T : 0 < bs -> T mod bs = 0 -> (T - bs) mod bs = 0.
Proof.
  intros H H0. rewrite <- (Z.mod_add (T - bs) 1 bs) by lia.
  replace (T - bs + 1 * bs) with T by ring. exact H0.
Qed.

Lemma py_slice1_honest padding data1 pad :
  zlen pad = padding -> 0 <= padding ->
  py_slice1 (padding :: data1 ++ pad) (zlen data1 + padding + 1 - padding) = data1.
Proof.
  intros Hp H0. unfold py_slice1. rewrite zlen_cons, zlen_app.
  pose proof (zlen_nonneg data1).
  destruct (zlen data1 + padding + 1 - padding <? 0) eqn:E; [lia|].
  replace (Z.min (zlen data1 + padding + 1 - padding) (1 + (zlen data1 + zlen pad))) with (zlen data1 + 1) by lia.
  replace (Z.to_nat (zlen data1 + 1)) with (S (length data1)) by (unfold zlen; lia).
  cbn [firstn skipn]. now rewrite firstn_app_exact.
Qed.

Section RT.
Variable P : prims.
Variable cinv : Z -> cst P -> cst P -> Prop.
Variable zinv : zst P -> zst P -> Prop.
Hypothesis HP : prims_ok P cinv zinv.
Notation FS := (list Z).

Definition comp_step (zs : option (zst P)) (data : list Z) : list Z * option (zst P) :=
  match zs with
  | None => (data, None)
  | Some z => (fst (z_comp P z data), Some (snd (z_comp P z data)))
  end.

Definition rollover (seq : Z) (kex : bool) : bool := ((seq + 1) mod 2 ^ 32 =? 0) && negb kex.

Lemma send_message_inv s data rnd w s' :
  data <> [] -> send_message P s data rnd = Ok (w, s') ->
  exists packet m',
    build_packet P s (fst (comp_step (p_z s) data)) rnd = Ok packet /\
    encrypt_packet P s packet = Ok (w, m') /\
    rollover (p_seq s) (p_kex s) = false /\
    s' = with_mode_seq_z P s m' ((p_seq s + 1) mod 2 ^ 32) (snd (comp_step (p_z s) data)).
Proof.
  intros Hne H. unfold send_message in H. destruct data as [|d0 dt]; [congruence|].
  unfold comp_step.
  destruct (p_z s) as [z|].
  - destruct (z_comp P z (d0 :: dt)) as [d z2]. cbn [fst snd].
    destruct (build_packet P s d rnd) as [packet|] eqn:Eb; cbn [bind] in H; [|discriminate].
    destruct (encrypt_packet P s packet) as [[out m']|] eqn:Ee; cbn [bind fst snd] in H; [|discriminate].
    unfold rollover. destruct (((p_seq s + 1) mod 2 ^ 32 =? 0) && negb (p_kex s)); [discriminate|].
    injection H as <- <-. exists packet, m'. repeat split; assumption || reflexivity.
  - cbn [fst snd].
    destruct (build_packet P s (d0 :: dt) rnd) as [packet|] eqn:Eb; cbn [bind] in H; [|discriminate].
    destruct (encrypt_packet P s packet) as [[out m']|] eqn:Ee; cbn [bind fst snd] in H; [|discriminate].
    unfold rollover. destruct (((p_seq s + 1) mod 2 ^ 32 =? 0) && negb (p_kex s)); [discriminate|].
    injection H as <- <-. exists packet, m'. repeat split; assumption || reflexivity.
Qed.

Lemma pad_bytes_facts s padding rnd : 0 <= padding -> bytes_ok rnd = true ->
  zlen (pad_bytes P s padding rnd) = padding /\ bytes_ok (pad_bytes P s padding rnd) = true.
Proof.
  intros H0 Hr. unfold pad_bytes. destruct (p_sdctr s || is_plain P (p_mode s)).
  - rewrite zlen_repeat. split; [lia|]. now apply bytes_ok_repeat.
  - split.
    + unfold zlen. rewrite firstn_length, app_length, repeat_length. lia.
    + apply bytes_ok_firstn. rewrite bytes_ok_app, Hr. now apply bytes_ok_repeat.
Qed.

Lemma build_packet_inv s data rnd packet :
  8 <= p_bs s -> bytes_ok data = true -> bytes_ok rnd = true ->
  build_packet P s data rnd = Ok packet ->
  exists padding pad,
    packet = be_encode 4 (zlen data + padding + 1) ++ (padding :: data ++ pad) /\
    zlen pad = padding /\ 4 <= padding < 256 /\ 0 <= zlen data + padding + 1 < 2 ^ 32 /\
    bytes_ok (padding :: data ++ pad) = true /\
    (zlen data + padding + 1 + (addlen P (p_mode s) - 4)) mod p_bs s = 0 /\
    p_bs s <= zlen data + padding + 1 + (addlen P (p_mode s) - 4).
Proof.
  intros Hbs Hd Hr H. unfold build_packet in H.
  set (padding := padding_len P (p_bs s) (p_mode s) (zlen data)) in *.
  destruct ((0 <=? padding) && (padding <? 256) && (zlen data + padding + 1 <? 2 ^ 32)) eqn:G; [|discriminate].
  injection H as <-.
  apply andb_true_iff in G as [G G3]. apply andb_true_iff in G as [G1 G2].
  pose proof (zlen_nonneg data) as Hn.
  assert (Ha : 0 <= addlen P (p_mode s)) by (destruct (p_mode s); cbn; lia).
  assert (Hpr : 4 <= padding <= p_bs s + 3) by (apply pad_range; lia).
  destruct (pad_bytes_facts s padding rnd ltac:(lia) Hr) as [Hl Hb].
  exists padding, (pad_bytes P s padding rnd). split; [reflexivity|]. split; [exact Hl|].
  split; [lia|]. split; [lia|]. split.
  - rewrite bytes_ok_cons, bytes_ok_app, Hd, Hb. cbn [andb]. rewrite andb_true_r. apply byte_ok_iff. lia.
  - unfold padding, padding_len.
    replace (zlen data + (3 + p_bs s - (zlen data + addlen P (p_mode s)) mod p_bs s) + 1 + (addlen P (p_mode s) - 4))
      with ((zlen data + addlen P (p_mode s)) + (p_bs s - (zlen data + addlen P (p_mode s)) mod p_bs s)) by ring.
    split; [apply pad_align; lia|apply pad_ge; lia].
Qed.

Lemma comp_step_bytes zs data : bytes_ok data = true -> bytes_ok (fst (comp_step zs data)) = true.
Proof. intros H. destruct zs; cbn; [now apply (comp_bytes _ _ _ HP)|exact H]. Qed.

Lemma finish_honest r m' padding pad data zs ev :
  zlen pad = padding -> 0 <= padding -> bytes_ok data = true -> data <> [] ->
  z_sync zinv zs (p_z r) -> rollover (p_seq r) (p_kex r) = false ->
  exists zr',
    finish P r m' (zlen (fst (comp_step zs data)) + padding + 1)
           (padding :: fst (comp_step zs data) ++ pad) ev
    = Ok (data, ev, with_mode_seq_z P r m' ((p_seq r + 1) mod 2 ^ 32) zr') /\
    z_sync zinv (snd (comp_step zs data)) zr'.
Proof.
  intros Hp H0 Hb Hne Hz Hro. unfold finish.
  replace (zlen (fst (comp_step zs data)) + padding + 1 - padding)
    with (zlen (fst (comp_step zs data)) + padding + 1 - padding) by reflexivity.
  rewrite py_slice1_honest by assumption.
  unfold rollover in Hro.
  destruct zs as [z|]; destruct (p_z r) as [zr|]; cbn in Hz; try contradiction; cbn [comp_step fst snd].
  - destruct (decomp_comp _ _ _ HP z zr data Hz Hb) as (zd' & E & Hi). rewrite E. cbn [bind fst snd].
    rewrite Hro. destruct data; [congruence|]. exists (Some zd'). split; [reflexivity|exact Hi].
  - cbn [bind fst snd]. rewrite Hro. destruct data; [congruence|]. exists None. split; [reflexivity|exact I].
Qed.
End RT.

Section RT2.
Variable P : prims.
Variable cinv : Z -> cst P -> cst P -> Prop.
Variable zinv : zst P -> zst P -> Prop.
Hypothesis HP : prims_ok P cinv zinv.
Notation FS := (list Z).

Lemma be4_roundtrip size : 0 <= size < 2 ^ 32 -> be_decode (be_encode 4 size) = size.
Proof. intros H. apply be_decode_encode. change (256 ^ Z.of_nat 4) with (2 ^ 32). exact H. Qed.

Lemma read_classic_honest r header dec dec2 l t o2 tag m' res rest size :
  8 <= p_bs r -> 0 <= p_msz r -> 0 <= size < 2 ^ 32 ->
  dec header = (be_encode 4 size ++ l, dec2) ->
  zlen l = p_bs r - 4 -> size = zlen (l ++ t) -> (size + 4) mod p_bs r = 0 ->
  zlen o2 = zlen t -> dec2 o2 = (t, m') -> zlen tag = p_msz r ->
  (0 < p_msz r -> exists c k, p_mode r = Classic c k /\
                  tag = mac_tag P k (p_msz r) (mac_input (p_seq r) size (l ++ t))) ->
  finish P r m' size (l ++ t)
         (if 0 <? p_msz r then EvMac (mac_input (p_seq r) size (l ++ t)) tag else EvNone) = Ok res ->
  read_classic P FS ftake r header dec (o2 ++ tag ++ rest) = Done res rest.
Proof.
  intros Hbs Hmsz Hsz Hdec Hl Hsize Hal Ho2 Hdec2 Htag Hmac Hfin.
  unfold read_classic. cbv zeta. rewrite Hdec. cbv beta iota.
  rewrite (firstn_app_exact (be_encode 4 size) l 4), (skipn_app_exact (be_encode 4 size) l 4)
    by now rewrite be_encode_length.
  rewrite be4_roundtrip by exact Hsz.
  replace ((size - zlen l) mod p_bs r =? 0) with true.
  2:{ symmetry. apply Z.eqb_eq. rewrite Hl. replace (size - (p_bs r - 4)) with (size + 4 - p_bs r) by ring.
      apply mod0_sub; [lia|exact Hal]. }
  cbn [negb]. unfold rbind, rtake. rewrite zlen_app in Hsize.
  rewrite (app_assoc o2 tag rest).
  rewrite ftake_exact by (rewrite zlen_app; lia).
  replace (Z.to_nat (size - zlen l)) with (length o2) by (unfold zlen in *; lia).
  rewrite firstn_app_exact, skipn_app_exact by reflexivity. rewrite Hdec2.
  destruct (0 <? p_msz r) eqn:Em.
  - destruct Hmac as (c & k & Hm & Ht); [lia|]. rewrite Hm.
    rewrite firstn_all2 by (unfold zlen in *; lia). rewrite <- Ht, cteq_refl. cbn [negb].
    unfold rlift. rewrite Hfin. reflexivity.
  - unfold rlift. rewrite Hfin. reflexivity.
Qed.

Lemma seq_next_range q : 0 <= (q + 1) mod 2 ^ 32 < 2 ^ 32.
Proof. apply Z.mod_pos_bound. lia. Qed.

Opaque be_encode.
Theorem roundtrip1 s r data rnd w s' :
  sync cinv zinv s r -> data <> [] -> bytes_ok data = true -> bytes_ok rnd = true ->
  send_message P s data rnd = Ok (w, s') ->
  exists ev r',
    (forall rest, read_message P FS ftake r (w ++ rest) = Done (data, ev, r') rest) /\
    sync cinv zinv s' r' /\ p_seq s' = (p_seq s + 1) mod 2 ^ 32 /\
    (is_plain P (p_mode r) = false -> 0 < p_msz r -> ev <> EvNone).
Proof.
  intros Hs Hne Hb Hr Hsend.
  destruct (send_message_inv P s data rnd w s' Hne Hsend) as (packet & m' & Hbuild & Henc & Hro & ->).
  destruct Hs as (Hbs & Hmsz & Hseq & Hkex & Hbs8 & Hmsz0 & Hseqr & Hmode & Hz).
  pose proof (comp_step_bytes P cinv zinv HP (p_z s) data Hb) as Hb1.
  destruct (build_packet_inv P s _ rnd packet Hbs8 Hb1 Hr Hbuild)
    as (padding & pad & -> & Hpl & Hpr & Hsz & Hbody & Hal & Hge).
  set (data1 := fst (comp_step P (p_z s) data)) in *.
  set (size := zlen data1 + padding + 1) in *.
  set (body := padding :: data1 ++ pad) in *.
  assert (Hbl : zlen body = size) by (unfold body, size; rewrite zlen_cons, zlen_app; lia).
  assert (Hror : rollover (p_seq r) (p_kex r) = false) by (rewrite <- Hseq, <- Hkex; exact Hro).
  pose proof (fun m' ev => finish_honest P cinv zinv HP r m' padding pad data (p_z s) ev Hpl
                 ltac:(lia) Hb Hne Hz Hror) as Hfin.
  fold data1 in Hfin. fold size in Hfin. fold body in Hfin.
  rewrite Hbs in Hal, Hge, Hbs8. rewrite Hmsz in Hmsz0.
  assert (Hsync : forall ms mr zr', mode_sync cinv (p_bs s) (p_msz s) ms mr ->
            z_sync zinv (snd (comp_step P (p_z s) data)) zr' ->
            sync cinv zinv (with_mode_seq_z P s ms ((p_seq s + 1) mod 2 ^ 32) (snd (comp_step P (p_z s) data)))
                 (with_mode_seq_z P r mr ((p_seq r + 1) mod 2 ^ 32) zr')).
  { intros ms mr zr' Hm Hz'. unfold sync. cbn [with_mode_seq_z p_bs p_msz p_seq p_kex p_mode p_z].
    pose proof (seq_next_range (p_seq s)). rewrite <- Hseq.
    repeat split; try assumption; try lia. }
  unfold encrypt_packet in Henc.
  destruct (p_mode s) as [|se k|se k|ak iv] eqn:Ems; destruct (p_mode r) as [|sd k'|sd k'|ak' iv'] eqn:Emr;
    cbn [mode_sync] in Hmode; try contradiction; cbn [addlen] in Hal, Hge.
  - (* cleartext *)
    injection Henc as <- <-.
    destruct (split_at body (p_bs r - 4)) as (l & t & Hlt & Hll); [unfold zlen in *; lia|].
    destruct (Hfin Plain EvNone) as (zr' & Hf & Hz').
    exists EvNone, (with_mode_seq_z P r Plain ((p_seq r + 1) mod 2 ^ 32) zr'). split; [|split; [|split]].
    + intros rest. unfold read_message, read_body. cbv zeta. unfold rbind at 1. unfold rtake at 1.
      rewrite Hlt, <- !app_assoc, (app_assoc (be_encode 4 size) l).
      rewrite ftake_exact by (rewrite zlen_app, zlen_be; unfold zlen in *; lia).
      rewrite Emr. change (t ++ rest) with (t ++ [] ++ rest).
      eapply read_classic_honest with (l := l) (t := t) (m' := Plain) (size := size);
        try reflexivity; try lia.
      * unfold zlen in *; lia.
      * rewrite <- Hlt. symmetry. exact Hbl.
      * replace (size + 4) with (size + (8 - 4)) by ring. exact Hal.
      * rewrite zlen_nil. lia.
      * rewrite <- Hlt. rewrite <- Hmsz, Hmode. cbn. exact Hf.
    + apply Hsync; [cbn; exact Hmode|exact Hz'].
    + reflexivity.
    + cbn. discriminate.
  - (* classic *)
    destruct Hmode as (<- & Hc & Htl).
    destruct (c_enc P se (be_encode 4 size ++ body)) as [o c'] eqn:Ec. injection Henc as <- <-.
    assert (Hpb : bytes_ok (be_encode 4 size ++ body) = true) by (rewrite bytes_ok_app, be_encode_ok, Hbody; reflexivity).
    assert (Hpm : zlen (be_encode 4 size ++ body) mod p_bs r = 0).
    { rewrite zlen_app, zlen_be, Hbl. replace (Z.of_nat 4 + size) with (size + (8 - 4)) by lia. exact Hal. }
    rewrite Hbs in Hc.
    destruct (dec_enc _ _ _ HP (p_bs r) se sd _ Hc Hpb Hpm) as [Hd Hc']. rewrite Ec in Hd, Hc'. cbn [fst snd] in Hd, Hc'.
    pose proof (enc_len _ _ _ HP se (be_encode 4 size ++ body)) as Hol. rewrite Ec in Hol. cbn [fst] in Hol.
    rewrite app_length, be_encode_length in Hol.
    destruct (split_at o (p_bs r)) as (o1 & o2 & Ho & Ho1); [unfold zlen in *; lia|]. subst o.
    destruct (split_at body (p_bs r - 4)) as (l & t & Hlt & Hll); [unfold zlen in *; lia|].
    assert (Ho1m : zlen o1 mod p_bs r = 0) by (unfold zlen; rewrite Ho1; apply Z_mod_same_full).
    pose proof (dec_split _ _ _ HP (p_bs r) se sd o1 o2 Hc Ho1m) as Hsp.
    rewrite Hsp in Hd, Hc'. cbn [fst snd] in Hd, Hc'.
    assert (Hd12 : fst (c_dec P sd o1) = be_encode 4 size ++ l /\
                   fst (c_dec P (snd (c_dec P sd o1)) o2) = t).
    { apply app_inv_len.
      - rewrite (dec_len _ _ _ HP), app_length, be_encode_length. lia.
      - rewrite Hd, Hlt, app_assoc. reflexivity. }
    destruct Hd12 as [Hd1 Hd2].
    set (mp := mac_input (p_seq r) size body).
    set (tag := mac_tag P k (p_msz s) (be_encode 4 (p_seq s) ++ be_encode 4 size ++ body)).
    assert (Htag : tag = mac_tag P k (p_msz r) mp) by (unfold tag, mp, mac_input; now rewrite Hseq, Hmsz).
    set (mr' := Classic (snd (c_dec P (snd (c_dec P sd o1)) o2)) k).
    destruct (Hfin mr' (if 0 <? p_msz r then EvMac mp tag else EvNone)) as (zr' & Hf & Hz').
    exists (if 0 <? p_msz r then EvMac mp tag else EvNone),
           (with_mode_seq_z P r mr' ((p_seq r + 1) mod 2 ^ 32) zr'). split; [|split; [|split]].
    + intros rest. unfold read_message, read_body. cbv zeta. unfold rbind at 1. unfold rtake at 1.
      rewrite <- !app_assoc. rewrite ftake_exact by (unfold zlen; lia).
      rewrite Emr.
      eapply read_classic_honest with (l := l) (t := t) (m' := mr') (size := size)
          (dec2 := fun rest0 => (fst (c_dec P (snd (c_dec P sd o1)) rest0),
                                 Classic (snd (c_dec P (snd (c_dec P sd o1)) rest0)) k));
        try lia.
      * cbv beta. rewrite Hd1. reflexivity.
      * unfold zlen in *; lia.
      * rewrite <- Hlt. symmetry. exact Hbl.
      * replace (size + 4) with (size + (8 - 4)) by ring. exact Hal.
      * rewrite <- Hd2. unfold zlen. now rewrite (dec_len _ _ _ HP).
      * cbv beta. rewrite Hd2. reflexivity.
      * rewrite <- Hmsz. apply Htl.
      * intros _. exists sd, k. split; [exact Emr|]. rewrite <- Hlt. exact Htag.
      * rewrite <- Hlt. exact Hf.
    + apply Hsync; [|exact Hz']. cbn. rewrite Hbs. auto.
    + reflexivity.
    + intros _ Hm. destruct (0 <? p_msz r) eqn:E; [discriminate|lia].
  - (* encrypt-then-MAC *)
    destruct Hmode as (<- & Hc & Htl).
    rewrite (firstn_app_exact (be_encode 4 size) body 4), (skipn_app_exact (be_encode 4 size) body 4) in Henc
      by now rewrite be_encode_length.
    destruct (c_enc P se body) as [o c'] eqn:Ec. injection Henc as <- <-.
    assert (Hpm : zlen body mod p_bs r = 0) by (rewrite Hbl; replace size with (size + (4 - 4)) by ring; exact Hal).
    rewrite Hbs in Hc.
    destruct (dec_enc _ _ _ HP (p_bs r) se sd _ Hc Hbody Hpm) as [Hd Hc']. rewrite Ec in Hd, Hc'. cbn [fst snd] in Hd, Hc'.
    pose proof (enc_len _ _ _ HP se body) as Hol. rewrite Ec in Hol. cbn [fst] in Hol.
    destruct (split_at o (p_bs r - 4)) as (oa & ob & Ho & Hoa); [unfold zlen in *; lia|].
    set (mp := mac_input (p_seq r) size o).
    set (tag := mac_tag P k (p_msz s) (be_encode 4 (p_seq s) ++ be_encode 4 size ++ o)).
    assert (Htag : mac_tag P k (p_msz r) mp = tag) by (unfold tag, mp, mac_input; now rewrite Hseq, Hmsz).
    destruct (Hfin (Etm (snd (c_dec P sd o)) k) (EvMac mp tag)) as (zr' & Hf & Hz').
    exists (EvMac mp tag), (with_mode_seq_z P r (Etm (snd (c_dec P sd o)) k) ((p_seq r + 1) mod 2 ^ 32) zr').
    split; [|split; [|split]].
    + intros rest. unfold read_message, read_body. cbv zeta. unfold rbind, rtake.
      replace ((be_encode 4 size ++ o) ++ mac_tag P k (p_msz s) (be_encode 4 (p_seq s) ++ be_encode 4 size ++ o))
        with ((be_encode 4 size ++ o) ++ tag) by (unfold tag; now rewrite <- app_assoc).
      rewrite Ho at 1. rewrite <- !app_assoc, (app_assoc (be_encode 4 size) oa).
      rewrite ftake_exact by (rewrite zlen_app, zlen_be; unfold zlen in *; lia).
      rewrite Emr.
      rewrite (firstn_app_exact (be_encode 4 size) oa 4), (skipn_app_exact (be_encode 4 size) oa 4)
        by now rewrite be_encode_length.
      rewrite be4_roundtrip by exact Hsz.
      rewrite ftake_exact by (unfold zlen in *; rewrite Ho, app_length in Hol; lia).
      rewrite ftake_exact by (rewrite <- Hmsz; apply Htl).
      rewrite <- Ho. fold mp. rewrite Htag, cteq_refl. cbn [negb].
      rewrite Hd. unfold rlift. rewrite Hf. reflexivity.
    + apply Hsync; [|exact Hz']. cbn. rewrite Hbs. auto.
    + reflexivity.
    + intros _ _. discriminate.
  - (* AEAD *)
    destruct Hmode as (<- & <- & Hm16).
    rewrite (firstn_app_exact (be_encode 4 size) body 4), (skipn_app_exact (be_encode 4 size) body 4) in Henc
      by now rewrite be_encode_length.
    destruct (inc_iv iv) as [iv2|] eqn:Ei; cbn [bind] in Henc; [|discriminate]. injection Henc as <- <-.
    set (ct := a_enc P ak iv body (be_encode 4 size)).
    pose proof (aead_len _ _ _ HP ak iv body (be_encode 4 size)) as Hcl. fold ct in Hcl.
    destruct (split_at ct (p_bs r - 4)) as (ca & cb & Hct & Hca); [unfold zlen in *; lia|].
    destruct (Hfin (Aead ak iv2) (EvAead iv (be_encode 4 size) ct)) as (zr' & Hf & Hz').
    exists (EvAead iv (be_encode 4 size) ct), (with_mode_seq_z P r (Aead ak iv2) ((p_seq r + 1) mod 2 ^ 32) zr').
    split; [|split; [|split]].
    + intros rest. unfold read_message, read_body. cbv zeta. unfold rbind, rtake.
      rewrite Hct at 1. rewrite <- !app_assoc, (app_assoc (be_encode 4 size) ca).
      rewrite ftake_exact by (rewrite zlen_app, zlen_be; unfold zlen in *; lia).
      rewrite Emr.
      rewrite (firstn_app_exact (be_encode 4 size) ca 4), (skipn_app_exact (be_encode 4 size) ca 4)
        by now rewrite be_encode_length.
      rewrite be4_roundtrip by exact Hsz.
      rewrite <- (app_nil_r cb) at 1. rewrite <- app_assoc. cbn [app].
      rewrite ftake_exact by (unfold zlen in *; rewrite Hct, app_length in Hcl; lia).
      rewrite <- Hct. unfold ct. rewrite (aead_dec_enc _ _ _ HP) by exact Hbody.
      rewrite Ei. cbn [bind]. unfold rlift. fold ct. rewrite Hf. reflexivity.
    + apply Hsync; [|exact Hz']. cbn. auto.
    + reflexivity.
    + intros _ _. discriminate.
Qed.
Transparent be_encode.
End RT2.

Section Lists.
Variable P : prims.
Variable cinv : Z -> cst P -> cst P -> Prop.
Variable zinv : zst P -> zst P -> Prop.
Hypothesis HP : prims_ok P cinv zinv.
Notation FS := (list Z).

Lemma sync_set_cipher s r ms mr bs msz sd1 sd2 zs zr :
  sync cinv zinv s r -> 8 <= bs -> 0 <= msz -> mode_sync cinv bs msz ms mr -> z_sync zinv zs zr ->
  sync cinv zinv (set_cipher P s ms bs msz sd1 zs) (set_cipher P r mr bs msz sd2 zr).
Proof.
  intros (Hbs & Hmsz & Hseq & Hkex & Hbs8 & Hmsz0 & Hseqr & Hmode & Hz) H1 H2 H3 H4.
  unfold sync. cbn. repeat split; try assumption; lia.
Qed.

Lemma sync_reset s r : sync cinv zinv s r -> sync cinv zinv (reset_seqno P s) (reset_seqno P r).
Proof.
  intros (Hbs & Hmsz & Hseq & Hkex & Hbs8 & Hmsz0 & Hseqr & Hmode & Hz).
  unfold sync. cbn. repeat split; try assumption; lia.
Qed.

(* round trip of whole sessions: messages, key switches, seqno resets *)
Theorem roundtrip_ops : forall ops s r ws s',
  sync cinv zinv s r -> ops_ok cinv zinv ops -> send_ops P s ops = Ok (ws, s') ->
  forall rest, exists r',
    recv_ops P r ops (concat ws ++ rest) = Some (payloads P ops, r', rest) /\ sync cinv zinv s' r'.
Proof.
  induction ops as [|o ops IH]; intros s r ws s' Hs Hok Hsend rest.
  - cbn in Hsend. injection Hsend as <- <-. exists r. cbn. auto.
  - destruct o as [p rnd | ms mr bs msz sd zs zr | ].
    + cbn [send_ops] in Hsend. destruct Hok as (Hne & Hb & Hr & Hok).
      destruct (send_message P s p rnd) as [[w s1]|] eqn:E1; cbn [bind fst snd] in Hsend; [|discriminate].
      destruct (send_ops P s1 ops) as [[wt sf]|] eqn:E2; cbn [bind fst snd] in Hsend; [|discriminate].
      injection Hsend as <- <-.
      destruct (roundtrip1 P cinv zinv HP s r p rnd w s1 Hs Hne Hb Hr E1) as (ev & r1 & Hrd & Hs1 & _).
      destruct (IH s1 r1 wt sf Hs1 Hok E2 rest) as (r' & Hrec & Hs').
      exists r'. split; [|exact Hs']. cbn [recv_ops concat payloads]. unfold read_message_flat.
      rewrite <- app_assoc, Hrd, Hrec. reflexivity.
    + cbn [send_ops] in Hsend. destruct Hok as (H1 & H2 & H3 & H4 & Hok).
      cbn [recv_ops payloads]. eapply IH; eauto. now apply sync_set_cipher.
    + cbn [send_ops] in Hsend. cbn [recv_ops payloads]. eapply IH; eauto. now apply sync_reset.
Qed.

(* sequence numbers: equal on both sides after every session, counting packets mod 2^32 *)
Theorem seqno_agree ops s r ws s' :
  sync cinv zinv s r -> ops_ok cinv zinv ops -> send_ops P s ops = Ok (ws, s') ->
  exists r', recv_ops P r ops (concat ws) = Some (payloads P ops, r', []) /\
             p_seq s' = p_seq r' /\ 0 <= p_seq r' < 2 ^ 32.
Proof.
  intros Hs Hok Hsend. destruct (roundtrip_ops ops s r ws s' Hs Hok Hsend []) as (r' & H & Hs').
  rewrite app_nil_r in H. exists r'. split; [exact H|].
  destruct Hs' as (_ & _ & Hseq & _ & _ & _ & Hr & _). split; [exact Hseq|]. now rewrite <- Hseq.
Qed.

Theorem seqno_step s r data rnd w s' :
  sync cinv zinv s r -> data <> [] -> bytes_ok data = true -> bytes_ok rnd = true ->
  send_message P s data rnd = Ok (w, s') ->
  p_seq s' = (p_seq s + 1) mod 2 ^ 32 /\
  (p_seq s = 2 ^ 32 - 1 -> p_seq s' = 0 /\ p_kex s = true).
Proof.
  intros Hs Hne Hb Hr Hsend.
  destruct (send_message_inv P s data rnd w s' Hne Hsend) as (packet & m' & _ & _ & Hro & ->).
  cbn [with_mode_seq_z p_seq]. split; [reflexivity|]. intros E. rewrite E in *.
  unfold rollover in Hro. change ((2 ^ 32 - 1 + 1) mod 2 ^ 32) with 0 in *. cbn in Hro.
  split; [reflexivity|]. now destruct (p_kex s).
Qed.

(* a strict prefix of a packet blocks (NeedMore), whatever the mode *)
Theorem prefix_blocks s r data rnd w s' q :
  sync cinv zinv s r -> data <> [] -> bytes_ok data = true -> bytes_ok rnd = true ->
  send_message P s data rnd = Ok (w, s') -> strict_prefix q w ->
  read_message P FS ftake r q = Need.
Proof.
  intros Hs Hne Hb Hr Hsend Hq.
  destruct (roundtrip1 P cinv zinv HP s r data rnd w s' Hs Hne Hb Hr Hsend) as (ev & r1 & Hrd & _).
  destruct (mono_read_message P r _ _ _ (Hrd [])) as (c & Hc & _ & N).
  rewrite !app_nil_r in Hc. subst c. apply N, Hq.
Qed.

Fixpoint all_msgs (ops : list (op P)) : Prop :=
  match ops with [] => True | OMsg _ _ :: t => all_msgs t | _ => False end.

(* the complete messages are delivered in order, then the reader blocks on the partial one:
   no loss, duplication or merging *)
Theorem read_many_prefix : forall ops s r ws s' q,
  sync cinv zinv s r -> ops_ok cinv zinv ops -> all_msgs ops -> send_ops P s ops = Ok (ws, s') ->
  (q = [] \/ exists p rnd w s'', p <> [] /\ bytes_ok p = true /\ bytes_ok rnd = true /\
                                send_message P s' p rnd = Ok (w, s'') /\ strict_prefix q w) ->
  forall fuel, (length ops < fuel)%nat ->
  exists evs r', read_many P FS ftake fuel r (concat ws ++ q) = (payloads P ops, evs, FNeed, r', q) /\
                 sync cinv zinv s' r'.
Proof.
  induction ops as [|o ops IH]; intros s r ws s' q Hs Hok Hall Hsend Hq fuel Hfuel.
  - cbn in Hsend. injection Hsend as <- <-. destruct fuel as [|f]; [cbn in Hfuel; lia|].
    exists [], r. split; [|exact Hs]. cbn [concat app read_many payloads].
    assert (N : read_message P FS ftake r q = Need).
    { destruct Hq as [-> | (p & rnd & w & s'' & H1 & H2 & H3 & H4 & H5)].
      - unfold read_message. unfold rbind, rtake.
        destruct Hs as (Hbs & _ & _ & _ & Hbs8 & _). rewrite ftake_short; [reflexivity|lia|rewrite zlen_nil; lia].
      - eapply prefix_blocks; eauto. }
    now rewrite N.
  - destruct o as [p rnd | | ]; try contradiction.
    cbn [send_ops] in Hsend. destruct Hok as (Hne & Hb & Hr & Hok). cbn [all_msgs] in Hall.
    destruct (send_message P s p rnd) as [[w s1]|] eqn:E1; cbn [bind fst snd] in Hsend; [|discriminate].
    destruct (send_ops P s1 ops) as [[wt sf]|] eqn:E2; cbn [bind fst snd] in Hsend; [|discriminate].
    injection Hsend as <- <-.
    destruct (roundtrip1 P cinv zinv HP s r p rnd w s1 Hs Hne Hb Hr E1) as (ev & r1 & Hrd & Hs1 & _).
    destruct fuel as [|f]; [cbn in Hfuel; lia|]. cbn [length] in Hfuel.
    destruct (IH s1 r1 wt sf q Hs1 Hok Hall E2 Hq f ltac:(lia)) as (evs & r' & Hrm & Hs').
    exists (ev :: evs), r'. split; [|exact Hs'].
    cbn [read_many concat payloads]. rewrite <- app_assoc, Hrd, Hrm. reflexivity.
Qed.

(* fragmentation independence: any two chunkings of the same byte stream give the same result *)
Theorem chunking_independent fuel (r : pstate P) (s1 s2 : list (list Z)) :
  ne s1 -> ne s2 -> concat s1 = concat s2 ->
  let '(ps1, evs1, f1, r1, rest1) := read_many P (list (list Z)) stake fuel r s1 in
  let '(ps2, evs2, f2, r2, rest2) := read_many P (list (list Z)) stake fuel r s2 in
  ps1 = ps2 /\ f1 = f2 /\ r1 = r2 /\ concat rest1 = concat rest2.
Proof.
  intros H1 H2 E. pose proof (sim_read_many_chunks P fuel r s1 H1) as A.
  pose proof (sim_read_many_chunks P fuel r s2 H2) as B.
  destruct (read_many P (list (list Z)) stake fuel r s1) as [[[[ps1 evs1] f1] r1] rest1].
  destruct (read_many P (list (list Z)) stake fuel r s2) as [[[[ps2 evs2] f2] r2] rest2].
  rewrite E in A. rewrite A in B. injection B as -> _ -> -> ->. auto.
Qed.

Theorem chunked_equals_flat fuel (r : pstate P) (s : list (list Z)) :
  ne s ->
  let '(ps, evs, fi, rf, sf) := read_many P (list (list Z)) stake fuel r s in
  read_many P FS ftake fuel r (concat s) = (ps, evs, fi, rf, concat sf).
Proof. apply sim_read_many_chunks. Qed.
End Lists.

(* ---- non-vacuity: identity primitives satisfy the laws --------------------------- *)
Definition idP : prims :=
  {| cst := unit; c_enc := fun s x => (x, s); c_dec := fun s x => (x, s);
     mkey := unit; hmac := fun _ _ => repeat 0 20%nat;
     akey := unit; a_enc := fun _ _ p _ => p ++ repeat 0 16%nat;
     a_dec := fun _ _ c _ => Some (firstn (length c - 16) c);
     zst := unit; z_comp := fun z x => (x, z); z_decomp := fun z x => Ok (x, z) |}.

Lemma idP_ok : prims_ok idP (fun _ _ _ => True) (fun _ _ => True).
Proof.
  constructor; cbn; intros; auto.
  - f_equal. rewrite app_length. cbn [length]. rewrite Nat.add_sub. now apply firstn_app_exact.
  - rewrite zlen_app. unfold zlen. cbn [length]. lia.
  - destruct zd. eauto.
Qed.

Definition id_state (m : mode idP) (bs msz : Z) : pstate idP :=
  {| p_mode := m; p_bs := bs; p_msz := msz; p_seq := 2 ^ 32 - 1; p_kex := true;
     p_sdctr := false; p_z := Some tt |}.

Lemma id_examples :
  sync (fun _ _ _ => True) (fun _ _ => True) (id_state (@Etm idP tt tt) 16 8) (id_state (@Etm idP tt tt) 16 8) /\
  sync (fun _ _ _ => True) (fun _ _ => True) (id_state (@Aead idP tt [0;0;0;1;0;0;0;0;0;0;0;9]) 16 16)
       (id_state (@Aead idP tt [0;0;0;1;0;0;0;0;0;0;0;9]) 16 16) /\
  exists w s', send_message idP (id_state (@Classic idP tt tt) 8 8) [5; 1; 2; 3] [] = Ok (w, s').
Proof.
  split; [|split].
  - unfold sync. cbn. repeat split; try lia; auto.
  - unfold sync. cbn. repeat split; try lia; auto.
  - eexists. eexists. vm_compute. reflexivity.
Qed.

(* ---- socket timeouts and a pending re-key ------------------------------------------- *)
Definition ne_t (s : list sev) : Prop :=
  Forall (fun e => match e with SData c => c <> [] | STimeout => True end) s.

Lemma read_all_t_spec : forall sock n out ck nr, ne_t sock ->
  match read_all_t n out ck nr sock with
  | RAok x s' => exists y, x = out ++ y /\ ftake n (sdata sock) = Some (y, sdata s') /\ ne_t s'
  | RAeof => ftake n (sdata sock) = None
  | RArekey s' => ck = true /\ nr = true /\ out = [] /\ sdata s' = sdata sock /\ ne_t s'
  end.
Proof.
  induction sock as [|e rest IH]; intros n out ck nr Hne; cbn [read_all_t].
  - destruct (n <=? 0) eqn:E.
    + exists []. rewrite app_nil_r. unfold ftake. rewrite E. auto.
    + cbn [sdata]. apply ftake_short; [lia|rewrite zlen_nil; lia].
  - destruct (n <=? 0) eqn:E.
    + exists []. rewrite app_nil_r. unfold ftake. rewrite E. auto.
    + inversion Hne as [|? ? Hc Hrest]; subst. destruct e as [c|].
      * destruct c as [|c0 c']; [congruence|]. set (c := c0 :: c') in *. cbn [sdata].
        destruct (zlen c <=? n) eqn:E2.
        -- specialize (IH (n - zlen c) (out ++ c) ck nr Hrest).
           destruct (read_all_t (n - zlen c) (out ++ c) ck nr rest) as [x s'| |s'].
           ++ destruct IH as (y & -> & Ht & Hn). exists (c ++ y). rewrite app_assoc. split; [reflexivity|].
              split; [|exact Hn]. apply ftake_inv in Ht as [Hc1 Hc2]. rewrite Hc1, app_assoc.
              apply ftake_exact. rewrite zlen_app. lia.
           ++ unfold ftake in *. rewrite E. rewrite zlen_app.
              destruct (n - zlen c <=? 0) eqn:E3; [discriminate|].
              destruct (zlen (sdata rest) <? n - zlen c) eqn:E4; [|discriminate].
              destruct (zlen c + zlen (sdata rest) <? n) eqn:E5; [reflexivity|lia].
           ++ destruct IH as (_ & _ & Hout & _). destruct out; discriminate.
        -- exists (firstn (Z.to_nat n) c). split; [reflexivity|]. split.
           ++ cbn [sdata]. rewrite <- (firstn_skipn (Z.to_nat n) c) at 1. rewrite <- app_assoc.
              apply ftake_exact. unfold zlen in *. rewrite firstn_length. lia.
           ++ constructor; [|exact Hrest]. intros Hs.
              assert (L : length (skipn (Z.to_nat n) c) = 0%nat) by now rewrite Hs.
              rewrite skipn_length in L. unfold zlen in *. lia.
      * cbn [sdata]. destruct (ck && Nat.eqb (length out) 0 && nr) eqn:G.
        -- apply andb_true_iff in G as [G ->]. apply andb_true_iff in G as [-> G].
           apply Nat.eqb_eq in G. destruct out; [|discriminate]. auto.
        -- apply IH, Hrest.
Qed.

Lemma ttake_spec : forall n s, ne_t s ->
  match ttake n s with
  | Some (x, s') => ftake n (sdata s) = Some (x, sdata s') /\ ne_t s'
  | None => ftake n (sdata s) = None
  end.
Proof.
  intros n s H. unfold ttake. pose proof (read_all_t_spec s n [] false false H) as R.
  destruct (read_all_t n [] false false s) as [x s'| |s'].
  - destruct R as (y & -> & Ht & Hn). auto.
  - exact R.
  - destruct R as (R & _). discriminate.
Qed.

Section Timeouts.
Variable P : prims.
Notation FS := (list Z).

Lemma read_message_t_spec nr r s : ne_t s ->
  match read_message_t P nr r s with
  | TRekey s' => sdata s' = sdata s /\ ne_t s'          (* nothing was consumed *)
  | TOther x => srel (list sev) sdata ne_t x (read_message P FS ftake r (sdata s))
  end.
Proof.
  intros H. unfold read_message_t. pose proof (read_all_t_spec s (p_bs r) [] true nr H) as R.
  destruct (read_all_t (p_bs r) [] true nr s) as [h s'| |s'].
  - destruct R as (y & -> & Ht & Hn). cbn [app]. unfold read_message, rbind, rtake. rewrite Ht.
    apply (sim_read_body P (list sev) ttake sdata ne_t ttake_spec r y s' Hn).
  - unfold read_message, rbind, rtake. rewrite R. reflexivity.
  - destruct R as (_ & _ & _ & E & Hn). auto.
Qed.

Lemma read_many_fuel_mono : forall f r s ps evs fi rf sf,
  read_many P FS ftake f r s = (ps, evs, fi, rf, sf) -> fi <> FFuel ->
  forall f2, (f <= f2)%nat -> read_many P FS ftake f2 r s = (ps, evs, fi, rf, sf).
Proof.
  induction f as [|f IH]; intros r s ps evs fi rf sf H Hfi f2 Hle.
  - cbn in H. injection H as _ _ <- _ _. congruence.
  - destruct f2 as [|f2]; [lia|]. cbn [read_many] in *.
    destruct (read_message P FS ftake r s) as [| e | [[p ev] r'] s']; try exact H.
    destruct (read_many P FS ftake f r' s') as [[[[ps1 evs1] fi1] rf1] sf1] eqn:E.
    injection H as <- <- <- <- <-.
    rewrite (IH r' s' ps1 evs1 fi1 rf1 sf1 E Hfi f2 ltac:(lia)). reflexivity.
Qed.

(* timeouts at any positions, with or without a pending re-key, never lose, duplicate or reorder
   bytes: the run loop delivers exactly what reading the plain byte stream delivers *)
Theorem timeouts_lossless : forall fuel nr r s, ne_t s ->
  let '(ps, evs, k, fi, rf, sf) := read_many_t P nr fuel r s in
  fi <> FFuel -> forall fuel2, (fuel <= fuel2)%nat ->
  read_many P FS ftake fuel2 r (sdata s) = (ps, evs, fi, rf, sdata sf).
Proof.
  induction fuel as [|f IH]; intros nr r s H; cbn [read_many_t].
  - intros Hfi. congruence.
  - pose proof (read_message_t_spec nr r s H) as R.
    destruct (read_message_t P nr r s) as [s'|x].
    + destruct R as [E Hn]. specialize (IH nr r s' Hn).
      destruct (read_many_t P nr f r s') as [[[[[ps evs] k] fi] rf] sf].
      intros Hfi fuel2 Hle. rewrite <- E. apply IH; [exact Hfi|lia].
    + unfold srel in R. destruct x as [| e | [[p ev] r'] s'].
      * intros _ fuel2 Hle. destruct fuel2 as [|f2]; [lia|]. cbn [read_many]. now rewrite R.
      * intros _ fuel2 Hle. destruct fuel2 as [|f2]; [lia|]. cbn [read_many]. now rewrite R.
      * destruct R as [R Hn]. specialize (IH nr r' s' Hn).
        destruct (read_many_t P nr f r' s') as [[[[[ps evs] k] fi] rf] sf].
        intros Hfi fuel2 Hle. destruct fuel2 as [|f2]; [lia|]. cbn [read_many]. rewrite R.
        rewrite (IH Hfi f2 ltac:(lia)). reflexivity.
Qed.
End Timeouts.

(* ---- AEAD nonces ---------------------------------------------------------------------- *)
Definition iv_ok (iv : list Z) : Prop := bytes_ok iv = true /\ (4 <= length iv)%nat.

Opaque be_encode.
Lemma inc_iv_ctr iv iv' : iv_ok iv -> inc_iv iv = Ok iv' ->
  be_decode (skipn 4 iv') = be_decode (skipn 4 iv) + 1 /\ iv_ok iv' /\ be_decode (skipn 4 iv') < 2 ^ 64.
Proof.
  intros [Hb Hl] H. unfold inc_iv in H.
  destruct (be_decode (skipn 4 iv) + 1 <? 2 ^ 64) eqn:E; [|discriminate].
  assert (Hiv : iv' = firstn 4 iv ++ be_encode 8 (be_decode (skipn 4 iv) + 1)) by congruence.
  subst iv'. clear H.
  pose proof (be_decode_range (skipn 4 iv) (bytes_ok_skipn 4 iv Hb)) as R.
  assert (L4 : length (firstn 4 iv) = 4%nat) by (rewrite firstn_length; lia).
  rewrite (skipn_app_exact (firstn 4 iv) _ 4) by (symmetry; exact L4).
  assert (D : be_decode (be_encode 8 (be_decode (skipn 4 iv) + 1)) = be_decode (skipn 4 iv) + 1).
  { apply be_decode_encode. change (256 ^ Z.of_nat 8) with (2 ^ 64). lia. }
  rewrite D. split; [reflexivity|]. split; [|lia]. split.
  - rewrite bytes_ok_app, be_encode_ok, (bytes_ok_firstn 4 iv Hb). reflexivity.
  - rewrite app_length, L4. lia.
Qed.
Transparent be_encode.

Lemma iv_after_ctr : forall k iv a, iv_ok iv -> iv_after k iv = Ok a ->
  be_decode (skipn 4 a) = be_decode (skipn 4 iv) + Z.of_nat k /\ iv_ok a.
Proof.
  induction k as [|k IH]; intros iv a Hi H.
  - cbn in H. injection H as <-. split; [lia|exact Hi].
  - cbn [iv_after] in H. destruct (inc_iv iv) as [iv1|] eqn:E; cbn [bind] in H; [|discriminate].
    destruct (inc_iv_ctr iv iv1 Hi E) as (C & Hi1 & _).
    destruct (IH iv1 a Hi1 H) as [C2 Ha]. split; [lia|exact Ha].
Qed.

(* the nonces used within one key epoch are pairwise distinct (the 64-bit invocation counter never
   wraps: at 2^64 - 1 _inc_iv_counter raises instead) *)
Theorem iv_distinct iv k1 k2 a b :
  iv_ok iv -> iv_after k1 iv = Ok a -> iv_after k2 iv = Ok b -> k1 <> k2 -> a <> b.
Proof.
  intros Hi H1 H2 Hk E. destruct (iv_after_ctr k1 iv a Hi H1) as [C1 _].
  destruct (iv_after_ctr k2 iv b Hi H2) as [C2 _]. subst b. lia.
Qed.

(* each AEAD packet is encrypted under the current IV and the IV is then advanced by inc_iv *)
Theorem aead_send_iv P s k iv data rnd w s' :
  p_mode s = Aead k iv -> data <> [] -> send_message P s data rnd = Ok (w, s') ->
  exists iv', inc_iv iv = Ok iv' /\ p_mode s' = Aead k iv'.
Proof.
  intros Em Hne H. destruct (send_message_inv P s data rnd w s' Hne H) as (packet & m' & _ & He & _ & ->).
  unfold encrypt_packet in He. rewrite Em in He.
  destruct (inc_iv iv) as [iv'|]; cbn [bind] in He; [|discriminate]. injection He as _ <-.
  exists iv'. auto.
Qed.

(* ---- write_all: the socket receives exactly the packet ---------------------------------- *)
Theorem write_all_exact : forall evs out iters written,
  (snd (write_all out iters evs written) = true -> fst (write_all out iters evs written) = written ++ out) /\
  (exists t, written ++ out = fst (write_all out iters evs written) ++ t).
Proof.
  induction evs as [|e rest IH]; intros out iters written.
  - destruct out; cbn [write_all fst snd]; rewrite ?app_nil_r; split; auto; exists []; now rewrite app_nil_r.
  - destruct out as [|o0 out'].
    { cbn [write_all fst snd]. rewrite app_nil_r. split; auto. exists []. now rewrite app_nil_r. }
    set (out := o0 :: out') in *.
    assert (Hpre : exists t, written ++ out = written ++ t) by (exists out; reflexivity).
    destruct e as [k| | |]; cbn [write_all]; fold out.
    + destruct (((k =? 0) && (10 <? iters)) || (k <? 0)); [cbn [fst snd]; split; [discriminate|exact Hpre]|].
      destruct (k =? zlen out); [cbn [fst snd]; split; [reflexivity|exists []; now rewrite app_nil_r]|].
      set (n := Z.to_nat (Z.min k (zlen out))).
      destruct (IH (skipn n out) (iters + 1) (written ++ firstn n out)) as [A B].
      rewrite <- app_assoc, firstn_skipn in A, B. auto.
    + apply IH.
    + apply IH.
    + cbn [fst snd]. split; [discriminate|exact Hpre].
Qed.

(* ---- the generated source facts (coq/Gen/C01_gen.v, regenerated from paramiko on every run) are what
        the model uses ---------------------------------------------------------------------- *)
From PV Require Import C01_gen.

Lemma source_tables :
  forallb (fun c => let '(bs, ks, iv, aead) := c in
             (8 <=? bs) && (if aead : bool then iv =? g1_iv_fixed + g1_iv_ctr else iv =? bs)) g1_ciphers = true /\
  forallb (fun m => let '(sz, dg, etm) := m in (0 <? sz) && (sz <=? dg)) g1_macs = true /\
  existsb (fun c => negb (fst c)) g1_compressions = true /\
  g1_aead_mac_size = 16 /\
  (g1_init_bs_out, g1_init_bs_in, g1_init_msz_out, g1_init_msz_in, g1_init_seq_out, g1_init_seq_in) = (8, 8, 0, 0, 0, 0).
Proof. vm_compute. repeat split; reflexivity. Qed.

Lemma source_seq : forall q kex,
  g1_seq_next_out q = (q + 1) mod 2 ^ 32 /\ g1_seq_next_in q = (q + 1) mod 2 ^ 32 /\
  g1_rollover_out (g1_seq_next_out q) kex = rollover q kex /\
  g1_rollover_in (g1_seq_next_in q) kex = rollover q kex.
Proof.
  intros q kex.
  assert (E : forall x, Z.land (x + 1) g1_seq_mask = (x + 1) mod 2 ^ 32).
  { intros x. change g1_seq_mask with (Z.ones 32). apply Z.land_ones. lia. }
  unfold g1_seq_next_out, g1_seq_next_in, g1_rollover_out, g1_rollover_in, rollover. rewrite !E. auto.
Qed.

Lemma source_inc_iv : forall iv,
  inc_iv iv =
  (let c := be_decode (skipn (Z.to_nat g1_iv_fixed) iv) + g1_iv_step in
   if c <? 2 ^ (8 * g1_iv_ctr) then Ok (firstn (Z.to_nat g1_iv_fixed) iv ++ be_encode (Z.to_nat g1_iv_ctr) c)
   else Raise (LibExc 2)).
Proof. reflexivity. Qed.

(* the read sizes, blocking test and payload slice of read_message are those of the model's read_body *)
Lemma source_read_sizes : forall ps bs msz lo padding,
  g1_etm_remaining ps bs = ps - bs + 4 /\ g1_aead_remaining ps bs msz = ps - bs + 4 + msz /\
  g1_classic_read ps msz lo = ps + msz - lo /\ g1_block_check ps lo bs = negb ((ps - lo) mod bs =? 0) /\
  g1_payload_start = 1 /\ g1_payload_end ps padding = ps - padding.
Proof. intros. repeat split; reflexivity. Qed.

(* read_all: loop test and the need-rekey guard are the model's read_all_t *)
Lemma source_read_all : forall n out ck nr rest,
  read_all_t n out ck nr (STimeout :: rest) =
  if negb (g1_read_continue n) then RAok out (STimeout :: rest)
  else if g1_rekey_cond ck (zlen out) nr then RArekey rest
  else read_all_t n out ck nr rest.
Proof.
  intros. cbn [read_all_t]. unfold g1_read_continue, g1_rekey_cond. rewrite Z.gtb_ltb.
  replace (negb (0 <? n)) with (n <=? 0) by (destruct (n <=? 0) eqn:A, (0 <? n) eqn:B; try reflexivity; lia).
  destruct (n <=? 0); [reflexivity|].
  replace (zlen out =? 0) with (Nat.eqb (length out) 0) by (destruct out; reflexivity).
  reflexivity.
Qed.

(* write_all: zero-return rule, failure test, completion test and the retry value are the model's *)
Lemma source_write_all : forall k iters o out' rest written,
  write_all (o :: out') iters (WSend k :: rest) written =
  (if g1_write_zero_abort k iters || g1_write_fail k then (written, false)
   else if g1_write_done k (zlen (o :: out')) then (written ++ o :: out', true)
   else let n := Z.to_nat (Z.min k (zlen (o :: out'))) in
        write_all (skipn n (o :: out')) (iters + 1) rest (written ++ firstn n (o :: out'))) /\
  g1_write_retry_n = 0 /\ g1_write_continue (zlen (o :: out')) = true.
Proof.
  intros. split; [|split; [reflexivity|]].
  - cbn [write_all]. unfold g1_write_zero_abort, g1_write_fail, g1_write_done. rewrite Z.gtb_ltb. reflexivity.
  - unfold g1_write_continue. rewrite Z.gtb_ltb, zlen_cons. pose proof (zlen_nonneg out'). lia.
Qed.
