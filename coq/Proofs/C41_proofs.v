(* C41 — proofs of the lemmas that Props/C41_props.v closes with `exact`. *)
From PV Require Import Bytes C41_gen C41.
From Coq Require Import ZArith List Bool Lia.
Import ListNotations.
Open Scope Z_scope.

(* ------------------------------------------------------------------ *)
(* boolean equalities reflect equality                                  *)
(* ------------------------------------------------------------------ *)
Lemma name_eqb_eq a b : name_eqb a b = true <-> a = b.
Proof.
  destruct a as [h1 i1], b as [h2 i2]; unfold name_eqb; cbn.
  rewrite andb_true_iff, Z.eqb_eq, eqb_true_iff. split.
  - intros [-> ->]; reflexivity.
  - intros H; injection H; auto.
Qed.

Lemma name_eqb_refl a : name_eqb a a = true.
Proof. apply name_eqb_eq; reflexivity. Qed.

Lemma key_eqb_eq a b : key_eqb a b = true <-> a = b.
Proof.
  destruct a as [a1 a2], b as [b1 b2]; unfold key_eqb; cbn.
  rewrite andb_true_iff, !Z.eqb_eq. split.
  - intros [-> ->]; reflexivity.
  - intros H; injection H; auto.
Qed.

Lemma key_eqb_refl a : key_eqb a a = true.
Proof. apply key_eqb_eq; reflexivity. Qed.

Lemma hash_match_iff hm p t : hash_match hm p t = true <-> In (p, t) hm.
Proof.
  unfold hash_match. rewrite existsb_exists. split.
  - intros [[a b] [Hin H]]. cbn in H. apply andb_true_iff in H as [H1 H2].
    apply Z.eqb_eq in H1, H2. subst. exact Hin.
  - intros H. exists (p, t). split; [exact H|]. cbn. now rewrite !Z.eqb_refl.
Qed.

Lemma name_matches_iff hm q h :
  name_matches hm q h = true <->
  (h = q \/ (is_hashed h = true /\ is_hashed q = false /\ In (name_id q, name_id h) hm)).
Proof.
  unfold name_matches.
  rewrite orb_true_iff, !andb_true_iff, name_eqb_eq, negb_true_iff, hash_match_iff. tauto.
Qed.

Lemma hostname_matches_iff hm q e : hostname_matches hm q e = true <-> lists hm q e.
Proof.
  unfold hostname_matches, lists. rewrite existsb_exists.
  split; intros [h [Hin H]]; exists h; (split; [exact Hin|]); apply name_matches_iff; exact H.
Qed.

(* a name that matches query q can stand for q: whatever matches it as a query matches q *)
Lemma name_matches_trans hm q n m :
  name_matches hm q n = true -> name_matches hm n m = true -> name_matches hm q m = true.
Proof.
  rewrite !name_matches_iff.
  intros [->|(Hn & Hq & Hin)] [->|(Hm & Hn' & Hin')]; auto.
  congruence.
Qed.

Lemma hostname_matches_trans hm q n e :
  name_matches hm q n = true -> hostname_matches hm n e = true -> hostname_matches hm q e = true.
Proof.
  unfold hostname_matches. rewrite !existsb_exists. intros Hq [m [Hin Hm]].
  exists m. split; [exact Hin|]. eapply name_matches_trans; eauto.
Qed.

(* ------------------------------------------------------------------ *)
(* generic list facts                                                   *)
(* ------------------------------------------------------------------ *)
Lemma find_split {A} (f : A -> bool) l x :
  find f l = Some x <->
  exists l1 l2, l = l1 ++ x :: l2 /\ f x = true /\ forall y, In y l1 -> f y = false.
Proof.
  induction l as [|a l IH]; cbn.
  - split; [discriminate|]. intros (l1 & l2 & H & _). destruct l1; discriminate.
  - destruct (f a) eqn:E.
    + split.
      * intros H; injection H as ->. exists [], l. cbn. repeat split; auto. intros y [].
      * intros (l1 & l2 & H & Hx & Hl1). destruct l1 as [|b l1]; cbn in H.
        -- injection H as H1 _. now rewrite H1.
        -- injection H as H1 _. subst b. specialize (Hl1 a (or_introl eq_refl)). congruence.
    + rewrite IH. split.
      * intros (l1 & l2 & -> & Hx & Hl1). exists (a :: l1), l2. cbn. repeat split; auto.
        intros y [<-|Hy]; auto.
      * intros (l1 & l2 & H & Hx & Hl1). destruct l1 as [|b l1]; cbn in H.
        -- injection H as H1 _. subst. congruence.
        -- injection H as H1 H2. subst. exists l1, l2. repeat split; auto.
           intros y Hy. apply Hl1. now right.
Qed.

Lemma find_filter {A} (f g : A -> bool) l :
  find g (filter f l) = find (fun x => f x && g x) l.
Proof.
  induction l as [|a l IH]; cbn; [reflexivity|].
  destruct (f a); cbn; [destruct (g a); auto | exact IH].
Qed.

Lemma find_app' {A} (f : A -> bool) a b :
  find f (a ++ b) = match find f a with Some x => Some x | None => find f b end.
Proof. induction a as [|x a IH]; cbn; [reflexivity|]. destruct (f x); auto. Qed.

Lemma find_none_iff {A} (f : A -> bool) l :
  find f l = None <-> forall x, In x l -> f x = false.
Proof.
  induction l as [|a l IH]; cbn.
  - split; auto. intros _ x [].
  - destruct (f a) eqn:E.
    + split; [discriminate|]. intros H. specialize (H a (or_introl eq_refl)). congruence.
    + rewrite IH. split.
      * intros H x [<-|Hx]; auto.
      * intros H x Hx. apply H. now right.
Qed.

(* ------------------------------------------------------------------ *)
(* lookup                                                               *)
(* ------------------------------------------------------------------ *)
Lemma lookup_in hm st q e : In e (lookup hm st q) <-> In e st /\ lists hm q e.
Proof. unfold lookup. rewrite filter_In, hostname_matches_iff. tauto. Qed.

Lemma lookup_filter hm st q (f : entry -> bool) :
  (forall e, f e = true <-> lists hm q e) -> lookup hm st q = filter f st.
Proof.
  intros Hf. unfold lookup. apply filter_ext. intros e.
  destruct (hostname_matches hm q e) eqn:E1, (f e) eqn:E2; try reflexivity.
  - apply hostname_matches_iff in E1. apply Hf in E1. congruence.
  - apply Hf in E2. apply hostname_matches_iff in E2. congruence.
Qed.

Lemma lookup_spec hm st q :
  (forall e, In e (lookup hm st q) <-> In e st /\ lists hm q e) /\
  (forall f : entry -> bool, (forall e, f e = true <-> lists hm q e) -> lookup hm st q = filter f st) /\
  (lookup hm st q = [] <-> forall e, In e st -> ~ lists hm q e).
Proof.
  split; [intros e; apply lookup_in|]. split; [intros f; apply lookup_filter|].
  split.
  - intros H e Hin Hl. assert (Hx : In e (lookup hm st q)) by (apply lookup_in; auto).
    rewrite H in Hx. destruct Hx.
  - intros H. destruct (lookup hm st q) as [|e l] eqn:E; [reflexivity|].
    assert (Hx : In e (lookup hm st q)) by (rewrite E; now left).
    apply lookup_in in Hx as [Hin Hl]. destruct (H e Hin Hl).
Qed.

(* ------------------------------------------------------------------ *)
(* effective key: the first listing entry of that type                 *)
(* ------------------------------------------------------------------ *)
Definition sel (hm : hmap) (q : name) (t : Z) (e : entry) : bool :=
  hostname_matches hm q e && (ktype (snd e) =? t).

Lemma eff_find hm st q t :
  eff hm st q t = match find (sel hm q t) st with Some e => Some (snd e) | None => None end.
Proof. unfold eff, subdict_get, lookup. rewrite find_filter. reflexivity. Qed.

Lemma sel_iff hm q t e : sel hm q t e = true <-> lists hm q e /\ ktype (snd e) = t.
Proof. unfold sel. rewrite andb_true_iff, hostname_matches_iff, Z.eqb_eq. tauto. Qed.

Lemma first_per_type hm st q t k :
  eff hm st q t = Some k <->
  exists s1 e s2, st = s1 ++ e :: s2 /\ lists hm q e /\ ktype (snd e) = t /\ snd e = k /\
    forall e', In e' s1 -> ~ (lists hm q e' /\ ktype (snd e') = t).
Proof.
  rewrite eff_find. split.
  - destruct (find (sel hm q t) st) as [e|] eqn:F; [|discriminate].
    intros H; injection H as <-. apply find_split in F as (s1 & s2 & -> & Hs & Hn).
    apply sel_iff in Hs as [Hl Ht]. exists s1, e, s2. repeat split; auto.
    intros e' Hin Hc. apply sel_iff in Hc. rewrite (Hn e' Hin) in Hc. discriminate.
  - intros (s1 & e & s2 & -> & Hl & Ht & Hk & Hn).
    assert (F : find (sel hm q t) (s1 ++ e :: s2) = Some e).
    { apply find_split. exists s1, s2. repeat split; auto.
      - apply sel_iff; auto.
      - intros y Hy. destruct (sel hm q t y) eqn:E; [|reflexivity].
        apply sel_iff in E. destruct (Hn y Hy E). }
    rewrite F. now subst.
Qed.

Lemma eff_none hm st q t :
  eff hm st q t = None <-> forall e, In e st -> sel hm q t e = false.
Proof.
  rewrite eff_find, <- find_none_iff.
  destruct (find (sel hm q t) st); split; congruence.
Qed.

Lemma eff_app hm st e q t :
  eff hm (st ++ [e]) q t =
  match eff hm st q t with
  | Some k => Some k
  | None => if sel hm q t e then Some (snd e) else None
  end.
Proof.
  rewrite !eff_find, find_app'. destruct (find (sel hm q t) st); [reflexivity|].
  cbn. destruct (sel hm q t e); reflexivity.
Qed.

Lemma eff_type hm st q t k : eff hm st q t = Some k -> ktype k = t.
Proof. intros H. apply first_per_type in H as (s1 & e & s2 & _ & _ & Ht & <- & _). exact Ht. Qed.

(* ------------------------------------------------------------------ *)
(* check                                                                *)
(* ------------------------------------------------------------------ *)
Lemma check_iff hm st q k : check hm st q k = true <-> eff hm st q (ktype k) = Some k.
Proof.
  unfold check, eff. destruct (lookup hm st q) as [|e l] eqn:E.
  - cbn. split; discriminate.
  - destruct (subdict_get (e :: l) (ktype k)) as [hk|].
    + rewrite key_eqb_eq. split; [intros ->; reflexivity | intros H; injection H; auto].
    + split; discriminate.
Qed.

Lemma check_spec hm st q k :
  (check hm st q k = true <-> eff hm st q (ktype k) = Some k) /\
  (check hm st q k = true <->
   exists s1 e s2, st = s1 ++ e :: s2 /\ lists hm q e /\ snd e = k /\
     forall e', In e' s1 -> ~ (lists hm q e' /\ ktype (snd e') = ktype k)) /\
  (forall k', check hm st q k = true -> check hm st q k' = true -> ktype k' = ktype k -> k' = k).
Proof.
  split; [apply check_iff|]. split.
  - rewrite check_iff, first_per_type. split.
    + intros (s1 & e & s2 & H1 & H2 & H3 & H4 & H5). exists s1, e, s2. auto.
    + intros (s1 & e & s2 & H1 & H2 & H4 & H5). exists s1, e, s2. repeat split; auto.
      now rewrite H4.
  - intros k' H1 H2 Ht. apply check_iff in H1, H2. rewrite Ht in H2. congruence.
Qed.

(* ------------------------------------------------------------------ *)
(* the loop of load: removing while iterating over a copy = filter      *)
(* ------------------------------------------------------------------ *)
Lemma remove_first_app known pre h r :
  (forall x, In x pre -> known x = false) -> known h = true ->
  remove_first h (pre ++ h :: r) = pre ++ r.
Proof.
  intros Hpre Hh. induction pre as [|x pre IH]; cbn.
  - now rewrite name_eqb_refl.
  - destruct (name_eqb x h) eqn:E.
    + apply name_eqb_eq in E. subst x. rewrite (Hpre h (or_introl eq_refl)) in Hh. discriminate.
    + f_equal. apply IH. intros y Hy. apply Hpre. now right.
Qed.

Lemma prune_gen known suf : forall pre,
  (forall x, In x pre -> known x = false) ->
  fold_left (fun cur h => if known h then remove_first h cur else cur) suf (pre ++ suf)
  = pre ++ filter (fun h => negb (known h)) suf.
Proof.
  induction suf as [|h r IH]; intros pre Hpre; cbn [fold_left filter].
  - reflexivity.
  - destruct (known h) eqn:E; cbn [negb].
    + rewrite (remove_first_app known pre h r Hpre E). apply IH. exact Hpre.
    + change (pre ++ h :: r) with (pre ++ [h] ++ r). rewrite app_assoc.
      rewrite IH.
      * rewrite <- app_assoc. reflexivity.
      * intros x Hx. apply in_app_or in Hx as [Hx|[<-|[]]]; auto.
Qed.

Lemma prune_filter known names : prune known names = filter (fun h => negb (known h)) names.
Proof. unfold prune. apply (prune_gen known names []). intros x []. Qed.

Lemma load_line_filter hm st names k :
  load_line hm st (LEntry names k) =
  match filter (fun h => negb (has_entry hm st h k)) names with
  | [] => st
  | n' => st ++ [(n', k)]
  end.
Proof.
  (* only checks when gen/c41.py found the repaired loop in the source: copy + _has_entry *)
  unfold load_line. change gen_load_uses_has_entry with true. change gen_load_iterates_copy with true.
  cbv beta iota zeta. rewrite prune_filter. reflexivity.
Qed.

(* ------------------------------------------------------------------ *)
(* has_entry                                                            *)
(* ------------------------------------------------------------------ *)
Lemma has_entry_app hm a b h k : has_entry hm (a ++ b) h k = has_entry hm a h k || has_entry hm b h k.
Proof. unfold has_entry. apply existsb_app. Qed.

Lemma has_entry_mono hm a b h k : has_entry hm a h k = true -> has_entry hm (a ++ b) h k = true.
Proof. intros H. rewrite has_entry_app, H. reflexivity. Qed.

Lemma has_entry_self hm names k h : In h names -> has_entry hm [(names, k)] h k = true.
Proof.
  intros Hin. unfold has_entry. cbn. rewrite key_eqb_refl, orb_false_r, andb_true_r.
  unfold hostname_matches. cbn. apply existsb_exists. exists h. split; [exact Hin|].
  unfold name_matches. now rewrite name_eqb_refl.
Qed.

Lemma load_line_extends hm st l : exists x, load_line hm st l = st ++ x.
Proof.
  destruct l as [|names k].
  - exists []. cbn. now rewrite app_nil_r.
  - rewrite load_line_filter. destruct (filter _ names) as [|n r].
    + exists []. now rewrite app_nil_r.
    + eexists. reflexivity.
Qed.

Lemma load_extends hm f : forall st, exists x, load hm st f = st ++ x.
Proof.
  induction f as [|l f IH]; intros st; cbn.
  - exists []. now rewrite app_nil_r.
  - destruct (load_line_extends hm st l) as [x Hx]. destruct (IH (load_line hm st l)) as [y Hy].
    exists (x ++ y). unfold load in Hy. rewrite Hy, Hx, app_assoc. reflexivity.
Qed.

(* after a line has been loaded every one of its names is known with its key *)
Lemma load_line_known hm st names k h :
  In h names -> has_entry hm (load_line hm st (LEntry names k)) h k = true.
Proof.
  intros Hin. rewrite load_line_filter.
  destruct (has_entry hm st h k) eqn:E.
  - destruct (filter _ names); [exact E | now apply has_entry_mono].
  - assert (Hf : In h (filter (fun h0 => negb (has_entry hm st h0 k)) names)).
    { apply filter_In. split; [exact Hin|]. now rewrite E. }
    destruct (filter _ names) as [|n r] eqn:F; [destruct Hf|].
    rewrite has_entry_app, (has_entry_self hm (n :: r) k h Hf). apply orb_true_r.
Qed.

(* a line all of whose names are known leaves the table unchanged *)
Lemma load_line_noop hm st names k :
  (forall h, In h names -> has_entry hm st h k = true) ->
  load_line hm st (LEntry names k) = st.
Proof.
  intros H. rewrite load_line_filter.
  destruct (filter _ names) as [|n r] eqn:F; [reflexivity|].
  assert (Hn : In n (filter (fun h => negb (has_entry hm st h k)) names)) by (rewrite F; now left).
  apply filter_In in Hn as [Hin Hb]. rewrite (H n Hin) in Hb. discriminate.
Qed.

Definition covered (hm : hmap) (st : state) (f : list line) : Prop :=
  forall names k, In (LEntry names k) f -> forall h, In h names -> has_entry hm st h k = true.

Lemma covered_noop hm f : forall st, covered hm st f -> load hm st f = st.
Proof.
  induction f as [|l f IH]; intros st Hc; cbn; [reflexivity|].
  assert (E : load_line hm st l = st).
  { destruct l as [|names k]; [reflexivity|]. apply load_line_noop.
    intros h Hh. apply (Hc names k); [now left | exact Hh]. }
  rewrite E. apply IH. intros names k Hin. apply Hc. now right.
Qed.

Lemma covered_after hm f : forall st, covered hm (load hm st f) f.
Proof.
  induction f as [|l f IH]; intros st names k Hin h Hh; [destruct Hin|].
  cbn. destruct Hin as [->|Hin].
  - destruct (load_extends hm f (load_line hm st (LEntry names k))) as [x Hx].
    unfold load in Hx. rewrite Hx. apply has_entry_mono. now apply load_line_known.
  - apply (IH (load_line hm st l) names k Hin h Hh).
Qed.

Lemma load_idempotent hm st f :
  let st1 := load hm st f in
  load hm st1 f = st1 /\
  (forall q, lookup hm (load hm st1 f) q = lookup hm st1 q) /\
  (forall q, subdict_keys (lookup hm (load hm st1 f) q) = subdict_keys (lookup hm st1 q)) /\
  (forall q k, check hm (load hm st1 f) q k = check hm st1 q k) /\
  keys (load hm st1 f) = keys st1 /\
  save (load hm st1 f) = save st1.
Proof.
  intros st1. assert (E : load hm st1 f = st1) by (apply covered_noop, covered_after).
  rewrite E. repeat split; reflexivity.
Qed.

(* ------------------------------------------------------------------ *)
(* save then reload                                                     *)
(* ------------------------------------------------------------------ *)
Lemma reload_step hm R names k q t :
  eff hm R q t = None -> (ktype k =? t) = true ->
  existsb (name_matches hm q) (filter (fun h => negb (has_entry hm R h k)) names)
  = existsb (name_matches hm q) names.
Proof.
  intros Hnone Ht.
  destruct (existsb (name_matches hm q) names) eqn:E.
  - apply existsb_exists in E as [n [Hin Hm]].
    apply existsb_exists. exists n. split; [|exact Hm].
    apply filter_In. split; [exact Hin|].
    destruct (has_entry hm R n k) eqn:Hh; [|reflexivity].
    exfalso. unfold has_entry in Hh. apply existsb_exists in Hh as [e0 [Hin0 H0]].
    apply andb_true_iff in H0 as [Hm0 Hk0]. apply key_eqb_eq in Hk0.
    assert (Hs : sel hm q t e0 = true).
    { unfold sel. rewrite (hostname_matches_trans hm q n e0 Hm Hm0), Hk0. exact Ht. }
    rewrite (proj1 (eff_none hm R q t) Hnone e0 Hin0) in Hs. discriminate.
  - destruct (existsb _ (filter _ names)) eqn:F; [|reflexivity].
    apply existsb_exists in F as [n [Hin Hm]]. apply filter_In in Hin as [Hin _].
    assert (X : existsb (name_matches hm q) names = true) by (apply existsb_exists; eauto).
    congruence.
Qed.

Lemma eff_load_line hm R names k q t :
  eff hm (load_line hm R (LEntry names k)) q t =
  match eff hm R q t with
  | Some x => Some x
  | None => if sel hm q t (names, k) then Some k else None
  end.
Proof.
  rewrite load_line_filter. unfold sel, hostname_matches. cbn [fst snd].
  destruct (filter _ names) as [|n r] eqn:F.
  - destruct (eff hm R q t) eqn:E; [reflexivity|].
    destruct (ktype k =? t) eqn:T; [|now rewrite andb_false_r].
    rewrite <- (reload_step hm R names k q t E T), F. reflexivity.
  - rewrite eff_app. destruct (eff hm R q t) eqn:E; [reflexivity|].
    unfold sel, hostname_matches. cbn [fst snd].
    destruct (ktype k =? t) eqn:T; [|now rewrite !andb_false_r].
    rewrite <- F, (reload_step hm R names k q t E T). reflexivity.
Qed.

Lemma save_reload_eff hm st : forall q t, eff hm (load hm [] (save st)) q t = eff hm st q t.
Proof.
  induction st as [|e st IH] using rev_ind; intros q t; [reflexivity|].
  unfold save. rewrite map_app. cbn [map]. unfold load. rewrite fold_left_app. cbn [fold_left].
  fold (save st). fold (load hm [] (save st)).
  rewrite eff_load_line, eff_app, IH. destruct e as [names k]. reflexivity.
Qed.

Lemma save_reload hm st :
  (forall q t, eff hm (load hm [] (save st)) q t = eff hm st q t) /\
  (forall q k, check hm (load hm [] (save st)) q k = check hm st q k) /\
  (forall q, lookup hm (load hm [] (save st)) q = [] <-> lookup hm st q = []).
Proof.
  split; [apply save_reload_eff|]. split.
  - intros q k.
    destruct (check hm st q k) eqn:E.
    + apply check_iff. rewrite save_reload_eff. now apply check_iff.
    + destruct (check hm (load hm [] (save st)) q k) eqn:E2; [|reflexivity].
      apply check_iff in E2. rewrite save_reload_eff in E2. apply check_iff in E2. congruence.
  - intros q.
    assert (G : forall s, lookup hm s q = [] <-> forall t, eff hm s q t = None).
    { intros s. split.
      - intros H t. unfold eff. now rewrite H.
      - intros H. destruct (lookup hm s q) as [|e l] eqn:L; [reflexivity|].
        specialize (H (ktype (snd e))). unfold eff, subdict_get in H. rewrite L in H.
        cbn in H. rewrite Z.eqb_refl in H. discriminate. }
    rewrite !G. split; intros H t; [rewrite <- save_reload_eff | rewrite save_reload_eff]; apply H.
Qed.

(* ------------------------------------------------------------------ *)
(* a load that is aborted by InvalidHostKey is idempotent too            *)
(* ------------------------------------------------------------------ *)
Lemma load_t_idempotent hm st f :
  let r := load_t hm st f in load_t hm (fst r) f = r.
Proof.
  unfold load_t. destruct (good_prefix f) as [p b]. cbn [fst].
  rewrite (proj1 (load_idempotent hm st p)). reflexivity.
Qed.

(* ------------------------------------------------------------------ *)
(* hostkeys[q][t] = k takes effect for q                                 *)
(* ------------------------------------------------------------------ *)
Lemma sub_replace_eff hm q t k : ktype k = t ->
  forall st st', sub_replace hm st q t k = Some st' -> eff hm st' q t = Some k.
Proof.
  intros Ht. induction st as [|a st IH]; cbn [sub_replace]; intros st' H; [discriminate|].
  destruct (hostname_matches hm q a && (ktype (snd a) =? t)) eqn:E.
  - injection H as <-. rewrite eff_find. cbn [find].
    assert (S1 : sel hm q t (fst a, k) = true).
    { unfold sel, hostname_matches in *. cbn [fst snd]. apply andb_true_iff in E as [E1 _].
      rewrite E1. cbn. now apply Z.eqb_eq. }
    now rewrite S1.
  - destruct (sub_replace hm st q t k) as [r'|] eqn:R; [|discriminate]. injection H as <-.
    rewrite eff_find. cbn [find]. unfold sel at 1. rewrite E. rewrite <- eff_find. now apply IH.
Qed.

Lemma sub_replace_none hm q t k :
  forall st, sub_replace hm st q t k = None -> eff hm st q t = None.
Proof.
  induction st as [|a st IH]; cbn [sub_replace]; intros H; [reflexivity|].
  destruct (hostname_matches hm q a && (ktype (snd a) =? t)) eqn:E; [discriminate|].
  destruct (sub_replace hm st q t k) eqn:R; [discriminate|].
  rewrite eff_find. cbn [find]. unfold sel at 1. rewrite E. rewrite <- eff_find. now apply IH.
Qed.

Lemma sub_set_effective hm st q t k st' :
  ktype k = t -> sub_set hm st q t k = Ok st' ->
  eff hm st' q t = Some k /\ check hm st' q k = true.
Proof.
  intros Ht H.
  assert (G : eff hm st' q t = Some k).
  { unfold sub_set in H. destruct (lookup hm st q) as [|e0 l0]; [discriminate|].
    destruct (sub_replace hm st q t k) as [s1|] eqn:R; injection H as <-.
    - eapply sub_replace_eff; eauto.
    - rewrite eff_app, (sub_replace_none hm q t k st R).
      assert (S1 : sel hm q t ([q], k) = true).
      { unfold sel, hostname_matches, name_matches. cbn [fst snd existsb].
        rewrite name_eqb_refl. cbn. now apply Z.eqb_eq. }
      now rewrite S1. }
  split; [exact G|]. apply check_iff. now rewrite Ht.
Qed.

(* ------------------------------------------------------------------ *)
(* the two earlier loaders are not idempotent                           *)
(* ------------------------------------------------------------------ *)
Lemma load_v0_refuted :
  exists hm f, load_v0 hm (load_v0 hm [] f) f <> load_v0 hm [] f.
Proof.
  exists [], [LEntry [Nm false 1; Nm false 2; Nm false 3] (1, 1)].
  vm_compute. discriminate.
Qed.

Lemma load_v1_refuted :
  exists hm f, load_v1 hm (load_v1 hm [] f) f <> load_v1 hm [] f.
Proof.
  exists [], [LEntry [Nm false 1] (1, 1); LEntry [Nm false 1] (1, 2)].
  vm_compute. discriminate.
Qed.
