"""C12 translator: message-dispatch tables of the working tree -> coq/Gen/C12_gen.v.

From live objects: common.MSG_NAMES keys, Transport / ServiceRequestingTransport instance
`_handler_table` keys, Transport._channel_handler_table keys, AuthHandler / AuthOnlyHandler
client and server tables, GssapiWithMicAuthHandler table, message-number constants.
From the AST of Transport.run: how the fallback branch computes `name` from MSG_NAMES
(subscript = raises KeyError on an unnamed type, `.get(k, default)` = tolerant).
Fail-closed: anything unrecognised raises and the check reports a broken obligation.
"""
import ast
import os


def _zlist(xs):
    return "[" + "; ".join(str(int(x)) for x in sorted(xs)) + "]"


def _name_lookup_strict(repo):
    src = open(os.path.join(repo, "paramiko", "transport.py")).read()
    tree = ast.parse(src)
    run = None
    for node in ast.walk(tree):
        if isinstance(node, ast.ClassDef) and node.name == "Transport":
            for f in node.body:
                if isinstance(f, ast.FunctionDef) and f.name == "run":
                    run = f
    if run is None:
        raise RuntimeError("Transport.run not found")
    found = []
    for node in ast.walk(run):
        if isinstance(node, ast.Assign) and len(node.targets) == 1 and isinstance(node.targets[0], ast.Name) \
                and node.targets[0].id == "name":
            v = node.value
            if isinstance(v, ast.Subscript) and isinstance(v.value, ast.Name) and v.value.id == "MSG_NAMES":
                found.append(True)
            elif (isinstance(v, ast.Call) and isinstance(v.func, ast.Attribute) and v.func.attr == "get"
                  and isinstance(v.func.value, ast.Name) and v.func.value.id == "MSG_NAMES"
                  and len(v.args) == 2 and not v.keywords):
                found.append(False)
            else:
                raise RuntimeError("unrecognised `name = ...` in Transport.run: " + ast.dump(v)[:200])
    if len(found) != 1:
        raise RuntimeError("expected exactly one `name = <MSG_NAMES lookup>` in Transport.run, found %d" % len(found))
    # every other use of MSG_NAMES inside run() must be one of the two recognised forms above
    uses = [n for n in ast.walk(run) if isinstance(n, ast.Name) and n.id == "MSG_NAMES"]
    if len(uses) != 1:
        raise RuntimeError("Transport.run mentions MSG_NAMES %d times (expected 1)" % len(uses))
    return found[0]


def _find_run(repo):
    tree = ast.parse(open(os.path.join(repo, "paramiko", "transport.py")).read())
    for node in ast.walk(tree):
        if isinstance(node, ast.ClassDef) and node.name == "Transport":
            for f in node.body:
                if isinstance(f, ast.FunctionDef) and f.name == "run":
                    return f
    raise RuntimeError("Transport.run not found")


def _fallback_send_blocking(repo):
    """Which send primitive the fallback branch of Transport.run uses for its reply.
    `_send_message` / `packetizer.send_message` never wait; `_send_user_message` waits for clear_to_send,
    which only the calling (transport) thread could set while a key exchange is in progress."""
    run = _find_run(repo)
    branch = None
    for node in ast.walk(run):
        if isinstance(node, ast.If) and node.orelse and not (len(node.orelse) == 1 and isinstance(node.orelse[0], ast.If)):
            for st in node.orelse:
                if isinstance(st, ast.Assign) and len(st.targets) == 1 and isinstance(st.targets[0], ast.Name) \
                        and st.targets[0].id == "name":
                    if branch is not None:
                        raise RuntimeError("two fallback branches in Transport.run")
                    branch = node.orelse
    if branch is None:
        raise RuntimeError("fallback branch of Transport.run not found")
    sends = []
    for st in branch:
        for n in ast.walk(st):
            if isinstance(n, ast.Call) and isinstance(n.func, ast.Attribute):
                a = n.func.attr
                if "send" in a or "write" in a:
                    sends.append(ast.unparse(n.func))
            if isinstance(n, (ast.While, ast.For, ast.Break, ast.Return, ast.Raise)):
                raise RuntimeError("fallback branch of Transport.run contains a loop / break / return / raise")
            if isinstance(n, ast.Call) and isinstance(n.func, ast.Attribute) and n.func.attr in ("wait", "acquire", "sleep", "join"):
                raise RuntimeError("fallback branch of Transport.run blocks: " + ast.unparse(n.func))
    if len(sends) != 1:
        raise RuntimeError("fallback branch of Transport.run: expected exactly one send call, found %r" % sends)
    if sends[0] in ("self._send_message", "self.packetizer.send_message"):
        return False
    if sends[0] == "self._send_user_message":
        return True
    raise RuntimeError("fallback branch of Transport.run sends with an unknown primitive: " + sends[0])


def _reader_lookup_strict(repo):
    """Does Packetizer.read_message (which every inbound packet passes through before dispatch) contain a
    MSG_NAMES[x] subscript that is not guarded by `if x in MSG_NAMES:`?  (Such a lookup raises KeyError for
    an unnamed type as soon as its code path - e.g. packet hexdump logging - is switched on.)"""
    tree = ast.parse(open(os.path.join(repo, "paramiko", "packet.py")).read())
    fn = None
    for node in ast.walk(tree):
        if isinstance(node, ast.ClassDef) and node.name == "Packetizer":
            for f in node.body:
                if isinstance(f, ast.FunctionDef) and f.name == "read_message":
                    fn = f
    if fn is None:
        raise RuntimeError("Packetizer.read_message not found")
    strict = []

    def is_names(n):
        return isinstance(n, ast.Name) and n.id == "MSG_NAMES"

    def visit(node, guarded):
        if isinstance(node, ast.If):
            t = node.test
            g = guarded
            if (isinstance(t, ast.Compare) and len(t.ops) == 1 and isinstance(t.ops[0], ast.In)
                    and is_names(t.comparators[0])):
                g = guarded | {ast.dump(t.left)}
            visit(t, guarded)
            for st in node.body:
                visit(st, g)
            for st in node.orelse:
                visit(st, guarded)
            return
        if isinstance(node, ast.Subscript) and is_names(node.value):
            if ast.dump(node.slice) not in guarded:
                strict.append(ast.unparse(node))
        elif isinstance(node, ast.Call) and isinstance(node.func, ast.Attribute) and is_names(node.func.value):
            if not (node.func.attr == "get" and len(node.args) == 2 and not node.keywords):
                raise RuntimeError("Packetizer.read_message: unrecognised use of MSG_NAMES: " + ast.unparse(node))
        for c in ast.iter_child_nodes(node):
            visit(c, guarded)

    visit(fn, frozenset())
    return bool(strict)


def _prelude_and_kex_range(repo, consts):
    """The leading `if ptype == MSG_X: ... continue/break` chain of the run loop (types dealt with before any
    table is consulted) and the `(ptype >= LO) and (ptype <= HI)` key-exchange range test."""
    run = _find_run(repo)
    loops = [n for n in ast.walk(run) if isinstance(n, ast.While) and ast.unparse(n.test) == "self.active"]
    if len(loops) != 1:
        raise RuntimeError("Transport.run: expected one `while self.active:` loop")
    prelude = []
    for st in loops[0].body:
        if not (isinstance(st, ast.If) and isinstance(st.test, ast.Compare) and isinstance(st.test.left, ast.Name)
                and st.test.left.id == "ptype" and len(st.test.ops) == 1 and isinstance(st.test.ops[0], ast.Eq)):
            continue
        node = st
        while True:
            t = node.test
            if not (isinstance(t, ast.Compare) and isinstance(t.left, ast.Name) and t.left.id == "ptype"
                    and len(t.ops) == 1 and isinstance(t.ops[0], ast.Eq) and isinstance(t.comparators[0], ast.Name)
                    and t.comparators[0].id in consts):
                raise RuntimeError("Transport.run prelude: unrecognised test " + ast.unparse(t))
            last = node.body[-1]
            if isinstance(last, ast.Continue):
                stops = False
            elif isinstance(last, ast.Break):
                stops = True
            else:
                raise RuntimeError("Transport.run prelude: branch for %s does not end in continue/break"
                                   % t.comparators[0].id)
            for n in node.body:
                for x in ast.walk(n):
                    if isinstance(x, ast.Call) and isinstance(x.func, ast.Attribute) and "send" in x.func.attr:
                        raise RuntimeError("Transport.run prelude: branch for %s sends a message" % t.comparators[0].id)
            prelude.append((consts[t.comparators[0].id], stops))
            if len(node.orelse) == 1 and isinstance(node.orelse[0], ast.If):
                node = node.orelse[0]
                continue
            if node.orelse:
                raise RuntimeError("Transport.run prelude: unexpected else")
            break
        break
    if not prelude:
        raise RuntimeError("Transport.run prelude not found")
    rng = []
    for n in ast.walk(loops[0]):
        if isinstance(n, ast.BoolOp) and isinstance(n.op, ast.And) and len(n.values) == 2:
            a, b = n.values
            if (isinstance(a, ast.Compare) and isinstance(b, ast.Compare) and ast.unparse(a.left) == "ptype"
                    and ast.unparse(b.left) == "ptype" and isinstance(a.ops[0], ast.GtE) and isinstance(b.ops[0], ast.LtE)
                    and isinstance(a.comparators[0], ast.Constant) and isinstance(b.comparators[0], ast.Constant)):
                rng.append((a.comparators[0].value, b.comparators[0].value))
    if len(rng) != 1:
        raise RuntimeError("Transport.run: expected one `(ptype >= LO) and (ptype <= HI)` test, found %r" % rng)
    return prelude, rng[0]


def generate(repo):
    import paramiko
    from paramiko import common, transport as T, auth_handler as AH
    got = os.path.realpath(os.path.dirname(paramiko.__file__))
    if got != os.path.realpath(os.path.join(repo, "paramiko")):
        raise RuntimeError("paramiko imported from %s, not from %s" % (got, repo))
    from _loop import LoopSocket

    t = T.Transport(LoopSocket())
    srt = T.ServiceRequestingTransport(LoopSocket())
    try:
        tt = set(t._handler_table.keys())
        st = set(srt._handler_table.keys())
        ct = set(T.Transport._channel_handler_table.keys())
        ah = AH.AuthHandler(t)
        ao = AH.AuthOnlyHandler(srt)
        tabs = {
            "msg_names": set(common.MSG_NAMES.keys()),
            "transport_handler_table": tt,
            "srt_handler_table": st,
            "channel_handler_table": ct,
            "auth_server_table": set(ah._server_handler_table.keys()),
            "auth_client_table": set(ah._client_handler_table.keys()),
            "authonly_server_table": set(ao._server_handler_table.keys()),
            "authonly_client_table": set(ao._client_handler_table.keys()),
            "gss_table": set(AH.GssapiWithMicAuthHandler(ah, None)._handler_table.keys()),
        }
    finally:
        t.sock.close()
        srt.sock.close()
    for k, v in tabs.items():
        for x in v:
            if not isinstance(x, int) or isinstance(x, bool):
                raise RuntimeError("%s has a non-integer key %r" % (k, x))
    consts = ["MSG_DISCONNECT", "MSG_IGNORE", "MSG_UNIMPLEMENTED", "MSG_DEBUG", "MSG_GLOBAL_REQUEST",
              "MSG_CHANNEL_OPEN", "HIGHEST_USERAUTH_MESSAGE_ID", "MSG_SERVICE_REQUEST", "MSG_SERVICE_ACCEPT",
              "MSG_USERAUTH_REQUEST", "MSG_USERAUTH_FAILURE", "MSG_USERAUTH_SUCCESS", "MSG_USERAUTH_BANNER",
              "MSG_USERAUTH_INFO_REQUEST", "MSG_USERAUTH_INFO_RESPONSE"]
    out = ["(* GENERATED by gen/c12.py from the working tree - do not edit *)",
           "From Coq Require Import ZArith List.", "Import ListNotations.", "Open Scope Z_scope.", ""]
    for k in sorted(tabs):
        out.append("Definition %s : list Z := %s." % (k, _zlist(tabs[k])))
    for c in consts:
        v = getattr(common, c)
        if not isinstance(v, int):
            raise RuntimeError("%s is not an int" % c)
        out.append("Definition %s : Z := %d." % (c, v))
    allc = {k: v for k, v in vars(common).items() if k.startswith("MSG_") and isinstance(v, int)}
    prelude, (lo, hi) = _prelude_and_kex_range(repo, allc)
    out.append("(* types the run loop deals with before any table: (type, leaves the loop) in source order *)")
    out.append("Definition prelude : list (Z * bool) := [%s]." %
               "; ".join("(%d, %s)" % (v, "true" if stp else "false") for v, stp in prelude))
    out.append("Definition KEX_LO : Z := %d." % lo)
    out.append("Definition KEX_HI : Z := %d." % hi)
    out.append("(* fallback branch of Transport.run: `name = MSG_NAMES[ptype]` (true) or `.get(ptype, d)` (false) *)")
    out.append("Definition name_lookup_strict : bool := %s." % ("true" if _name_lookup_strict(repo) else "false"))
    out.append("(* fallback branch sends its reply with _send_user_message (waits for clear_to_send) *)")
    out.append("Definition fallback_send_blocking : bool := %s." % ("true" if _fallback_send_blocking(repo) else "false"))
    out.append("(* Packetizer.read_message contains an unguarded MSG_NAMES[x] *)")
    out.append("Definition reader_lookup_strict : bool := %s." % ("true" if _reader_lookup_strict(repo) else "false"))
    return {"C12_gen.v": "\n".join(out) + "\n"}
