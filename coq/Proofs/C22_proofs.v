(* C22 -- proofs over the model in Model/C22.v *)
From Coq Require Import ZArith List Bool Lia.
From PV Require Import Bytes Sched C22.
Import ListNotations.
Open Scope Z_scope.

(* ---- list lemmas -------------------------------------------------------------- *)
Lemma cnt_app p a b : cnt p (a ++ b) = (cnt p a + cnt p b)%nat.
Proof. induction a as [|m a IH]; cbn; [reflexivity|]. rewrite IH. lia. Qed.

Lemma nda_aux_app e a b :
  nda_aux e (a ++ b) = nda_aux e a && nda_aux (e || existsb isEnd a) b.
Proof.
  revert e. induction a as [|m a IH]; intros e; cbn.
  - now rewrite orb_false_r.
  - rewrite IH. now rewrite <- andb_assoc, orb_assoc.
Qed.

Lemma nea_aux_app e a b :
  nea_aux e (a ++ b) = nea_aux e a && nea_aux (e || existsb isClose a) b.
Proof.
  revert e. induction a as [|m a IH]; intros e; cbn.
  - now rewrite orb_false_r.
  - rewrite IH. now rewrite <- andb_assoc, orb_assoc.
Qed.

Lemma cnt_pending_upd p l i t t' :
  nth_error l i = Some t ->
  (cnt p (concat (map pend (upd i t' l))) + cnt p (pend t)
   = cnt p (concat (map pend l)) + cnt p (pend t'))%nat.
Proof.
  revert i. induction l as [|y l IH]; intros i H.
  - destruct i; discriminate.
  - destruct i as [|j]; cbn in *.
    + injection H as ->. rewrite !cnt_app. lia.
    + rewrite !cnt_app. specialize (IH j H). lia.
Qed.

Lemma pending_init progs : concat (map pend (map (fun p => mkT [] p []) progs)) = [].
Proof. induction progs; cbn; auto. Qed.

(* ---- the invariant on (shared state, lock-order trace) ------------------------- *)
(* it only depends on five flags: closed, eof_sent, in_map and the two ghosts *)
Definition SI (cl es im gc gr : bool) (l : list msg) : Prop :=
  (cnt isEof l <= 1)%nat /\
  (es = false -> cnt isEof l = 0%nat) /\
  (cnt isClose l <= 1)%nat /\
  (cl = false -> cnt isClose l = 0%nat) /\
  (cl = true -> im = true -> cnt isClose l = 1%nat /\ es = true) /\
  (gc = true -> cnt isClose l = 1%nat /\ cl = true /\ es = true /\ im = false) /\
  (gr = true -> im = false) /\
  nda_aux false l = true /\
  (existsb isEnd l = true -> es || cl = true) /\
  nea_aux false l = true /\
  (existsb isClose l = true -> es = true).

Definition SInv (s : st) (l : list msg) : Prop :=
  SI (closed s) (eof_sent s) (in_map s) (gotc s) (gotr s) l.

Ltac split_ifs :=
  repeat match goal with
         | |- context [if ?b then _ else _] => destruct b eqn:?; cbn
         end.

Ltac fin :=
  rewrite ?app_nil_r, ?cnt_app, ?nda_aux_app, ?nea_aux_app, ?existsb_app; cbn;
  rewrite ?orb_false_r, ?orb_true_r, ?andb_true_r; cbn;
  repeat split; intros;
  repeat match goal with
         | H : _ /\ _ |- _ => destruct H
         | H : ?a = true -> _, H' : ?a = true |- _ => specialize (H H')
         | H : true = true -> _ |- _ => specialize (H eq_refl)
         | H : false = false -> _ |- _ => specialize (H eq_refl)
         end;
  try congruence; try lia; auto.

Ltac si_start :=
  unfold SI; intros (H1 & H2 & H3 & H4 & H5 & H6 & H7 & H8 & H9 & H10 & H11).

(* a message that is neither EOF, CLOSE nor data (WINDOW_ADJUST) *)
Lemma SI_wa cl es im gc gr l n : SI cl es im gc gr l -> SI cl es im gc gr (l ++ [MWa n]).
Proof. si_start. destruct cl, es, im, gc, gr; fin. Qed.

(* data is only appended while neither flag is set *)
Lemma SI_data im gc gr l m :
  isData m = true -> SI false false im gc gr l -> SI false false im gc gr (l ++ [m]).
Proof.
  intros Hm. si_start.
  assert (EE : existsb isEnd l = false)
    by (destruct (existsb isEnd l); [specialize (H9 eq_refl); discriminate|reflexivity]).
  destruct m; try discriminate; destruct im, gc, gr; rewrite ?cnt_app, ?nda_aux_app, ?nea_aux_app, ?existsb_app, EE; fin.
Qed.

Lemma SI_eof cl im gc gr l : SI cl false im gc gr l -> SI cl true im gc gr (l ++ [MEof]).
Proof.
  si_start.
  assert (EC : existsb isClose l = false)
    by (destruct (existsb isClose l); [specialize (H11 eq_refl); discriminate|reflexivity]).
  destruct cl, im, gc, gr; rewrite ?cnt_app, ?nda_aux_app, ?nea_aux_app, ?existsb_app, EC; fin.
Qed.

Lemma SI_eof_close im gc gr l : SI false false im gc gr l -> SI true true im gc gr (l ++ [MEof; MClose]).
Proof.
  si_start.
  assert (EC : existsb isClose l = false)
    by (destruct (existsb isClose l); [specialize (H11 eq_refl); discriminate|reflexivity]).
  destruct im, gc, gr; rewrite ?cnt_app, ?nda_aux_app, ?nea_aux_app, ?existsb_app, EC; fin.
Qed.

Lemma SI_close im gc gr l : SI false true im gc gr l -> SI true true im gc gr (l ++ [MClose]).
Proof. si_start. destruct im, gc, gr; fin. Qed.

Lemma SI_unmap cl es im gc gr l : SI cl es im gc gr l -> SI cl es false gc gr l.
Proof. si_start. destruct cl, es, im, gc, gr; fin. Qed.

Lemma SI_unlink cl es im gc gr l : SI cl es im gc gr l -> SI true es false gc gr l.
Proof. si_start. destruct cl, es, im, gc, gr; fin. Qed.

Lemma SI_ghost cl es gc gr l (gc' : bool) :
  (gc' = true -> gc = true \/ (cnt isClose l = 1%nat /\ cl = true /\ es = true)) ->
  SI cl es false gc gr l -> SI cl es false gc' true l.
Proof.
  intros G. si_start.
  split; [exact H1|]. split; [exact H2|]. split; [exact H3|]. split; [exact H4|].
  split; [exact H5|]. split.
  { intros E. destruct (G E) as [E' | (A & B & C)]; [exact (H6 E')|auto]. }
  split; [reflexivity|]. split; [exact H8|]. split; [exact H9|]. split; [exact H10|exact H11].
Qed.

Lemma SInv_flags s s' l :
  closed s' = closed s -> eof_sent s' = eof_sent s -> in_map s' = in_map s ->
  gotc s' = gotc s -> gotr s' = gotr s -> SInv s l -> SInv s' l.
Proof. unfold SInv. now intros -> -> -> -> ->. Qed.

(* _send_eof and _close_internal *)
Lemma send_eof_SInv s l : SInv s l -> SInv (fst (send_eof s)) (l ++ snd (send_eof s)).
Proof.
  unfold SInv, send_eof. destruct (eof_sent s) eqn:E; cbn; intros H.
  - now rewrite app_nil_r, E.
  - apply SI_eof. exact H.
Qed.

Lemma close_internal_SInv s l :
  SInv s l -> SInv (fst (close_internal s)) (l ++ snd (close_internal s)).
Proof.
  unfold SInv, close_internal, send_eof.
  destruct (active s) eqn:EA, (closed s) eqn:EC; cbn; intros H; rewrite ?app_nil_r, ?EC; auto.
  destruct (eof_sent s) eqn:EE; cbn.
  - rewrite EE. apply SI_close. exact H.
  - apply SI_eof_close. exact H.
Qed.

Lemma close_internal_fields s :
  let s' := fst (close_internal s) in
  in_map s' = in_map s /\ gotc s' = gotc s /\ gotr s' = gotr s /\ active s' = active s /\
  (active s = true -> closed s = false ->
     closed s' = true /\ eof_sent s' = true /\ existsb isClose (snd (close_internal s)) = true) /\
  (closed s = true -> s' = s /\ snd (close_internal s) = []).
Proof.
  unfold close_internal, send_eof.
  destruct (active s) eqn:EA, (closed s) eqn:EC; cbn; repeat split; auto; try discriminate;
    destruct (eof_sent s) eqn:EE; cbn; auto.
Qed.

Lemma reserve_SInv ext n s l :
  closed s = false -> eof_sent s = false -> SInv s l ->
  SInv (o_st (reserve ext n s)) (l ++ o_msgs (reserve ext n s)).
Proof.
  intros EC EE H. unfold reserve.
  match goal with |- context [if ?b then mkO _ _ _ _ else _] => destruct b end; cbn.
  - rewrite app_nil_r. apply (SInv_flags s); auto.
  - unfold SInv in *; cbn. rewrite EC, EE in *. apply SI_data; auto. destruct ext; reflexivity.
Qed.

Lemma send_cs_SInv ext n s l :
  SInv s l -> SInv (o_st (send_cs ext n s)) (l ++ o_msgs (send_cs ext n s)).
Proof.
  intros H. unfold send_cs.
  destruct (closed s) eqn:EC; cbn; [now rewrite app_nil_r|].
  destruct (eof_sent s) eqn:EE; cbn; [now rewrite app_nil_r|].
  destruct (out_win s =? 0); [destruct (blocking s); cbn; now rewrite app_nil_r|].
  apply reserve_SInv; auto.
Qed.

(* the blocking path: a woken writer re-tests closed / eof_sent before reserving *)
Lemma wake_cs_SInv ext n s l :
  SInv s l -> SInv (o_st (wake_cs ext n s)) (l ++ o_msgs (wake_cs ext n s)).
Proof.
  intros H. unfold wake_cs.
  destruct (out_win s =? 0); destruct (closed s || eof_sent s) eqn:E; cbn; try now rewrite app_nil_r.
  apply orb_false_iff in E as [EC EE]. apply reserve_SInv; auto.
Qed.

Lemma exec_SInv o s l : SInv s l -> SInv (o_st (exec o s)) (l ++ o_msgs (exec o s)).
Proof.
  intros H. destruct o; cbn [exec].
  - (* OClose *)
    destruct (negb (active s) || closed s); cbn; [now rewrite app_nil_r|].
    pose proof (close_internal_SInv s l H) as K. destruct (close_internal s); exact K.
  - (* OShutdown *)
    destruct (how =? 1).
    { pose proof (send_eof_SInv s l H) as K. destruct (send_eof s); exact K. }
    destruct (how =? 0); [cbn; rewrite app_nil_r; apply (SInv_flags s); auto|].
    destruct (how =? 2); cbn; rewrite app_nil_r; [apply (SInv_flags s); auto|exact H].
  - apply send_cs_SInv; auto.
  - apply send_cs_SInv; auto.
  - (* ORecv *)
    destruct (inbuf s =? 0); [destruct (pipe_closed s); cbn; now rewrite app_nil_r|].
    cbn. rewrite app_nil_r. apply (SInv_flags s); auto.
  - (* OStdinClose *)
    pose proof (send_eof_SInv s l H) as K. destruct (send_eof s); exact K.
  - (* OPeerEof *) destruct (in_map s); cbn; now rewrite app_nil_r.
  - destruct (in_map s); cbn; now rewrite app_nil_r.
  - destruct (in_map s); cbn; now rewrite app_nil_r.
  - destruct (in_map s); cbn; now rewrite app_nil_r.
  - (* OPeerData *)
    destruct (in_map s); cbn; rewrite app_nil_r; [apply (SInv_flags s); auto|exact H].
  - (* OUnlink *) destruct (closed s); cbn; now rewrite app_nil_r.
  - (* KShutW *)
    pose proof (send_eof_SInv s l H) as K. destruct (send_eof s); exact K.
  - (* KRecv *)
    unfold check_add_window.
    destruct (closed s || eof_recv s || negb (active s)); cbn; [now rewrite app_nil_r|].
    destruct (in_sofar s + out <=? in_thresh s); cbn.
    + rewrite app_nil_r. apply (SInv_flags s); auto.
    + destruct (0 <? in_sofar s + out); cbn.
      * unfold SInv; cbn. apply SI_wa. exact H.
      * rewrite app_nil_r. apply (SInv_flags s); auto.
  - (* KEof *)
    destruct (eof_recv s); cbn; rewrite app_nil_r; [exact H|apply (SInv_flags s); auto].
  - (* KCloseH *)
    pose proof (close_internal_SInv s l H) as K.
    pose proof (close_internal_fields s) as (F1 & F2 & F3 & F4 & F5 & F6).
    destruct (close_internal s) as [s' ms] eqn:E. cbn [fst snd] in *.
    change (SI (closed s') (eof_sent s') false (gotc s || (active s && in_map s)) true (l ++ ms)).
    unfold SInv in K, H.
    apply SI_ghost with (gc := gotc s') (gr := gotr s').
    + intros G. rewrite F2. apply orb_true_iff in G as [G|G]; [left; exact G|right].
      apply andb_true_iff in G as [Ga Gm].
      destruct (closed s) eqn:EC.
      * destruct (F6 eq_refl) as [Es Em]. subst s' ms. rewrite app_nil_r.
        destruct H as (_ & _ & _ & _ & H5 & _). destruct (H5 eq_refl Gm) as [A B].
        rewrite EC. auto.
      * destruct (F5 Ga eq_refl) as (A & B & C).
        destruct K as (_ & _ & _ & _ & K5 & _). rewrite F1 in K5.
        destruct (K5 A Gm). auto.
    + apply SI_unmap with (im := in_map s'). exact K.
  - (* KFail *)
    pose proof (close_internal_SInv s l H) as K. destruct (close_internal s); exact K.
  - (* KWa *) cbn. rewrite app_nil_r. apply (SInv_flags s); auto.
  - (* KUnlink *)
    cbn. rewrite app_nil_r. unfold SInv; cbn. eapply SI_unlink. exact H.
  - (* KBlocked *) apply wake_cs_SInv; auto.
Qed.

Lemma exec_ghost_mono o s :
  (gotc s = true -> gotc (o_st (exec o s)) = true) /\
  (gotr s = true -> gotr (o_st (exec o s)) = true) /\
  (in_map s = false -> in_map (o_st (exec o s)) = false) /\
  (closed s = true -> closed (o_st (exec o s)) = true) /\
  (eof_sent s = true -> eof_sent (o_st (exec o s)) = true).
Proof.
  destruct s as [a cl es er im pc ow mp ib so th gc gr]; cbn.
  destruct o; cbn; unfold send_cs, wake_cs, reserve, close_internal, send_eof, check_add_window; cbn;
    destruct a, cl, es; cbn; split_ifs; repeat split; intros; subst; cbn; rewrite ?orb_true_r;
    try congruence; auto.
Qed.

(* once closed and EOF'd, no operation produces a message; sends raise socket.error *)
Lemma exec_dead o s :
  closed s = true -> eof_sent s = true ->
  o_msgs (exec o s) = [] /\ closed (o_st (exec o s)) = true /\ eof_sent (o_st (exec o s)) = true /\
  (is_send_op o = true -> o_res (exec o s) = r_exn SocketErr).
Proof.
  destruct s as [a cl es er im pc ow mp ib so th gc gr]; cbn. intros -> ->.
  destruct o; cbn; unfold send_cs, wake_cs, reserve, close_internal, send_eof, check_add_window; cbn;
    destruct a; cbn; split_ifs; repeat split; intros; try congruence; auto.
Qed.

(* the peer-CLOSE critical section sets the ghosts as documented *)
Lemma exec_closeh s :
  gotr (o_st (exec KCloseH s)) = true /\
  (active s = true -> in_map s = true -> gotc (o_st (exec KCloseH s)) = true).
Proof.
  destruct s as [a cl es er im pc ow mp ib so th gc gr]; cbn.
  unfold close_internal, send_eof; cbn. destruct a, cl, es; cbn; split; intros; subst; cbn;
    rewrite ?orb_true_r; auto; congruence.
Qed.

(* ---- configurations ---------------------------------------------------------- *)
Definition Inv (c : cfg) : Prop :=
  (forall p, (cnt p (wire c) + cnt p (pending c) = cnt p (ltr c))%nat) /\ SInv (sh c) (ltr c).

Lemma cstep_cases c t c' :
  cstep c t = Some c' ->
  (exists th m r, nth_error (thr c) t = Some th /\ pend th = m :: r /\
     c' = mkC (sh c) (upd t (mkT r (ops th) (res th)) (thr c)) (wire c ++ [m]) (ltr c)) \/
  (exists th o r, nth_error (thr c) t = Some th /\ pend th = [] /\ ops th = o :: r /\
     c' = mkC (o_st (exec o (sh c)))
              (upd t (mkT (o_msgs (exec o (sh c))) (o_k (exec o (sh c)) ++ r)
                          (res th ++ o_res (exec o (sh c)))) (thr c))
              (wire c) (ltr c ++ o_msgs (exec o (sh c)))).
Proof.
  unfold cstep. destruct (nth_error (thr c) t) as [th|] eqn:E; [|discriminate].
  destruct (pend th) as [|m r] eqn:EP.
  - destruct (ops th) as [|o r] eqn:EO; [discriminate|].
    destruct (negb (op_enabled o (sh c))); [discriminate|]. intros H. injection H as <-.
    right. exists th, o, r. auto.
  - intros H. injection H as <-. left. exists th, m, r. auto.
Qed.

Lemma cstep_Inv c t c' : Inv c -> cstep c t = Some c' -> Inv c'.
Proof.
  intros [HP HS] H. apply cstep_cases in H as [(th & m & r & E & EP & ->) | (th & o & r & E & EP & EO & ->)].
  - split; cbn; [|exact HS]. intros p. unfold pending; cbn.
    pose proof (cnt_pending_upd p (thr c) t th (mkT r (ops th) (res th)) E) as U. cbn in U.
    specialize (HP p). unfold pending in HP. rewrite EP in U. cbn in U.
    rewrite cnt_app. cbn. lia.
  - split; cbn; [|apply exec_SInv; exact HS]. intros p. unfold pending; cbn.
    pose proof (cnt_pending_upd p (thr c) t th
                  (mkT (o_msgs (exec o (sh c))) (o_k (exec o (sh c)) ++ r)
                       (res th ++ o_res (exec o (sh c)))) E) as U. cbn in U.
    specialize (HP p). unfold pending in HP. rewrite EP in U. cbn in U.
    rewrite cnt_app. lia.
Qed.

Lemma crun_Inv s c c' : Inv c -> crun c s = Some c' -> Inv c'.
Proof.
  unfold crun. revert c c'. apply (run_invariant cstep Inv).
  intros c t c'. apply cstep_Inv.
Qed.

Lemma init_Inv s progs : init_st s -> Inv (init_cfg s progs).
Proof.
  intros (Hc & He & Hgc & Hgr). split.
  - intros p. unfold pending; cbn. now rewrite pending_init.
  - unfold SInv, SI; cbn. rewrite Hc, He, Hgc, Hgr. repeat split; intros; try discriminate; auto.
Qed.

(* monotone facts along steps and runs *)
Definition Mono (P : st -> Prop) : Prop := forall o s, P s -> P (o_st (exec o s)).

Lemma cstep_mono P c t c' : Mono P -> P (sh c) -> cstep c t = Some c' -> P (sh c').
Proof.
  intros HM HP H. apply cstep_cases in H as [(th & m & r & _ & _ & ->) | (th & o & r & _ & _ & _ & ->)]; cbn; auto.
Qed.

Lemma crun_mono P s c c' : Mono P -> P (sh c) -> crun c s = Some c' -> P (sh c').
Proof.
  intros HM. unfold crun. revert c c'. apply (run_invariant cstep (fun c => P (sh c))).
  intros c t c' HP H. eapply cstep_mono; eauto.
Qed.

Lemma mono_gotc : Mono (fun s => gotc s = true).
Proof. intros o s. apply (exec_ghost_mono o s). Qed.
Lemma mono_gotr : Mono (fun s => gotr s = true).
Proof. intros o s. apply (exec_ghost_mono o s). Qed.
Lemma mono_unmapped : Mono (fun s => in_map s = false).
Proof. intros o s. apply (exec_ghost_mono o s). Qed.
Lemma mono_dead : Mono (fun s => closed s = true /\ eof_sent s = true).
Proof. intros o s [H1 H2]. destruct (exec_dead o s H1 H2) as (_ & A & B & _). auto. Qed.

(* in a dead state nothing is added to the lock-order trace *)
Lemma cstep_dead_ltr c t c' :
  closed (sh c) = true -> eof_sent (sh c) = true -> cstep c t = Some c' -> ltr c' = ltr c.
Proof.
  intros H1 H2 H. apply cstep_cases in H as [(th & m & r & _ & _ & ->) | (th & o & r & _ & _ & _ & ->)]; cbn; auto.
  destruct (exec_dead o (sh c) H1 H2) as (-> & _). apply app_nil_r.
Qed.

Lemma crun_dead_ltr s c c' :
  closed (sh c) = true -> eof_sent (sh c) = true -> crun c s = Some c' -> ltr c' = ltr c.
Proof.
  unfold crun. revert c c'. induction s as [|t s IH]; intros c c' H1 H2 H; cbn in H.
  - injection H as <-. reflexivity.
  - destruct (cstep c t) as [c1|] eqn:E; [|discriminate].
    assert (D : closed (sh c1) = true /\ eof_sent (sh c1) = true)
      by (eapply (cstep_mono (fun s => closed s = true /\ eof_sent s = true)); eauto using mono_dead).
    destruct D as [D1 D2]. rewrite (IH c1 c' D1 D2 H). eapply cstep_dead_ltr; eauto.
Qed.

(* ---- the property theorems ------------------------------------------------------ *)
Lemma reach_Inv s progs sch c :
  init_st s -> crun (init_cfg s progs) sch = Some c -> Inv c.
Proof. intros Hi H. eapply crun_Inv; [apply init_Inv; exact Hi|exact H]. Qed.

Lemma wire_le_ltr c p : Inv c -> (cnt p (wire c) <= cnt p (ltr c))%nat.
Proof. intros [HP _]. specialize (HP p). lia. Qed.

Lemma eof_once s progs sch c :
  init_st s -> crun (init_cfg s progs) sch = Some c ->
  (cnt isEof (wire c) + cnt isEof (pending c) <= 1)%nat.
Proof.
  intros Hi H. pose proof (reach_Inv _ _ _ _ Hi H) as [HP HS].
  specialize (HP isEof). destruct HS as (H1 & _). lia.
Qed.

Lemma close_once s progs sch c :
  init_st s -> crun (init_cfg s progs) sch = Some c ->
  (cnt isClose (wire c) + cnt isClose (pending c) <= 1)%nat.
Proof.
  intros Hi H. pose proof (reach_Inv _ _ _ _ Hi H) as [HP HS].
  specialize (HP isClose). destruct HS as (_ & _ & H3 & _). lia.
Qed.

Lemma at_op_step c tid o c' :
  at_op c tid o -> cstep c tid = Some c' ->
  sh c' = o_st (exec o (sh c)) /\ ltr c' = ltr c ++ o_msgs (exec o (sh c)).
Proof.
  intros (t & r & E & EP & EO). unfold cstep. rewrite E, EP, EO.
  destruct (negb (op_enabled o (sh c))); [discriminate|]. intros H. injection H as <-. cbn. auto.
Qed.

Lemma close_answered s progs s1 c tid c' s2 c'' :
  init_st s -> crun (init_cfg s progs) s1 = Some c ->
  at_op c tid KCloseH -> active (sh c) = true -> in_map (sh c) = true ->
  cstep c tid = Some c' -> crun c' s2 = Some c'' ->
  (cnt isClose (wire c'') + cnt isClose (pending c'') = 1)%nat /\
  (quiescent c'' -> cnt isClose (wire c'') = 1%nat).
Proof.
  intros Hi H1 Hat Ha Hm Hs H2.
  pose proof (reach_Inv _ _ _ _ Hi H1) as I0.
  pose proof (cstep_Inv _ _ _ I0 Hs) as I1.
  pose proof (crun_Inv _ _ _ I1 H2) as [HP HS].
  destruct (at_op_step _ _ _ _ Hat Hs) as [Esh _].
  assert (G1 : gotc (sh c') = true) by (rewrite Esh; apply exec_closeh; assumption).
  assert (G2 : gotc (sh c'') = true) by (eapply (crun_mono (fun s => gotc s = true)); eauto using mono_gotc).
  destruct HS as (_ & _ & _ & _ & _ & H6 & _). destruct (H6 G2) as (K & _).
  specialize (HP isClose). split; [lia|]. intros Q. unfold quiescent in Q. rewrite Q in HP. cbn in HP. lia.
Qed.

Lemma released s progs s1 c tid c' s2 c'' :
  init_st s -> crun (init_cfg s progs) s1 = Some c ->
  at_op c tid KCloseH -> cstep c tid = Some c' -> crun c' s2 = Some c'' ->
  in_map (sh c'') = false /\
  (active (sh c) = true -> in_map (sh c) = true ->
     closed (sh c'') = true /\ eof_sent (sh c'') = true /\ ltr c'' = ltr c' /\
     forall p, (cnt p (wire c'') + cnt p (pending c'') = cnt p (wire c') + cnt p (pending c'))%nat).
Proof.
  intros Hi H1 Hat Hs H2.
  pose proof (reach_Inv _ _ _ _ Hi H1) as I0.
  pose proof (cstep_Inv _ _ _ I0 Hs) as I1.
  pose proof (crun_Inv _ _ _ I1 H2) as I2.
  destruct (at_op_step _ _ _ _ Hat Hs) as [Esh _].
  assert (R1 : gotr (sh c') = true) by (rewrite Esh; apply exec_closeh).
  assert (R2 : gotr (sh c'') = true) by (eapply (crun_mono (fun s => gotr s = true)); eauto using mono_gotr).
  split.
  - destruct I2 as [_ HS]. destruct HS as (_ & _ & _ & _ & _ & _ & H7 & _). auto.
  - intros Ha Hm.
    assert (G1 : gotc (sh c') = true) by (rewrite Esh; apply exec_closeh; assumption).
    destruct I1 as [HP1 HS1]. destruct HS1 as (_ & _ & _ & _ & _ & H6 & _).
    destruct (H6 G1) as (_ & D1 & D2 & _).
    assert (D : closed (sh c'') = true /\ eof_sent (sh c'') = true)
      by (eapply (crun_mono (fun s => closed s = true /\ eof_sent s = true)); eauto using mono_dead).
    destruct D as [D1' D2']. repeat split; auto.
    + eapply crun_dead_ltr; eauto.
    + intros p. destruct I2 as [HP2 _]. specialize (HP1 p). specialize (HP2 p).
      rewrite (crun_dead_ltr _ _ _ D1 D2 H2) in HP2. lia.
Qed.

Lemma lock_order s progs sch c :
  init_st s -> crun (init_cfg s progs) sch = Some c ->
  no_data_after (ltr c) = true /\ no_eof_after_close (ltr c) = true /\
  (forall p, (cnt p (wire c) + cnt p (pending c) = cnt p (ltr c))%nat).
Proof.
  intros Hi H. pose proof (reach_Inv _ _ _ _ Hi H) as [HP HS].
  destruct HS as (_ & _ & _ & _ & _ & _ & _ & H8 & _ & H10 & _). repeat split; auto.
Qed.

(* a data message is only ever produced (under the lock) in a state with no EOF / CLOSE produced *)
Lemma data_reserved_before o s :
  existsb isData (o_msgs (exec o s)) = true -> closed s = false /\ eof_sent s = false.
Proof.
  destruct s as [a cl es er im pc ow mp ib so th gc gr]; cbn.
  destruct o; cbn; unfold send_cs, wake_cs, reserve, close_internal, send_eof, check_add_window; cbn;
    destruct a, cl, es; cbn; split_ifs; intros; try discriminate; auto.
Qed.

(* the witness: data after EOF and CLOSE on the wire *)
Lemma no_data_after_refuted :
  exists s progs sch c,
    init_st s /\ crun (init_cfg s progs) sch = Some c /\ quiescent c /\
    wire c = [MEof; MClose; MData 5] /\ no_data_after (wire c) = false.
Proof.
  exists witness_init, witness_progs, witness_sched.
  eexists. split; [repeat split|]. split; [vm_compute; reflexivity|].
  repeat split.
Qed.

(* same root cause: an EOF reserved by shutdown_write can be emitted after close()'s CLOSE *)
Lemma eof_after_close_reachable :
  exists s progs sch c,
    init_st s /\ crun (init_cfg s progs) sch = Some c /\ quiescent c /\ wire c = [MClose; MEof].
Proof.
  exists witness_init, [[OShutdown 1]; [OClose]], [0; 1; 1; 0]%nat.
  eexists. split; [repeat split|]. split; [vm_compute; reflexivity|]. repeat split.
Qed.

(* non-vacuity of close_answered / released: such a reachable configuration exists *)
Lemma closeh_reachable :
  exists s progs s1 c tid c',
    init_st s /\ crun (init_cfg s progs) s1 = Some c /\ at_op c tid KCloseH /\
    active (sh c) = true /\ in_map (sh c) = true /\ cstep c tid = Some c' /\
    wire c = [MEof; MClose; MData 5].
Proof.
  exists witness_init, [[OSend 5]; [OClose]; [OPeerClose; OSend 1]], [0; 1; 1; 1; 0; 2]%nat.
  eexists. exists 2%nat. eexists.
  split; [repeat split|]. split; [vm_compute; reflexivity|].
  split; [eexists; eexists; repeat split; reflexivity|].
  repeat split.
Qed.

(* the blocking path: a writer blocked on a zero window, shutdown_write by another thread, then a
   WINDOW_ADJUST from the peer: the woken writer returns 0 and sends nothing after the EOF *)
Lemma blocked_writer_refused :
  exists c,
    crun (init_cfg blocked_init [[OSend 5]; [OShutdown 1; OPeerWa 7]]) [0; 1; 1; 1; 1; 0]%nat = Some c /\
    wire c = [MEof] /\ quiescent c /\
    map res (thr c) = [r_ok 0; r_ok 0 ++ r_ok 0] /\
    (* and before the WINDOW_ADJUST the writer is not enabled *)
    crun (init_cfg blocked_init [[OSend 5]; [OShutdown 1; OPeerWa 7]]) [0; 1; 1; 0]%nat = None.
Proof. eexists. split; [vm_compute; reflexivity|]. repeat split. Qed.
