From PV Require Import Bytes C42 C42_proofs.
Open Scope Z_scope.
Theorem C42_placeholder : upto_lf [] = [].
Proof. exact placeholder. Qed.
Print Assumptions C42_placeholder.
