"""C39 — SSH wire encoding round-trips; integers canonical.

Proof: coq/Props/C39_props.v over coq/Model/C39.v.
Tie: differential run of the model's definitions (vm_compute inside Coq) against
paramiko.message.Message / paramiko.util.{deflate,inflate}_long on generated cases.
Search oracle: implementation round trip + independent RFC 4251 reference encoder.
"""
import struct

from common import coq, Raw

PID = "C39"
LEVEL_TEXT = ("Machine-checked proof (Coq, closed under the global context) that the Message codec model round-trips "
              "every well-formed typed field list (consuming exactly its encoding), that so_far ++ remainder is the "
              "whole buffer, that inflate_long inverts deflate_long for every integer, that deflate_long/add_mpint "
              "produce the minimal two's complement form with zero as the empty string, and that the encoding is "
              "injective; the model is tied to message.py/util.py by a differential run of the model's own "
              "definitions (vm_compute) against the real code on generated cases every run.")
LEVEL_NOTE = ("Trusted: Coq kernel + vm_compute; hand-written model coq/Model/C39.v (limb loops, strip, padding, "
              "BytesIO read/zero-pad rule) tied to the source by gen/c39.py (every modelled body must match its statement "
              "template; literals proved equal to the model's in C39_source_constants) and by the correspondence run; UTF-8 decoding of text fields "
              "is outside the model (cases use valid UTF-8); struct.pack range errors modelled as StructErr.")
GENS = ["c39"]
TECHNIQUE = ("Coq proof (induction over limbs/field lists) + fail-closed AST translator gen/c39.py (statement templates of "
             "every Message method, deflate_long, inflate_long; literals re-proved equal to the model's) + vm_compute "
             "differential correspondence")

KINDS = ["KByte", "KBool", "KU32", "KU64", "KAdaptive", "KString", "KList", "KMpint"]


def enc_z(n):
    m = abs(n)
    k = (m.bit_length() - 1) // 8 + 1 if m > 0 else 1
    return [1 if n < 0 else 0, k] + list(m.to_bytes(k, "big"))


def boundary_int(rng, maxbits=4096):
    """Integers across all sign / byte / limb boundaries."""
    mode = rng.randrange(6)
    if mode == 0:
        return rng.choice([0, 1, -1, 127, 128, -128, -129, 255, 256, -255, -256, -257,
                           2 ** 31 - 1, 2 ** 31, -2 ** 31, -2 ** 31 - 1, 2 ** 32 - 1, 2 ** 32,
                           -2 ** 32, -2 ** 32 - 1, 2 ** 63, -2 ** 63, 2 ** 64, -2 ** 64 - 1,
                           0xFF000000, 0xFF000000 - 1])
    bits = rng.choice([rng.randrange(1, 80), rng.randrange(1, maxbits), 8 * rng.randrange(1, 40),
                       32 * rng.randrange(1, 20)])
    if mode == 1:
        v = 2 ** bits + rng.choice([-1, 0, 1])
    elif mode == 2:
        v = 2 ** bits - 2 ** max(0, bits - 8) + rng.choice([-1, 0, 1])
    else:
        v = rng.getrandbits(bits)
    return v if rng.random() < 0.5 else -v


def rand_bytes(rng, maxlen, ascii_only=False):
    n = rng.choice([0, 1, 2, 3, 4, 5, 7, 8, 9, rng.randrange(0, maxlen + 1)])
    hi = 128 if ascii_only else 256
    special = [0, 0xFF, 0x80, 0x7F, 44]
    return bytes(rng.choice(special) % hi if rng.random() < 0.3 else rng.randrange(hi) for _ in range(n))


def gen_field(rng, malformed=False):
    k = rng.choice(KINDS)
    if k == "KByte":
        return ("FByte", rng.randrange(256))
    if k == "KBool":
        return ("FBool", rng.random() < 0.5)
    if k == "KU32":
        if malformed:
            return ("FU32", rng.choice([-1, 2 ** 32, 2 ** 40, -5]))
        return ("FU32", rng.choice([0, 1, 2 ** 32 - 1, rng.getrandbits(32), rng.getrandbits(8)]))
    if k == "KU64":
        if malformed:
            return ("FU64", rng.choice([-1, 2 ** 64, -2 ** 70]))
        return ("FU64", rng.choice([0, 2 ** 64 - 1, rng.getrandbits(64), rng.getrandbits(33)]))
    if k == "KAdaptive":
        if malformed:
            return ("FAdaptive", -rng.randrange(1, 1000))
        return ("FAdaptive", rng.choice([0, 0xFF000000 - 1, 0xFF000000, 0xFF000001, 2 ** 32 - 1, 2 ** 32,
                                         rng.getrandbits(31), rng.getrandbits(200), abs(boundary_int(rng, 600))]))
    if k == "KString":
        if rng.random() < 0.2:
            return ("FString", "".join(rng.choice("ab \u00e9\u00df\u4e2d\U0001f511") for _ in
                                       range(rng.randrange(0, 12))).encode("utf-8"))
        return ("FString", rand_bytes(rng, 40))
    if k == "KList":
        n = rng.randrange(1, 5)
        items = []
        for _ in range(n):
            if rng.random() < 0.25:
                # non-ASCII names: the length prefix counts UTF-8 bytes, not characters
                items.append("".join(rng.choice("abz-@.09\u00e9\u00fc\u4e2d\U0001f511") for _ in
                                     range(rng.randrange(1, 6))).encode("utf-8"))
            else:
                items.append(bytes(rng.choice(b"abcxyz-@.0129") for _ in range(rng.randrange(0, 8))))
        return ("FList", items)
    return ("FMpint", boundary_int(rng, 600))


def impl_encode(fs):
    from paramiko.message import Message
    m = Message()
    try:
        for f in fs:
            t, v = f
            if t == "FByte":
                m.add_byte(bytes([v]))
            elif t == "FBool":
                m.add_boolean(v)
            elif t == "FU32":
                m.add_int(v)
            elif t == "FU64":
                m.add_int64(v)
            elif t == "FAdaptive":
                m.add_adaptive_int(v)
            elif t == "FString":
                try:
                    sv = bytes(v).decode("utf-8")
                except UnicodeDecodeError:
                    sv = None
                # a str argument goes through util.asbytes (UTF-8): same bytes expected
                m.add_string(sv if (sv is not None and len(v) % 2 == 1) else v)
            elif t == "FList":
                m.add_list([x.decode() for x in v])
            elif t == "FMpint":
                m.add_mpint(v)
    except struct.error:
        return None, [12]
    return m.asbytes(), [0] + list(m.asbytes())


def coq_field(f):
    t, v = f
    if t == "FList":
        return "(FList %s)" % coq([list(x) for x in v])
    if t == "FString":
        return "(FString %s)" % coq(list(v))
    return "(%s %s)" % (t, coq(v))


def impl_decode(kinds, buf):
    """Returns (canonical list, fields)."""
    from paramiko.message import Message
    m = Message(buf)
    out = []
    fields = []
    for k in kinds:
        if k == "KByte":
            b = m.get_byte()
            out += [1, b[0]]
            fields.append(("FByte", b[0]))
        elif k == "KBool":
            v = m.get_boolean()
            out += [2, 1 if v else 0]
            fields.append(("FBool", v))
        elif k == "KU32":
            v = m.get_int()
            out += [3] + enc_z(v)
            fields.append(("FU32", v))
        elif k == "KU64":
            v = m.get_int64()
            out += [4] + enc_z(v)
            fields.append(("FU64", v))
        elif k == "KAdaptive":
            v = m.get_adaptive_int()
            out += [5] + enc_z(v)
            fields.append(("FAdaptive", v))
        elif k == "KString":
            v = m.get_binary()
            out += [6, len(v)] + list(v)
            fields.append(("FString", v))
        elif k == "KText":
            v = m.get_text().encode("utf-8")
            out += [6, len(v)] + list(v)
            fields.append(("FString", v))
        elif k == "KList":
            v = [x.encode("utf-8") for x in m.get_list()]
            out += [7, len(v)]
            for x in v:
                out += [len(x)] + list(x)
            fields.append(("FList", v))
        elif k == "KMpint":
            v = m.get_mpint()
            out += [8] + enc_z(v)
            fields.append(("FMpint", v))
    sofar = m.get_so_far()
    rem = m.get_remainder()
    pos = len(sofar)
    out += [-1, pos] + list(sofar) + [-2] + list(rem)
    return out, fields, sofar, rem


def rfc4251_mpint(n):
    """Independent reference: minimal two's complement, zero = empty."""
    if n == 0:
        body = b""
    else:
        k = 1
        while True:
            try:
                body = n.to_bytes(k, "big", signed=True)
                break
            except OverflowError:
                k += 1
    return struct.pack(">I", len(body)) + body


def fields_equal(a, b):
    if len(a) != len(b):
        return False
    for (t1, v1), (t2, v2) in zip(a, b):
        if t1 != t2:
            return False
        if t1 == "FList":
            if [bytes(x) for x in v1] != [bytes(x) for x in v2]:
                return False
        elif t1 == "FString":
            if bytes(v1) != bytes(v2):
                return False
        elif v1 != v2:
            return False
    return True


def run(ctx):
    from paramiko import util
    rng = ctx.rng
    scale = 10 if ctx.thorough else 1
    ctx.rule = ("seeded generator (random.Random('C39-<seed>')): integers across sign/byte/limb boundaries up "
                "to 4096 bits, typed field lists (mostly valid + a malformed stream), decode of kinds over "
                "encoded/truncated/random buffers; a case is non-trivial when distinct (hash of the case) and "
                "not the empty input")
    ctx.trusted += ["model coq/Model/C39.v is hand-written; tied to paramiko/message.py and util.py by this "
                    "differential run (vm_compute of the model's own definitions, no extraction)",
                    "UTF-8 decoding in get_text/get_list is outside the model (cases use valid UTF-8)"]
    ctx.prove(GENS)

    # constants the model hard-codes, cross-checked against the working tree on every run
    import ast as _ast, inspect as _inspect
    from paramiko.message import Message as _M
    if _M.big_int != 0xFF000000:
        ctx.disagree("Message.big_int differs from the model's big_int (0xff000000)", impl=_M.big_int)
    _src = _inspect.getsource(_M.get_bytes)
    if "max_pad_size = 1 << 20" not in _src or "if len(b) < n < max_pad_size:" not in _src:
        ctx.disagree("Message.get_bytes zero-padding rule changed shape (model: pad when len(b) < n < 2^20)",
                     impl=_src[-300:])

    # ---- 1. deflate_long ----------------------------------------------------
    cases = []
    for _ in range(400 * scale):
        n = boundary_int(rng)
        pad = rng.random() < 0.7
        impl = util.deflate_long(n, pad)
        cases.append((n, pad, impl))
        ctx.count(("deflate", n, pad), nontrivial=True, kind="deflate")
        # oracle: RFC minimal form (with padding) for n != 0
        if pad and n != 0 and struct.pack(">I", len(impl)) + impl != rfc4251_mpint(n):
            ctx.fail("deflate-nonminimal", "deflate_long(n) is not the minimal two's complement form",
                     case={"n": n}, expected=rfc4251_mpint(n)[4:], observed=impl)
        if util.inflate_long(impl) != n and pad:
            ctx.fail("inflate-deflate", "inflate_long(deflate_long(n)) != n", case={"n": n},
                     expected=n, observed=util.inflate_long(impl))
    bad = ctx.model_mismatches("run_deflate", "(Z * bool)",
                               [(coq((n, pad)), list(impl)) for n, pad, impl in cases])
    for i in bad[:3]:
        ctx.disagree("deflate_long differs from model", case={"n": cases[i][0], "pad": cases[i][1]},
                     impl=cases[i][2])
    ctx.sample({"deflate_long": {"n": cases[0][0], "pad": cases[0][1], "impl": cases[0][2]}})

    # ---- 2. inflate_long ----------------------------------------------------
    cases = []
    for _ in range(300 * scale):
        s = rand_bytes(rng, 64)
        ap = rng.random() < 0.3
        v = util.inflate_long(s, ap)
        cases.append((s, ap, v))
        ctx.count(("inflate", s, ap), nontrivial=len(s) > 0, kind="inflate")
    bad = ctx.model_mismatches("run_inflate", "(list Z * bool)",
                               [(coq((list(s), ap)), enc_z(v)) for s, ap, v in cases])
    for i in bad[:3]:
        ctx.disagree("inflate_long differs from model", case={"s": cases[i][0], "always_positive": cases[i][1]},
                     impl=cases[i][2])

    # ---- 3. encode (+ implementation round trip oracle) ----------------------
    cases = []
    from paramiko.message import Message
    for j in range(300 * scale):
        malformed = rng.random() < 0.12
        fs = [gen_field(rng, malformed and rng.random() < 0.5) for _ in range(rng.randrange(0, 7))]
        raw, canon = impl_encode(fs)
        cases.append((fs, canon))
        ctx.count(("enc", repr(fs)), nontrivial=len(fs) > 0, kind="encode-malformed" if raw is None else "encode")
        if raw is not None:
            kinds = [{"FByte": "KByte", "FBool": "KBool", "FU32": "KU32", "FU64": "KU64", "FAdaptive": "KAdaptive",
                      "FString": "KString", "FList": "KList", "FMpint": "KMpint"}[t] for t, _ in fs]
            suffix = rand_bytes(rng, 6)
            wf = all(not (t == "FAdaptive" and v < 0) for t, v in fs)
            try:
                _, back, sofar, rem = impl_decode(kinds, raw + suffix)
            except Exception as e:  # noqa: the written fields must always be readable
                if wf:
                    ctx.fail("roundtrip-raises", "reading back the written fields raised %s" % type(e).__name__,
                             case={"fields": fs}, expected=fs, observed=repr(e))
                continue
            if wf and not fields_equal(fs, back):
                ctx.fail("roundtrip", "fields written are not read back unchanged", case={"fields": fs},
                         expected=fs, observed=back)
            if wf and (sofar != raw or rem != suffix):
                ctx.fail("consumes-exactly", "decoding does not consume exactly the encoding",
                         case={"fields": fs}, expected=len(raw), observed=len(sofar))
            for t, v in fs:
                if t == "FMpint":
                    got = Message().add_mpint(v).asbytes()
                    if got != rfc4251_mpint(v):
                        ctx.fail("mpint-zero-empty" if v == 0 else "mpint-canonical",
                                 "mpint is not RFC 4251 canonical (zero must be the empty string)" if v == 0
                                 else "mpint is not the minimal two's complement form",
                                 case={"z": v}, expected=rfc4251_mpint(v), observed=got)
    # large fields (implementation only: the literals would be too big for cases.v): sizes around the 1 MiB
    # zero-padding bound of get_bytes and well beyond it, for every length-prefixed kind, followed by a sentinel
    for size in [(1 << 20) - 1, 1 << 20, (1 << 20) + 1, (1 << 20) + 4097, 3 << 20]:
        blob = bytes((size * 31 + 7 * i) & 0xFF for i in range(253)) * (size // 253 + 1)
        blob = blob[:size]
        big = int.from_bytes(b"\x01" + blob, "big")
        for kind, val, put, get in [
                ("string", blob, lambda m, v: m.add_string(v), lambda m: m.get_string()),
                ("binary", blob, lambda m, v: m.add_string(v), lambda m: m.get_binary()),
                ("text", blob.hex()[:size], lambda m, v: m.add_string(v), lambda m: m.get_text()),
                # deflate_long / inflate_long are quadratic: ~1 min per MiB, so integers of that size only in the
                # thorough tier and only at the boundary (get_mpint reads through the same get_binary)
                ("mpint", big, lambda m, v: m.add_mpint(v), lambda m: m.get_mpint()),
                ("bytes", blob, lambda m, v: m.add_bytes(v), lambda m: m.get_bytes(size))]:
            if kind == "mpint" and not (ctx.thorough and size == (1 << 20) + 1):
                continue
            case = {"kind": kind, "size": size}
            ctx.count(("large", kind, size), nontrivial=True, kind="large-field")
            try:
                m = Message()
                put(m, val)
                m.add_int(0xC0FFEE)
                r = Message(m.asbytes())
                back, sentinel, rest = get(r), r.get_int(), r.get_remainder()
            except Exception as e:  # noqa
                ctx.fail("roundtrip-raises", "reading back a %d-byte %s field raised %s" % (size, kind, type(e).__name__),
                         case=case, expected="round trip", observed=repr(e))
                continue
            if back != val or sentinel != 0xC0FFEE or rest != b"":
                ctx.fail("roundtrip", "a %d-byte %s field is not read back unchanged (or the field after it is misread)"
                         % (size, kind), case=case, expected="same value, sentinel 0xC0FFEE, nothing left",
                         observed={"same": back == val, "len": len(back) if hasattr(back, "__len__") else None,
                                   "sentinel": sentinel, "left": len(rest)})
    # ---- text fields and name-lists through get_text / get_list: every code point class survives, in every
    # position (a decoder default such as 'utf-8-sig' or errors='ignore' eats some of them) --------------------
    SPECIAL = ["\ufeff", "\x00", "\u00e9", "\u4e2d", "\U0001f511", "\u200b", "\u0301", "\ufffd", "\ufffe", " ", "\t",
               "\r", "\n", "\x7f", "\x80", "\u2028"]
    texts = []
    for ch in SPECIAL:
        texts += [ch, ch + "abc", "abc" + ch, "a" + ch + "b", ch + ch]
    for _ in range(40 * scale):
        texts.append("".join(rng.choice(SPECIAL + list("abz-@.09")) for _ in range(rng.randrange(0, 9))))
    for t in texts:
        ctx.count(("text", t), nontrivial=len(t) > 0, kind="text-field")
        try:
            m = Message()
            m.add_string(t)
            m.add_string(t.encode("utf-8"))
            m.add_int(0xC0FFEE)
            r = Message(m.asbytes())
            back = [r.get_text(), r.get_text(), r.get_int(), r.get_remainder()]
        except Exception as e:  # noqa
            ctx.fail("roundtrip-raises", "reading back a text field raised %s" % type(e).__name__,
                     case={"text": t}, expected=t, observed=repr(e))
            continue
        if back != [t, t, 0xC0FFEE, b""]:
            ctx.fail("roundtrip", "a text field written with add_string is not read back unchanged by get_text",
                     case={"text": t}, expected=[t, t, 0xC0FFEE, b""], observed=back)
        if "," in t:
            continue
        for names in ([t], [t, "x"], ["x", t], [t, t]) if t else ([t, "x"], ["x", t]):
            ctx.count(("names", tuple(names)), nontrivial=True, kind="name-list-text")
            try:
                r = Message(Message().add_list(names).add_int(7).asbytes())
                back = [r.get_list(), r.get_int(), r.get_remainder()]
            except Exception as e:  # noqa
                ctx.fail("roundtrip-raises", "reading back a name-list raised %s" % type(e).__name__,
                         case={"names": names}, expected=names, observed=repr(e))
                continue
            if back != [names, 7, b""]:
                ctx.fail("roundtrip", "a name-list is not read back unchanged", case={"names": names},
                         expected=[names, 7, b""], observed=back)

    # ---- the same Message object used over time: serialised, written again (every add_* incl. the raw
    # add_byte / add_bytes), serialised again; read, rewound, read again.  The reference is an independent
    # RFC 4251 encoder. ------------------------------------------------------------------------------------
    def ref_encode(t, v):
        if t == "FByte":
            return bytes([v])
        if t == "FRaw":
            return bytes(v)
        if t == "FBool":
            return b"\x01" if v else b"\x00"
        if t == "FU32":
            return struct.pack(">I", v)
        if t == "FU64":
            return struct.pack(">Q", v)
        if t == "FString":
            return struct.pack(">I", len(v)) + bytes(v)
        if t == "FList":
            j = b",".join(bytes(x) for x in v)
            return struct.pack(">I", len(j)) + j
        if t == "FMpint":
            return rfc4251_mpint(v)
        if t == "FAdaptive":
            return struct.pack(">I", v) if v < 0xFF000000 else b"\xff" + rfc4251_mpint(v)
        raise ValueError(t)

    def put(m, t, v):
        {"FByte": lambda: m.add_byte(bytes([v])), "FRaw": lambda: m.add_bytes(bytes(v)),
         "FBool": lambda: m.add_boolean(v), "FU32": lambda: m.add_int(v), "FU64": lambda: m.add_int64(v),
         "FString": lambda: m.add_string(bytes(v)), "FList": lambda: m.add_list([x.decode() for x in v]),
         "FMpint": lambda: m.add_mpint(v), "FAdaptive": lambda: m.add_adaptive_int(v)}[t]()

    for _ in range(120 * scale):
        fs = []
        while len(fs) < rng.randrange(2, 9):
            f = gen_field(rng) if rng.random() < 0.6 else rng.choice(
                [("FByte", rng.randrange(256)), ("FRaw", rand_bytes(rng, 6))])
            if not (f[0] == "FAdaptive" and f[1] < 0):
                fs.append(f)
        peeks = [rng.choice(["asbytes", "bytes", "repr", "len", None, None]) for _ in fs]
        case = {"fields": fs, "serialised_after": peeks}
        ctx.count(("history", repr(fs), tuple(peeks)), nontrivial=True, kind="message-history")
        try:
            m = Message()
            want = b""
            bad = None
            for f, pk in zip(fs, peeks):
                put(m, *f)
                want += ref_encode(*f)
                got = {"asbytes": lambda: m.asbytes(), "bytes": lambda: bytes(m), "repr": lambda: (repr(m), m.asbytes())[1],
                       "len": lambda: (len(m.asbytes()), m.asbytes())[1], None: lambda: None}[pk]()
                if got is not None and got != want and bad is None:
                    bad = ("after %d field(s)" % (fs.index(f) + 1), got)
            final = m.asbytes()
            if bad is None and final != want:
                bad = ("at the end", final)
            if bad is not None:
                ctx.fail("history-roundtrip", "a Message serialised between writes does not contain every field written "
                         "(%s)" % bad[0], case=case, expected=want, observed=bad[1])
                continue
            r = Message(final)
            cut = rng.randrange(0, len(final) + 1)
            r.get_bytes(cut)
            if r.get_so_far() + r.get_remainder() != final or r.get_so_far() != final[:cut]:
                ctx.fail("consumes-exactly", "get_so_far() + get_remainder() is not the whole message", case=case,
                         expected=final, observed=r.get_so_far() + r.get_remainder())
            r.rewind()
            if r.get_remainder() != final or r.get_so_far() != b"":
                ctx.fail("consumes-exactly", "after rewind() the remainder is not the whole message", case=case,
                         expected=final, observed=r.get_remainder())
        except Exception as e:  # noqa
            ctx.fail("roundtrip-raises", "a write / serialise history raised %s" % type(e).__name__, case=case,
                     expected="no exception", observed=repr(e))

    # zero is always exercised
    got = Message().add_mpint(0).asbytes()
    ctx.count(("mpint0",), kind="encode")
    if got != b"\x00\x00\x00\x00":
        ctx.fail("mpint-zero-empty", "mpint is not RFC 4251 canonical (zero must be the empty string)",
                 case={"z": 0}, expected=b"\x00\x00\x00\x00", observed=got)
    bad = ctx.model_mismatches("run_encode", "(list field)",
                               [("[" + ";".join(coq_field(f) for f in fs) + "]", canon) for fs, canon in cases])
    for i in bad[:3]:
        ctx.disagree("Message encoding differs from model", case={"fields": cases[i][0]}, impl=cases[i][1])
    ctx.sample({"encode": {"fields": cases[1][0], "impl": cases[1][1]}})

    # ---- 4. decode over encoded / truncated / random buffers ------------------
    cases = []
    for j in range(300 * scale):
        mode = rng.randrange(3)
        ascii_only = True
        if mode == 0:
            fs = [gen_field(rng) for _ in range(rng.randrange(1, 6))]
            raw, _ = impl_encode(fs)
            buf = raw if raw is not None else b""
            kinds = [{"FByte": "KByte", "FBool": "KBool", "FU32": "KU32", "FU64": "KU64", "FAdaptive": "KAdaptive",
                      "FString": "KString", "FList": "KList", "FMpint": "KMpint"}[t] for t, _ in fs]
            if rng.random() < 0.5 and buf:
                buf = buf[:rng.randrange(len(buf))]          # truncated: zero padding rule
            if any(b >= 128 for b in buf):
                kinds = [k if k != "KList" else "KString" for k in kinds]
            if rng.random() < 0.3:
                rng.shuffle(kinds)
        else:
            kinds = [rng.choice(KINDS) for _ in range(rng.randrange(0, 6))]
            buf = rand_bytes(rng, 48, ascii_only=("KList" in kinds))
            if mode == 2 and len(buf) >= 4:
                # plausible small length prefix so string reads succeed
                buf = bytes([0, 0, 0, rng.randrange(0, 12)]) + buf[4:]
        # keep huge length prefixes out of KList (decode of non-UTF-8 is outside the model) – buffers are ASCII there
        try:
            canon, _, sofar, rem = impl_decode(kinds, buf)
        except UnicodeDecodeError:
            continue
        if len(canon) > 4000:
            continue    # zero padding of up to 1 MiB: keep case files small
        if sofar + rem != buf:
            ctx.fail("so-far-remainder", "get_so_far() + get_remainder() != whole message",
                     case={"kinds": kinds, "buf": buf}, expected=buf, observed=sofar + rem)
        cases.append((kinds, buf, canon))
        ctx.count(("dec", tuple(kinds), buf), nontrivial=len(kinds) > 0, kind="decode-mode%d" % mode)
    bad = ctx.model_mismatches("run_decode", "(list kind * list Z)",
                               [("([%s], %s)" % (";".join(k for k in kinds), coq(list(buf))), canon)
                                for kinds, buf, canon in cases])
    for i in bad[:3]:
        ctx.disagree("Message decoding differs from model", case={"kinds": cases[i][0], "buf": cases[i][1]},
                     impl=cases[i][2])
    ctx.sample({"decode": {"kinds": cases[0][0], "buf": cases[0][1], "impl": cases[0][2]}})


def replay(ctx, rep):
    from paramiko.message import Message
    from paramiko import util
    case = rep["case"]
    if "z" in case:
        got = Message().add_mpint(case["z"]).asbytes()
        ctx.count(("replay", case["z"]))
        ctx.count(("replay2", case["z"]))
        if got != rfc4251_mpint(case["z"]):
            ctx.fail(rep["key"], rep["what"], case=case, expected=rfc4251_mpint(case["z"]), observed=got)
    elif "n" in case:
        n = case["n"]
        impl = util.deflate_long(n, True)
        ctx.count(("replay", n))
        ctx.count(("replay2", n))
        if n != 0 and struct.pack(">I", len(impl)) + impl != rfc4251_mpint(n) or util.inflate_long(impl) != n:
            ctx.fail(rep["key"], rep["what"], case=case, observed=impl)
    else:
        run(ctx)
