"""C14 — a server grants authentication only with its own approval and valid proof.

Proof: coq/Props/C14_props.v over coq/Model/C14.v (shared with C15 / C16).
Tie: direct drive of the real paramiko.auth_handler.AuthHandler (and GssapiWithMicAuthHandler) with a
stub transport, a scripted ServerInterface, a stub GSS context and a toy signature scheme defined
identically in Gallina and here; the model's own definitions run inside Coq (vm_compute) on the same
request sequences.  Search oracle: the property stated directly over the recorded callbacks / wire
messages / authenticated flag, plus replayed and field-altered signatures made with the real keys of
/repo/tests.

This module also holds the driver shared by harness/c15.py and harness/c16.py.
"""
import os
import struct

from common import coq

PID = "C14"
GENS = ["c14"]          # gen/c14.py -> coq/Gen/C14_gen.v (shared by C14 / C15 / C16)
LEVEL_TEXT = ("Machine-checked proof (Coq) over an executable model of the server side of auth_handler.py that "
              "USERAUTH_SUCCESS / the authenticated flag only arise in a step whose credential callback for the "
              "pinned username and the request's method returned AUTH_SUCCESSFUL, for publickey additionally only "
              "when the signature verifies over THIS session's blob (session id, username, service, algorithm, key); "
              "that a key probe never authenticates; that the session blob is injective in its five fields; and that "
              "a signature made for other field values never authenticates (under the explicit premise that a "
              "signature verifies for at most one message per key).  Tied to the source by a differential run of "
              "the model (vm_compute) against the real AuthHandler on generated request sequences every run.")
LEVEL_NOTE = ("Trusted: Coq kernel + vm_compute; hand-written model coq/Model/C14.v validated by the correspondence "
              "run; its message numbers, AUTH_* values, handler-table key sets, failure limit and disconnect codes are "
              "regenerated from the source each run by the fail-closed translator gen/c14.py; verify_ssh_sig is a "
              "three-valued oracle (true / false / raises); callbacks, GSS context and signature verification are oracles (real keys are exercised by "
              "the implementation-level oracle, not by the proof); request parsing (Message.get_*) is C39's; the "
              "model dispatches through the active auth handler's table as bound methods, whereas the real run loop "
              "raises TypeError for GssapiWithMicAuthHandler's unbound table entries (fewer behaviours, all safe).")
TECHNIQUE = "Coq proof (case analysis per handler, induction over request lists) + vm_compute differential correspondence"

AUTH_SUCCESSFUL, AUTH_PARTIALLY_SUCCESSFUL, AUTH_FAILED = 0, 1, 2
RES = {0: "RSuccess", 1: "RPartial", 2: "RFailed", 3: "RQuery"}
CB = {"none": 0, "password": 1, "publickey": 2, "interactive": 3, "interactive_response": 4,
      "gssapi_with_mic": 5, "gssapi_keyex": 6}
INFO = {"allowed": 0, "enable_gss": 1, "banner": 2}
GSS_OIDS = bytes([0, 0, 0, 1, 0, 0, 0, 11, 6, 9, 42, 134, 72, 134, 247, 18, 1, 2, 2])
TOY_PREFERRED = ("toy-a", "toy-b")
TOY_ALGOS = ("toy-a", "toy-b", "toy-c", "toy-a-cert-v01@openssh.com")


# --------------------------------------------------------------------------
# toy signature scheme (same definition as toy_mac in coq/Model/C14.v)

def toy_mac(bits, blob):
    h = 17
    for b in list(bits) + [256] + list(blob):
        h = (h * 31 + b + 7) % 4294967291
    return struct.pack(">I", h)


def toy_bits(keyblob):
    return b"K" + bytes(keyblob).rstrip(b"\0")


def my_blob(sid, user, service, alg, bits):
    """Independent RFC 4252 section 7 construction of the signed data."""
    def s(x):
        return struct.pack(">I", len(x)) + x
    return s(sid) + b"\x32" + s(user) + s(service) + s(b"publickey") + b"\x01" + s(alg) + s(bits)


CERT_SUFFIX = b"-cert-v01@openssh.com"


def toy_sign(alg, bits, blob):
    """A well-formed toy signature: string(algorithm without cert suffix) + string(mac)."""
    return s_(bytes(alg).replace(CERT_SUFFIX, b"")) + s_(toy_mac(bits, blob))


def toy_sig_valid(sig, alg, bits, blob):
    """Independent statement of 'this signature is valid for blob under the declared algorithm'."""
    from paramiko.message import Message
    m = Message(sig)
    return m.get_binary() == bytes(alg).replace(CERT_SUFFIX, b"") and m.get_binary() == toy_mac(bits, blob)


class GssStubError(Exception):
    pass


class ToyVerifyError(Exception):
    """What a key class raises on a structurally broken signature."""


def make_world(repo_paramiko=None):
    """Build the stub classes (paramiko imported lazily)."""
    import paramiko
    from paramiko.server import InteractiveQuery
    from paramiko.ssh_exception import SSHException

    class ToyKey:
        public_blob = None

        def __init__(self, msg=None, data=None):
            raw = msg.asbytes() if msg is not None else data
            if raw[:1] == b"\xff":
                raise SSHException("mangled toy key")
            self.bits = toy_bits(raw)

        def asbytes(self):
            return self.bits

        def __bytes__(self):
            return self.bits

        def get_name(self):
            return "toy-a"

        def verify_ssh_sig(self, data, msg):
            msg.get_binary()                        # algorithm name
            mac = msg.get_binary()
            if mac == b"RAISE":
                raise ToyVerifyError("structurally broken signature")
            return mac == toy_mac(self.bits, data)

    class Srv(paramiko.ServerInterface):
        def __init__(self, world):
            self.w = world

        def _res(self, kind, user):
            r = self.w.env["res"]
            self.w.trace.append(("cb", kind, user, r))
            if r == 3:
                return InteractiveQuery("q", "", ("p:", False))
            return r

        def check_auth_none(self, username):
            return self._res("none", username)

        def check_auth_password(self, username, password):
            return self._res("password", username)

        def check_auth_publickey(self, username, key):
            return self._res("publickey", username)

        def check_auth_interactive(self, username, submethods):
            return self._res("interactive", username)

        def check_auth_interactive_response(self, responses):
            return self._res("interactive_response", self.w.handler.auth_username)

        def check_auth_gssapi_with_mic(self, username, gss_authenticated=AUTH_FAILED, cc_file=None):
            self.w.gss_arg = gss_authenticated
            return self._res("gssapi_with_mic", username)

        def check_auth_gssapi_keyex(self, username, gss_authenticated=AUTH_FAILED, cc_file=None):
            self.w.gss_arg = gss_authenticated
            return self._res("gssapi_keyex", username)

        def enable_auth_gssapi(self):
            self.w.trace.append(("info", "enable_gss"))
            return self.w.env["gss"]

        def get_allowed_auths(self, username):
            self.w.trace.append(("info", "allowed"))
            return "publickey,password"

        def get_banner(self):
            self.w.trace.append(("info", "banner"))
            return ("hello", "en-US") if self.w.env["banner"] else (None, None)

    class Gss:
        def __init__(self, world):
            self.w = world

        def ssh_check_mech(self, desired_mech):
            return self.w.env["mechok"]

        def ssh_gss_oids(self, mode="client"):
            return GSS_OIDS

        def ssh_accept_sec_context(self, hostname, recv_token, username=None):
            t = self.w.env["tok"]
            if t == 0:
                raise GssStubError("accept_sec_context failed")
            return None if t == 1 else b"srvtok"

        def ssh_check_mic(self, mic_token, session_id, username=None):
            if not self.w.env["micok"]:
                raise GssStubError("bad mic")

    class StubTransport:
        server_mode = True
        auth_timeout = 30

        def __init__(self, world, sid, key_info=None, preferred=None):
            self.w = world
            self.session_id = sid
            self.server_object = Srv(world)
            self.kexgss_ctxt = None
            self._expected_packet = tuple()
            self.active = True
            self.auth_handler = None
            self.saved_exception = None
            self.preferred_pubkeys = preferred if preferred is not None else TOY_PREFERRED
            self._key_info = key_info if key_info is not None else {a: ToyKey for a in TOY_ALGOS}

        def _log(self, *a):
            pass

        def _send_message(self, m):
            self.w.trace.append(("send", m.asbytes()))

        def _auth_trigger(self):
            self.w.trace.append(("trigger",))

        def close(self):
            self.w.trace.append(("close",))
            self.active = False

        def is_active(self):
            return self.active

    class World:
        """One simulated connection: real AuthHandler + stubs."""

        def __init__(self, sid, key_info=None, preferred=None):
            import paramiko.auth_handler as ah
            self.trace = []
            self.env = None
            self.gss_arg = None
            self.unbound_calls = 0
            self.transport = StubTransport(self, sid, key_info, preferred)
            self.handler = ah.AuthHandler(self.transport)
            self.transport.auth_handler = self.handler
            self.gss = Gss(self)

        def deliver(self, ptype, payload, env, gate=True):
            """Transport.run's dispatch of an auth-layer message; returns this step's trace."""
            from paramiko.message import Message
            self.env = env
            self.trace = []
            t = self.transport
            if gate and not t.active:
                return []
            t.kexgss_ctxt = self.gss if env["kexctx"] else None
            h = t.auth_handler
            table = h._handler_table
            if ptype not in table:
                self.trace.append(("unhandled",))
                return self.trace
            fn = table[ptype]
            m = Message(payload)
            try:
                if getattr(fn, "__self__", None) is None:
                    self.unbound_calls += 1     # the real run loop would raise TypeError here
                    fn(h, m)
                else:
                    fn(m)
            except BaseException as e:  # noqa
                self.trace.append(("raise", e))
                t.active = False                # Transport.run ends on any exception
            return self.trace

        def snapshot(self):
            t = self.transport
            return {"active": t.active, "authed": self.handler.authenticated,
                    "user": self.handler.auth_username, "fails": self.handler.auth_fail_count,
                    "gss": type(t.auth_handler).__name__ == "GssapiWithMicAuthHandler",
                    "expected": list(t._expected_packet)}

    return World, ToyKey, Gss


class gss_patch:
    """Install the stub GSS context factory in paramiko.auth_handler (harness process only)."""

    def __init__(self, holder):
        self.holder = holder

    def __enter__(self):
        import paramiko.auth_handler as ah
        self.ah = ah
        self.old = ah.GSSAuth
        holder = self.holder
        ah.GSSAuth = lambda method, deleg=True: holder["world"].gss
        return self

    def __exit__(self, *a):
        self.ah.GSSAuth = self.old


# --------------------------------------------------------------------------
# generation

USERS = [b"alice", b"bob", b"alic", b"alice ", b"", "éve".encode("utf-8")]
SERVICES = [b"ssh-connection", b"ssh-userauth", b"ssh-connectio", b"", b"ssh-connection2"]


def s_(x):
    return struct.pack(">I", len(x)) + x


def gen_env(rng, profile):
    w = {"mixed": [10, 14, 62, 14], "brute": [3, 6, 86, 5], "lenient": [35, 25, 30, 10]}[profile]
    return {"res": rng.choices([0, 1, 2, 3], weights=w)[0],
            "gss": rng.random() < 0.7, "mechok": rng.random() < 0.85,
            "tok": rng.choice([0, 1, 2, 2]), "micok": rng.random() < 0.8,
            "kexctx": rng.random() < 0.8, "banner": rng.random() < 0.5}


def gen_step(rng, sid, profile, main_user):
    """Returns (ptype, payload, env, model_msg, info)."""
    env = gen_env(rng, profile)
    r = rng.random()
    info = {}
    if r < 0.06:
        service = rng.choice([b"ssh-userauth"] * 3 + SERVICES)
        return 5, s_(service), env, ("Msg5", service), {"kind": "service-request"}
    if r < 0.16:
        n = rng.randrange(0, 3)
        payload = struct.pack(">I", n) + b"".join(s_(b"r%d" % i) for i in range(n))
        return 61, payload, env, ("Msg61",), {"kind": "msg61"}
    if r < 0.22:
        return 66, s_(b"mic"), env, ("Msg66",), {"kind": "msg66"}
    user = main_user if rng.random() < (0.97 if profile == "brute" else 0.9) else rng.choice(USERS)
    service = b"ssh-connection" if rng.random() < (0.98 if profile == "brute" else 0.93) else rng.choice(SERVICES)
    method = rng.choices(["none", "password", "publickey", "keyboard-interactive", "gssapi-with-mic",
                          "gssapi-keyex", "hostbased"], weights=[8, 22, 30, 10, 12, 12, 4])[0]
    head = s_(user) + s_(service) + s_(method.encode())
    info = {"kind": method, "user": user, "service": service}
    if method == "none":
        return 50, head, env, ("Msg50", user, service, ("BNone",)), info
    if method == "password":
        change = rng.random() < 0.15
        body = bytes([1 if change else 0]) + s_(b"pw") + (s_(b"new") if change else b"")
        return 50, head + body, env, ("Msg50", user, service, ("BPassword", change)), info
    if method == "publickey":
        alg = rng.choices(list(TOY_ALGOS) + ["toy-x"], weights=[40, 30, 8, 8, 6])[0].encode()
        keyblob = rng.choice([b"key1", b"key2", b"key1\0\0", b"\xffbad", b""])
        attached = rng.random() < 0.7
        bits = toy_bits(keyblob)
        keyok = (alg.decode().replace("-cert-v01@openssh.com", "") in TOY_PREFERRED
                 and alg.decode() in TOY_ALGOS and keyblob[:1] != b"\xff")
        variant = rng.choices(["valid", "other-sid", "other-user", "other-service", "other-alg", "other-key",
                               "garbage", "empty", "sig-alg-other", "sig-alg-unstripped", "verify-raises",
                               "truncated"], weights=[40, 7, 7, 7, 7, 7, 6, 3, 6, 4, 9, 4])[0]
        f = {"sid": sid, "user": user, "service": service, "alg": alg, "bits": bits}
        if variant == "other-sid":
            f["sid"] = sid + b"x"
        elif variant == "other-user":
            f["user"] = user + b"2"
        elif variant == "other-service":
            f["service"] = b"ssh-userauth"
        elif variant == "other-alg":
            f["alg"] = b"toy-b" if alg != b"toy-b" else b"toy-a"
        elif variant == "other-key":
            f["bits"] = bits + b"z"
        # signed data as the signer saw it; the signature names the request's algorithm
        mac = toy_mac(f["bits"], my_blob(f["sid"], f["user"], f["service"], f["alg"], f["bits"]))
        sigalg = alg.replace(CERT_SUFFIX, b"")
        if variant == "sig-alg-other":
            sigalg = rng.choice([b"toy-b" if sigalg != b"toy-b" else b"toy-a", b"", sigalg + b"x"])
        elif variant == "sig-alg-unstripped":
            sigalg = sigalg + CERT_SUFFIX
        elif variant == "verify-raises":
            mac = b"RAISE"
        sig = s_(sigalg) + s_(mac)
        if variant == "garbage":
            sig = bytes(rng.randrange(256) for _ in range(rng.randrange(1, 12)))
        elif variant == "empty":
            sig = b""
        elif variant == "truncated":
            sig = sig[:rng.randrange(len(sig))]
        body = bytes([1 if attached else 0]) + s_(alg) + s_(keyblob) + (s_(sig) if attached else b"")
        if not attached:
            sig = b""
        env = dict(env, keyok=keyok, bits=bits)
        info.update({"attached": attached, "variant": variant, "alg": alg, "keyblob": keyblob, "sig": sig,
                     "bits": bits, "keyok": keyok})
        return 50, head + body, env, ("Msg50", user, service, ("BPublickey", attached, alg, keyblob, sig)), info
    if method == "keyboard-interactive":
        return 50, head + s_(b"") + s_(b"sub"), env, ("Msg50", user, service, ("BInteractive",)), info
    if method == "gssapi-with-mic":
        mechs = rng.choice([1, 1, 1, 1, 0, 2])
        return 50, head + struct.pack(">I", mechs) + s_(b"\x06\x09mech"), env, \
            ("Msg50", user, service, ("BGssMic", mechs)), info
    if method == "gssapi-keyex":
        return 50, head + s_(b"mic"), env, ("Msg50", user, service, ("BGssKeyex",)), info
    return 50, head + b"junk", env, ("Msg50", user, service, ("BOther",)), info


def coq_env(env):
    return ("MkEnv", (RES[env["res"]],), env["gss"], env.get("keyok", False), env.get("bits", b""),
            env["mechok"], env["tok"], env["micok"], env["kexctx"], env["banner"])


def coq_msg(mm):
    if mm[0] == "Msg50":
        body = mm[3]
        return ("Msg50", mm[1], mm[2], tuple(body))
    return mm


def exn_code(e):
    import paramiko
    if isinstance(e, GssStubError):
        return 101
    if isinstance(e, ToyVerifyError):
        return 102
    if isinstance(e, AttributeError):
        return 15
    if isinstance(e, struct.error):
        return 12
    if isinstance(e, UnicodeError):
        return 11
    if isinstance(e, paramiko.SSHException):
        return 1
    if isinstance(e, TypeError):
        return 10
    if isinstance(e, IndexError):
        return 8
    if isinstance(e, KeyError):
        return 7
    return 98


def opt_code(u):
    if u is None:
        return [-1]
    b = u.encode("utf-8") if isinstance(u, str) else bytes(u)
    return [len(b)] + list(b)


def canon_trace(trace):
    out = []
    for ev in trace:
        if ev[0] == "send":
            out += [-10, 0] + list(ev[1])
        elif ev[0] == "cb":
            out += [-11, CB[ev[1]], ev[3]] + opt_code(ev[2])
        elif ev[0] == "info":
            out += [-12, INFO[ev[1]]]
        elif ev[0] == "close":
            out += [-13]
        elif ev[0] == "trigger":
            out += [-14]
        elif ev[0] == "raise":
            out += [-15, exn_code(ev[1])]
        elif ev[0] == "unhandled":
            out += [-16]
    return out


def canon_state(s):
    return [-20, int(s["active"]), int(s["authed"]), s["fails"], int(s["gss"])] + opt_code(s["user"]) \
        + [-21] + s["expected"]


def sends(trace):
    return [ev[1] for ev in trace if ev[0] == "send"]


def gen_sequence(rng, profile=None, maxlen=None):
    profile = profile or rng.choices(["mixed", "brute", "lenient"], weights=[55, 30, 15])[0]
    sid = rng.choice([b"SID-1", b"sess\x00\x01\xfe", bytes(rng.randrange(256) for _ in range(rng.choice([8, 20, 32])))])
    n = maxlen or (rng.randrange(10, 19) if profile == "brute" else rng.randrange(1, 12))
    main_user = rng.choice([b"alice", b"alice", b"bob", "éve".encode("utf-8")])
    steps = []
    while len(steps) < n:
        st = gen_step(rng, sid, profile, main_user)
        steps.append(st)
        info = st[4]
        # a publickey probe / attempt is followed up for the SAME user and key with a fresh callback answer
        if info.get("kind") == "publickey" and info.get("keyok") and rng.random() < 0.6:
            for _ in range(rng.choice([1, 1, 2])):
                steps.append(follow_up(rng, sid, profile, info))
    return profile, sid, steps


def follow_up(rng, sid, profile, info):
    """Second request about the same (user, service, algorithm, key): signed with a valid signature (mostly) or a probe,
    with an independently drawn callback result."""
    env = dict(gen_env(rng, "lenient" if rng.random() < 0.7 else profile), keyok=True, bits=info["bits"])
    user, service, alg, keyblob, bits = info["user"], info["service"], info["alg"], info["keyblob"], info["bits"]
    attached = rng.random() < 0.8
    variant = "valid" if rng.random() < 0.8 else "garbage"
    sig = toy_sign(alg, bits, my_blob(sid, user, service, alg, bits)) if variant == "valid" else s_(alg) + s_(b"zzzz")
    if not attached:
        sig = b""
    payload = s_(user) + s_(service) + s_(b"publickey") + bytes([1 if attached else 0]) + s_(alg) + s_(keyblob) \
        + (s_(sig) if attached else b"")
    info2 = {"kind": "publickey", "user": user, "service": service, "attached": attached, "variant": "follow-up-" + variant,
             "alg": alg, "keyblob": keyblob, "sig": sig, "bits": bits, "keyok": True}
    return 50, payload, env, ("Msg50", user, service, ("BPublickey", attached, alg, keyblob, sig)), info2


def drive(World, holder, sid, steps, on_step=None, gate=True):
    """Run one sequence on the real AuthHandler.  Returns (expected canonical list, per-step records)."""
    w = World(sid)
    holder["world"] = w
    canon = []
    recs = []
    for (ptype, payload, env, mm, info) in steps:
        before = w.snapshot()
        tr = list(w.deliver(ptype, payload, env, gate=gate))
        after = w.snapshot()
        canon += canon_trace(tr) + canon_state(after)
        rec = {"ptype": ptype, "env": env, "msg": mm, "info": info, "before": before, "after": after,
               "trace": tr, "gss_arg": w.gss_arg}
        recs.append(rec)
        if on_step:
            on_step(rec)
    return canon, recs, w


def case_repr(sid, steps):
    return {"sid": sid, "steps": [{"ptype": p, "payload": pl, "env": {k: v for k, v in e.items()}}
                                  for (p, pl, e, _, _) in steps]}


def model_case(sid, steps):
    return coq((sid, [(coq_msg(mm), coq_env(env)) for (_, _, env, mm, _) in steps]))


# --------------------------------------------------------------------------
# C14 oracle: success only with approval and valid proof

def c14_oracle(ctx, sid, steps, recs):
    pending = {"interactive": None, "gss": None}     # username an unfinished exchange was started for
    for i, rec in enumerate(recs):
        tr = rec["trace"]
        started = dict(pending)
        for ev in tr:
            if ev[0] == "cb" and ev[1] == "interactive":
                pending["interactive"] = ev[2] if ev[3] == 3 else None
        if rec["ptype"] == 50 and rec["after"]["gss"] and not rec["before"]["gss"]:
            pending["gss"] = rec["info"]["user"].decode("utf-8")
        elif not rec["after"]["gss"]:
            pending["gss"] = None
        if (b"\x34" in sends(tr)) or (rec["after"]["authed"] and not rec["before"]["authed"]):
            # the user the server now reports (get_username()) must be the one the approving exchange was about
            about = None
            if rec["ptype"] == 61 and not rec["before"]["gss"]:
                about = started["interactive"]
            elif rec["ptype"] == 66:
                about = started["gss"]
            elif rec["ptype"] == 50:
                about = rec["info"]["user"].decode("utf-8")
            if about is not None and rec["after"]["user"] != about:
                ctx.fail("success-for-other-username",
                         "the server reports %r as authenticated, but the approving exchange was started for %r" % (
                             rec["after"]["user"], about), case=case_repr(sid, steps[:i + 1]),
                         expected=about, observed=rec["after"]["user"])
        succ = (b"\x34" in sends(tr)) or (rec["after"]["authed"] and not rec["before"]["authed"])
        info = rec["info"]
        kind = info.get("kind")
        # USERAUTH_FAILURE with partial_success = true acknowledges one factor of a multi-factor login: it needs the
        # application's AUTH_PARTIALLY_SUCCESSFUL for this request and, for publickey, the same proof as a success
        if any(m[:1] == b"\x33" and m[-1:] == b"\x01" for m in sends(tr)):
            pcbs = [ev for ev in tr if ev[0] == "cb"]
            why = None
            if not pcbs or pcbs[-1][3] != AUTH_PARTIALLY_SUCCESSFUL:
                why = "without the callback of this request returning AUTH_PARTIALLY_SUCCESSFUL"
            elif kind == "publickey" and not (info["attached"] and info["keyok"] and toy_sig_valid(
                    info["sig"], info["alg"], info["bits"],
                    my_blob(sid, info["user"], info["service"], info["alg"], info["bits"]))):
                why = "for a publickey request that carries no valid signature over this session's blob"
            if why:
                ctx.fail("partial-success-without-proof", "USERAUTH_FAILURE(partial_success=true) sent " + why,
                         case=case_repr(sid, steps[:i + 1]), expected="partial_success=false", observed=repr(tr))
        if kind == "publickey" and not info["attached"] and succ:
            ctx.fail("probe-authenticates", "a publickey probe without signature authenticated the client",
                     case=case_repr(sid, steps[:i + 1]), expected="no USERAUTH_SUCCESS", observed=repr(tr))
            continue
        if not succ:
            continue
        cbs = [ev for ev in tr if ev[0] == "cb"]
        want_user = info["user"].decode("utf-8") if rec["ptype"] == 50 else rec["before"]["user"]
        ok = bool(cbs) and cbs[-1][3] == AUTH_SUCCESSFUL and cbs[-1][2] == want_user
        if not ok:
            gssish = kind in ("gssapi-keyex",) or rec["ptype"] == 66 or (cbs and cbs[-1][1].startswith("gssapi"))
            if gssish:
                key = "gssapi-keyex-ignores-callback" if (cbs and cbs[-1][1] == "gssapi_keyex") or kind == "gssapi-keyex" \
                    else "gssapi-with-mic-ignores-callback"
                what = "USERAUTH_SUCCESS sent although the server's %s callback did not return AUTH_SUCCESSFUL" % (
                    "check_auth_gssapi_keyex" if "keyex" in key else "check_auth_gssapi_with_mic")
            else:
                key = "success-without-approval"
                what = "USERAUTH_SUCCESS / authenticated without the callback for this username and method returning success"
            ctx.fail(key, what, case=case_repr(sid, steps[:i + 1]),
                     expected="callback result AUTH_SUCCESSFUL", observed=repr(cbs[-1:]))
            continue
        if kind == "publickey":
            good = toy_sign(info["alg"], info["bits"],
                            my_blob(sid, info["user"], info["service"], info["alg"], info["bits"]))
            if not info["keyok"] or not toy_sig_valid(
                    info["sig"], info["alg"], info["bits"],
                    my_blob(sid, info["user"], info["service"], info["alg"], info["bits"])):
                ctx.fail("bad-signature-accepted",
                         "publickey authentication succeeded with a signature that is not over this session's blob",
                         case=case_repr(sid, steps[:i + 1]), expected=good, observed=info["sig"])
        if cbs[-1][1] in ("gssapi_keyex", "gssapi_with_mic"):
            env = rec["env"]
            proof = env["micok"] and (env["kexctx"] if cbs[-1][1] == "gssapi_keyex" else True)
            if not proof:
                ctx.fail("gssapi-success-without-valid-mic",
                         "USERAUTH_SUCCESS for %s although the MIC did not verify (or no GSS context exists)" % cbs[-1][1],
                         case=case_repr(sid, steps[:i + 1]), expected="USERAUTH_FAILURE", observed=repr(tr))


def guarded_mismatches(ctx, fn, ty, cases, shard=150, imports="From PV Require Import C39 C14."):
    """The model run must never take the implementation-level oracle down with it."""
    try:
        return ctx.model_mismatches(fn, ty, cases, imports=imports, shard=shard)
    except Exception as e:  # noqa
        ctx.disagree("model evaluation failed (%s): %s" % (fn, str(e)[-600:]))
        return []


def run_sequences(ctx, nseq, oracle, label, profiles=None):
    """Shared by C14 and C16: generate, drive the real code, apply the oracle, compare with the model."""
    World, _, _ = make_world()
    holder = {}
    cases = []
    kept = []
    unbound = 0
    with gss_patch(holder):
        for _ in range(nseq):
            profile, sid, steps = gen_sequence(ctx.rng, profile=(ctx.rng.choice(profiles) if profiles else None))
            canon, recs, w = drive(World, holder, sid, steps)
            unbound += w.unbound_calls
            oracle(ctx, sid, steps, recs)
            reached = sum(1 for r in recs if r["trace"])
            for r in recs:
                if r["trace"]:
                    ctx.count((sid, r["ptype"], repr(r["msg"]), repr(sorted(r["env"].items())), repr(r["before"])),
                              nontrivial=True, kind=label + ":" + r["info"].get("kind", "?"))
            if len(canon) < 3800:
                cases.append((model_case(sid, steps), canon))
                kept.append((sid, steps, canon))
            if reached and len(ctx.samples) < 3:
                ctx.sample({"sid": sid, "steps": [repr(s[3]) for s in steps[:4]], "impl": canon[:60]})
    bad = guarded_mismatches(ctx, "run_auth", "(list Z * list (amsg * env))", cases, shard=90)
    for i in bad[:3]:
        ctx.disagree("AuthHandler behaviour differs from model (run_auth)",
                     case=case_repr(kept[i][0], kept[i][1]), impl=kept[i][2])
    return unbound


# --------------------------------------------------------------------------
# real keys: valid, replayed and field-altered signatures

def real_key_cases(ctx):
    import paramiko
    from paramiko.message import Message
    tests = os.path.join(ctx.repo, "tests")
    specs = [("_support/rsa.key", paramiko.RSAKey, ["rsa-sha2-512", "rsa-sha2-256", "ssh-rsa"]),
             ("_support/ecdsa-256.key", paramiko.ECDSAKey, ["ecdsa-sha2-nistp256"]),
             ("test_ecdsa_384.key", paramiko.ECDSAKey, ["ecdsa-sha2-nistp384"]),
             ("test_ecdsa_521.key", paramiko.ECDSAKey, ["ecdsa-sha2-nistp521"]),
             ("_support/ed25519.key", paramiko.Ed25519Key, ["ssh-ed25519"])]
    World, _, _ = make_world()
    holder = {}
    rng = ctx.rng
    keys = []
    for fn, cls, algs in specs:
        p = os.path.join(tests, fn)
        if os.path.exists(p):
            keys.append((cls.from_private_key_file(p), algs))
    other = paramiko.RSAKey.generate(2048)      # (tests/_support/rsa-lonely.key is the same key as rsa.key)
    env = {"res": 0, "gss": False, "mechok": True, "tok": 2, "micok": True, "kexctx": False, "banner": False}
    variants = ["valid", "other-sid", "other-user", "other-service", "other-alg", "other-key", "probe",
                "callback-failed", "callback-partial", "flipped-bit", "malformed-half", "malformed-empty",
                "sig-alg-renamed", "verify-raises"]
    n = 0
    with gss_patch(holder):
        for key, algs in keys:
            for alg in algs:
                for variant in variants:
                    for rep in range(2 if ctx.thorough else 1):
                        sid = bytes(rng.randrange(256) for _ in range(32))
                        user = rng.choice([b"alice", b"root", "éve".encode("utf-8")])
                        service = b"ssh-connection"
                        f = {"sid": sid, "user": user, "service": service, "alg": alg.encode(), "key": key}
                        if variant == "other-sid":
                            f["sid"] = bytes(rng.randrange(256) for _ in range(32))
                        elif variant == "other-user":
                            f["user"] = user + b"x"
                        elif variant == "other-service":
                            f["service"] = b"ssh-userauth"
                        elif variant == "other-alg":
                            if len(algs) < 2:
                                continue
                            f["alg"] = [a for a in algs if a != alg][0].encode()
                        elif variant == "other-key":
                            if not isinstance(key, paramiko.RSAKey):
                                continue
                            f["key"] = other
                        blob = my_blob(f["sid"], f["user"], f["service"], f["alg"], key.asbytes())
                        sig = f["key"].sign_ssh_data(blob, f["alg"].decode()).asbytes()
                        if variant == "flipped-bit":
                            sig = sig[:-1] + bytes([sig[-1] ^ 1])
                        key_info = paramiko.Transport._key_info
                        if variant in ("malformed-half", "malformed-empty", "sig-alg-renamed"):
                            from paramiko.message import Message
                            sm = Message(sig)
                            name, raw = sm.get_binary(), sm.get_binary()
                            if variant == "malformed-half":
                                raw = raw[:len(raw) // 2]
                            elif variant == "malformed-empty":
                                raw = b""
                            else:
                                name = name + b"x"
                            sig = s_(name) + s_(raw)
                        if variant == "verify-raises":
                            # a key class that raises on a structurally broken signature instead of returning False
                            class Raising(type(key)):
                                def verify_ssh_sig(self, data, msg):
                                    raise ValueError("malformed signature")
                            key_info = dict(key_info)
                            key_info[alg] = Raising
                            sig = s_(alg.encode()) + s_(b"\x00" * 7)
                        e = dict(env)
                        if variant == "callback-failed":
                            e["res"] = 2
                        if variant == "callback-partial":
                            e["res"] = 1
                        attached = variant != "probe"
                        payload = s_(user) + s_(service) + s_(b"publickey") + bytes([1 if attached else 0]) \
                            + s_(alg.encode()) + s_(key.asbytes()) + (s_(sig) if attached else b"")
                        w = World(sid, key_info=key_info, preferred=paramiko.Transport._preferred_pubkeys)
                        holder["world"] = w
                        tr = w.deliver(50, payload, e)
                        n += 1
                        ctx.count(("realkey", alg, variant, rep), kind="realkey:" + variant)
                        authed = w.handler.authenticated or b"\x34" in sends(tr)
                        # the real blob the handler built must be the RFC construction
                        hb = w.handler._get_session_blob(key, service.decode(), user.decode("utf-8"), alg)
                        if hb != my_blob(sid, user, service, alg.encode(), key.asbytes()):
                            ctx.fail("session-blob-wrong", "_get_session_blob is not the RFC 4252 signed data",
                                     case={"alg": alg}, expected=my_blob(sid, user, service, alg.encode(), key.asbytes()),
                                     observed=hb)
                        case = {"alg": alg, "variant": variant, "key": type(key).__name__, "sid": sid, "user": user,
                                "payload": payload}
                        if variant == "valid" and not authed:
                            ctx.fail("valid-signature-rejected", "a valid signature with an approving callback "
                                     "did not authenticate (harness or implementation broken)", case=case)
                        if variant != "valid" and authed:
                            ctx.fail("probe-authenticates" if variant == "probe" else
                                     "success-without-approval" if variant.startswith("callback") else
                                     "bad-signature-accepted",
                                     "authentication succeeded for variant %s (real %s key, %s)" % (
                                         variant, type(key).__name__, alg), case=case,
                                     expected="not authenticated", observed=repr(tr))
    return n


def blob_cases(ctx, n):
    """_get_session_blob of the real handler against the model's session_blob (C39 encoders)."""
    World, ToyKey, _ = make_world()
    rng = ctx.rng
    cases = []
    raw = []
    for _ in range(n):
        sid = bytes(rng.randrange(256) for _ in range(rng.choice([0, 1, 16, 20, 32, 64])))
        user = rng.choice(USERS + [b"u" * rng.randrange(0, 40)])
        service = rng.choice(SERVICES)
        alg = rng.choice([a.encode() for a in TOY_ALGOS] + [b"", b"ssh-ed25519"])
        keyblob = bytes(rng.randrange(256) for _ in range(rng.randrange(0, 24)))
        if keyblob[:1] == b"\xff":
            keyblob = b"\x00" + keyblob
        w = World(sid)
        key = ToyKey(data=keyblob)
        got = w.handler._get_session_blob(key, service.decode(), user.decode("utf-8"), alg.decode())
        if got != my_blob(sid, user, service, alg, key.asbytes()):
            ctx.fail("session-blob-wrong", "_get_session_blob is not the RFC 4252 signed data",
                     case={"sid": sid, "user": user, "service": service, "alg": alg, "bits": key.asbytes()},
                     expected=my_blob(sid, user, service, alg, key.asbytes()), observed=got)
        ctx.count(("blob", sid, user, service, alg, keyblob), kind="session-blob")
        cases.append((coq((sid, user, service, alg, key.asbytes())), [0] + list(got)))
        raw.append((sid, user, service, alg, key.asbytes(), got))
    bad = guarded_mismatches(ctx, "run_blob", "(list Z * list Z * list Z * list Z * list Z)", cases)
    for i in bad[:3]:
        ctx.disagree("_get_session_blob differs from model", case={"fields": raw[i][:5]}, impl=raw[i][5])


def sig_witness(ctx):
    """Deterministic publickey witnesses (toy key, approving callback): only the valid signature authenticates;
    wrong algorithm names, foreign blobs, malformed blobs and a verify call that RAISES must not."""
    World, _, _ = make_world()
    holder = {}
    sid, user, service, keyblob = b"SID-w", b"alice", b"ssh-connection", b"key1"
    bits = toy_bits(keyblob)
    env = {"res": 0, "gss": False, "mechok": True, "tok": 1, "micok": True, "kexctx": False, "banner": False,
           "keyok": True, "bits": bits}
    with gss_patch(holder):
        for alg in (b"toy-a", b"toy-a" + CERT_SUFFIX):
            base = alg.replace(CERT_SUFFIX, b"")
            mac = toy_mac(bits, my_blob(sid, user, service, alg, bits))
            sigs = {"valid": s_(base) + s_(mac),
                    "verify-raises": s_(base) + s_(b"RAISE"),
                    "sig-alg-other": s_(b"toy-b") + s_(mac),
                    "sig-alg-unstripped": s_(base + CERT_SUFFIX) + s_(mac),
                    "other-sid": s_(base) + s_(toy_mac(bits, my_blob(b"SID-x", user, service, alg, bits))),
                    "empty": b"", "raw-mac-only": mac, "truncated": (s_(base) + s_(mac))[:-1]}
            for variant, sig in sorted(sigs.items()):
                payload = s_(user) + s_(service) + s_(b"publickey") + b"\x01" + s_(alg) + s_(keyblob) + s_(sig)
                steps = [(50, payload, env, None, {})]
                w = World(sid)
                holder["world"] = w
                tr = w.deliver(50, payload, env)
                ctx.count(("sig-witness", alg, variant), kind="sig-witness")
                got = w.handler.authenticated or b"\x34" in sends(tr)
                if got != (variant == "valid"):
                    ctx.fail("bad-signature-accepted" if got else "valid-signature-rejected",
                             "publickey (%s, signature variant %s, approving callback%s): authenticated=%r" % (
                                 alg.decode(), variant,
                                 ", key.verify_ssh_sig raises" if variant == "verify-raises" else "", got),
                             case=case_repr(sid, steps), expected="authenticated == %r" % (variant == "valid"),
                             observed=repr(tr))


def pin_witness(ctx):
    """Deterministic histories mixing a pending exchange (keyboard-interactive / gssapi-with-mic) started for one
    username with requests under another username, then the approving completion of the exchange: whoever the
    server reports as authenticated must be the user the exchange was started for (and nobody else)."""
    World, _, _ = make_world()
    holder = {}
    base = {"gss": True, "mechok": True, "tok": 2, "micok": True, "kexctx": True, "banner": False}

    def req(user, method, extra=b""):
        return s_(user) + s_(b"ssh-connection") + s_(method) + extra

    pw = b"\x00" + s_(b"pw")
    hists = {
        "interactive alice pending, failed password bob, alice's INFO_RESPONSE approved": [
            (50, req(b"alice", b"keyboard-interactive", s_(b"") + s_(b"")), dict(base, res=3)),
            (50, req(b"bob", b"password", pw), dict(base, res=2)),
            (61, struct.pack(">I", 1) + s_(b"answer"), dict(base, res=0))],
        "interactive alice pending, 'none' as bob (partial), alice's INFO_RESPONSE approved": [
            (50, req(b"alice", b"keyboard-interactive", s_(b"") + s_(b"")), dict(base, res=3)),
            (50, req(b"bob", b"none"), dict(base, res=1)),
            (61, struct.pack(">I", 0), dict(base, res=0))],
        "gssapi-with-mic alice pending, failed password bob, gssapi-with-mic alice again, token, MIC approved": [
            (50, req(b"alice", b"gssapi-with-mic", struct.pack(">I", 1) + s_(b"\x06\x09mech")), dict(base, res=0)),
            (50, req(b"bob", b"password", pw), dict(base, res=2)),
            (50, req(b"alice", b"gssapi-with-mic", struct.pack(">I", 1) + s_(b"\x06\x09mech")), dict(base, res=0)),
            (61, s_(b"tok"), dict(base, res=0)), (66, s_(b"mic"), dict(base, res=0))],
        "failed password alice, approved password bob": [
            (50, req(b"alice", b"password", pw), dict(base, res=2)),
            (50, req(b"bob", b"password", pw), dict(base, res=0))],
    }
    with gss_patch(holder):
        for name, hist in sorted(hists.items()):
            steps = [(p, pl, env, None, {}) for (p, pl, env) in hist]
            w = World(b"SID-p")
            holder["world"] = w
            asked = []          # usernames the credential callbacks were asked about, in order
            for st in steps:
                tr = w.deliver(*st[:3])
                asked += [ev[2] for ev in tr if ev[0] == "cb" and ev[1] != "interactive_response"]
            ctx.count(("pin-witness", name), kind="pin-witness")
            who = w.handler.get_username() if w.handler.authenticated else None
            # the first request pins alice: any later authentication can only be alice's
            if w.handler.authenticated and who != "alice" or "bob" in asked:
                short = ("interactive-pending" if name.startswith("interactive") else
                         "gssapi-pending" if name.startswith("gssapi") else "after-pin")
                ctx.fail(("success-for-other-username:" if w.handler.authenticated else "other-username-evaluated:") + short,
                         "history [%s]: server reports %r as authenticated; callbacks were asked about %r" % (
                             name, who, asked), case=case_repr(b"SID-p", steps),
                         expected="only alice (pinned by the first request) can be authenticated / evaluated",
                         observed={"authenticated_as": who, "asked": asked})


def probe_witness(ctx):
    """Probe (PK_OK query) then the signed follow-up for the same key, the application answering differently the second
    time: only the answer given for the signed request counts, and the application must be asked again."""
    World, _, _ = make_world()
    holder = {}
    sid, user, service, alg, keyblob = b"SID-q", b"alice", b"ssh-connection", b"toy-a", b"key1"
    bits = toy_bits(keyblob)
    base = {"gss": False, "mechok": True, "tok": 1, "micok": True, "kexctx": False, "banner": False,
            "keyok": True, "bits": bits}
    head = s_(user) + s_(service) + s_(b"publickey")
    probe = head + b"\x00" + s_(alg) + s_(keyblob)
    signed = head + b"\x01" + s_(alg) + s_(keyblob) + s_(toy_sign(alg, bits, my_blob(sid, user, service, alg, bits)))
    with gss_patch(holder):
        for r1 in (0, 1):
            for r2 in (0, 1, 2):
                for twice in (False, True):
                    steps = [(50, probe, dict(base, res=r1), None, {}), (50, signed, dict(base, res=r2), None, {})]
                    if twice:       # and once more on the same object
                        steps.append((50, signed, dict(base, res=2), None, {}))
                    w = World(sid)
                    holder["world"] = w
                    traces = [list(w.deliver(*st[:3])) for st in steps]
                    ctx.count(("probe-witness", r1, r2, twice), kind="probe-witness")
                    got = w.handler.authenticated
                    asked = [len([ev for ev in tr if ev[0] == "cb"]) for tr in traces]
                    want = r2 == 0
                    if got != want or (asked[1] != 1):
                        ctx.fail("stale-approval-reused" if got and not want else
                                 "callback-skipped" if asked[1] != 1 else "valid-signature-rejected",
                                 "publickey probe answered %s, signed follow-up answered %s: authenticated=%r (must be %r), "
                                 "check_auth_publickey calls per step %r" % (RES[r1], RES[r2], got, want, asked),
                                 case=case_repr(sid, steps), expected="authenticated == %r, one callback per request" % want,
                                 observed=repr(traces[1]))


def dialogue_histories():
    """Multi-message dialogues started for alice (keyboard-interactive: request, another round, final answer;
    gssapi-with-mic: request, token, MIC) with, at every point of the dialogue, a repeated SERVICE_REQUEST
    'ssh-userauth', a request under another username (refused by the application), or both.
    Yields (name, [(ptype, payload, env, tag)]) -- tag 'intruder' marks the other user's request."""
    base = {"gss": True, "mechok": True, "tok": 2, "micok": True, "kexctx": True, "banner": False}

    def req(user, method, extra=b""):
        return s_(user) + s_(b"ssh-connection") + s_(method) + extra

    kbd = [(50, req(b"alice", b"keyboard-interactive", s_(b"") + s_(b"")), dict(base, res=3), "dialogue"),
           (61, struct.pack(">I", 1) + s_(b"a1"), dict(base, res=3), "dialogue"),
           (61, struct.pack(">I", 1) + s_(b"a2"), dict(base, res=0), "dialogue")]
    gss = [(50, req(b"alice", b"gssapi-with-mic", struct.pack(">I", 1) + s_(b"\x06\x09mech")), dict(base, res=0), "dialogue"),
           (61, s_(b"tok"), dict(base, res=0), "dialogue"), (66, s_(b"mic"), dict(base, res=0), "dialogue")]
    svc = (5, s_(b"ssh-userauth"), dict(base, res=2), "service")
    intr_none = (50, req(b"root", b"none"), dict(base, res=2), "intruder")
    intr_pw = (50, req(b"root", b"password", b"\x00" + s_(b"pw")), dict(base, res=2), "intruder")
    for dname, dia in (("keyboard-interactive", kbd), ("gssapi-with-mic", gss)):
        for k in range(0, len(dia) + 1):
            for iname, ins in (("service-request", [svc]), ("service-request+other-user", [svc, intr_none]),
                               ("other-user", [intr_pw]), ("service-request-twice+other-user", [svc, svc, intr_pw])):
                if k in (0, len(dia)) and iname != "service-request":
                    continue
                yield ("%s, %s before message %d" % (dname, iname, k), dia[:k] + ins + dia[k:])


def who_defect(authenticated, who, asked):
    """WHO ends up authenticated against who was approved: the dialogue belongs to alice; nobody else may be
    reported, and the application must never be asked about the other user once alice is pinned."""
    if authenticated and who != "alice":
        return "success-for-other-username", "the server reports %r as authenticated, the approved dialogue was alice's" % (who,)
    if any(u not in ("alice", None) for u in asked):
        return "other-username-evaluated", "callbacks were asked about %r although alice was pinned" % (asked,)
    return None


def dialogue_witness(ctx):
    """Direct drive of the real AuthHandler through every history of dialogue_histories()."""
    World, _, _ = make_world()
    holder = {}
    with gss_patch(holder):
        for name, hist in dialogue_histories():
            steps = [(p, pl, env, None, {}) for (p, pl, env, _) in hist]
            w = World(b"SID-d")
            holder["world"] = w
            asked = []
            for st in steps:
                tr = w.deliver(*st[:3])
                asked += [ev[2] for ev in tr if ev[0] == "cb" and ev[1] != "interactive_response"]
            ctx.count(("dialogue-witness", name), kind="dialogue-witness")
            who = w.handler.get_username()
            bad = who_defect(w.handler.authenticated, who, asked)
            intruder = any(t == "intruder" for (_, _, _, t) in hist)
            # (liveness sanity only where nothing aborts the dialogue: a SERVICE_REQUEST ends a gssapi-with-mic exchange)
            if bad is None and not intruder and not w.handler.authenticated and name.startswith("keyboard"):
                bad = ("valid-dialogue-rejected", "alice's approved dialogue did not authenticate her")
            if bad:
                ctx.fail(bad[0] + ":" + name.split(",")[0] + ":" + name.split(", ")[1].split(" before")[0],
                         "history [%s]: %s" % (name, bad[1]), case=case_repr(b"SID-d", steps),
                         expected="only alice can be authenticated / evaluated",
                         observed={"authenticated": w.handler.authenticated, "get_username": who, "asked": asked})


def partial_witness(ctx):
    """Callback result x proof grid for publickey (toy key): what the client is told must be
    SUCCESS iff (approved and valid signature), partial_success=true iff (partially approved and valid signature),
    PK_OK only for a signature-less probe of an acceptable key, otherwise partial_success=false."""
    World, _, _ = make_world()
    holder = {}
    sid, user, service, alg, keyblob = b"SID-m", b"alice", b"ssh-connection", b"toy-b", b"key2"
    bits = toy_bits(keyblob)
    base = {"gss": False, "mechok": True, "tok": 1, "micok": True, "kexctx": False, "banner": False,
            "keyok": True, "bits": bits}
    blob = my_blob(sid, user, service, alg, bits)
    sigs = {"valid": toy_sign(alg, bits, blob),
            "wrong-key": toy_sign(alg, bits + b"z", my_blob(sid, user, service, alg, bits + b"z")),
            "replay-other-session": toy_sign(alg, bits, my_blob(b"SID-other", user, service, alg, bits)),
            "replay-other-user": toy_sign(alg, bits, my_blob(sid, b"bob", service, alg, bits)),
            "garbage": s_(alg) + s_(b"zzzz"), "verify-raises": s_(alg) + s_(b"RAISE"), "no-signature(probe)": None}
    head = s_(user) + s_(service) + s_(b"publickey")
    with gss_patch(holder):
        for res in (0, 1, 2, 3):
            for variant, sig in sorted(sigs.items()):
                payload = head + (b"\x00" if sig is None else b"\x01") + s_(alg) + s_(keyblob) + (b"" if sig is None else s_(sig))
                steps = [(50, payload, dict(base, res=res), None, {})]
                w = World(sid)
                holder["world"] = w
                tr = w.deliver(*steps[0][:3])
                snd = sends(tr)
                told = ("success" if b"\x34" in snd else
                        "partial" if any(m[:1] == b"\x33" and m[-1:] == b"\x01" for m in snd) else
                        "pk-ok" if any(m[:1] == b"\x3c" for m in snd) else
                        "failure" if any(m[:1] == b"\x33" for m in snd) else "nothing")
                if variant == "valid":
                    want = {0: "success", 1: "partial", 2: "failure", 3: "failure"}[res]
                elif sig is None:
                    want = "failure" if res == 2 else "pk-ok"
                elif variant == "verify-raises":
                    want = "failure" if res == 2 else "nothing"
                else:
                    want = "failure"
                ctx.count(("partial-witness", res, variant), kind="partial-witness")
                if told != want:
                    key = ("partial-success-without-proof" if told == "partial" else
                           "bad-signature-accepted" if told == "success" else "publickey-answer-wrong")
                    ctx.fail(key + ":" + variant, "publickey, callback answers %s, signature %s: the client is told %r "
                             "(must be %r)" % (RES[res], variant, told, want), case=case_repr(sid, steps),
                             expected=want, observed=repr(tr))


def gss_witness(ctx):
    """Deterministic grid over the gssapi paths: callback result x MIC valid x context present x
    accept_sec_context outcome.  Authenticated iff the callback approves AND the proof is valid."""
    World, _, _ = make_world()
    holder = {}
    with gss_patch(holder):
        for res in (2, 1, 0):
            for micok in (True, False):
                for kexctx in (True, False):
                    env = {"gss": True, "mechok": True, "tok": 2, "micok": micok, "kexctx": kexctx,
                           "banner": False, "res": res}
                    w = World(b"SID")
                    holder["world"] = w
                    steps = [(50, s_(b"bob") + s_(b"ssh-connection") + s_(b"gssapi-keyex") + s_(b"mic"), env, None, {})]
                    tr = w.deliver(*steps[0][:3])
                    ctx.count(("gss-witness", "keyex", res, micok, kexctx), kind="gss-witness")
                    got = w.handler.authenticated or b"\x34" in sends(tr)
                    want = res == 0 and micok and kexctx
                    if got != want:
                        key = ("valid-gss-rejected" if want else
                               "gssapi-keyex-ignores-callback" if res != 0 else "gssapi-success-without-valid-mic")
                        ctx.fail(key, "gssapi-keyex: callback result %d, MIC %s, context %s -> authenticated=%r (must be %r)" % (
                            res, "valid" if micok else "INVALID", "present" if kexctx else "ABSENT", got, want),
                            case=case_repr(b"SID", steps), expected="authenticated == %r" % want, observed=repr(tr))
                for tok in (2, 1, 0):
                    env = {"gss": True, "mechok": True, "tok": tok, "micok": micok, "kexctx": True,
                           "banner": False, "res": res}
                    w = World(b"SID")
                    holder["world"] = w
                    steps = [(50, s_(b"bob") + s_(b"ssh-connection") + s_(b"gssapi-with-mic") + struct.pack(">I", 1)
                              + s_(b"\x06\x09mech"), env, None, {}),
                             (61, s_(b"clienttoken"), env, None, {}), (66, s_(b"mic"), env, None, {})]
                    got = False
                    alltr = []
                    for st in steps:
                        tr = w.deliver(*st[:3])
                        alltr += tr
                        got = got or w.handler.authenticated or b"\x34" in sends(tr)
                    ctx.count(("gss-witness", "mic", res, micok, tok), kind="gss-witness")
                    want = res == 0 and micok and tok != 0
                    if got != want:
                        key = ("valid-gss-rejected" if want else
                               "gssapi-with-mic-ignores-callback" if res != 0 else "gssapi-success-without-valid-mic")
                        ctx.fail(key, "gssapi-with-mic: callback result %d, MIC %s, accept_sec_context %s -> "
                                 "authenticated=%r (must be %r)" % (res, "valid" if micok else "INVALID",
                                                                    {0: "RAISES", 1: "done", 2: "token"}[tok], got, want),
                                 case=case_repr(b"SID", steps), expected="authenticated == %r" % want,
                                 observed=repr(alltr))


def run(ctx):
    ctx.rule = ("seeded generator (random.Random('C14-<seed>')): request sequences (1-18 messages) over types "
                "5/50/61/66 mixing 6 usernames, 5 services, 7 methods (none, password incl. change request, "
                "publickey probe/signed with valid, cross-session, cross-user/service/algorithm/key, garbage and "
                "empty signatures, keyboard-interactive, gssapi-with-mic, gssapi-keyex, unknown), callback results "
                "success/partial/failed/InteractiveQuery and GSS context outcomes; a step is counted when the "
                "handler was actually reached (transport still active) and is distinct by (message, oracle, state)")
    ctx.trusted += ["model coq/Model/C14.v is hand-written; tied to paramiko/auth_handler.py by this differential run",
                    "toy signature scheme in the differential run (real RSA/ECDSA/Ed25519 keys only in the oracle)",
                    "stub transport reproduces Transport.run's dispatch (active gate, table lookup, exception => stop)"]
    ctx.assumptions += ["sig_binds (premise of C14_replay_never_auths): a signature verifies for at most one message "
                        "under a given key (symbolic signature assumption)",
                        "usernames / services are valid UTF-8 (byte equality = str equality)"]
    ctx.prove(GENS)
    scale = 6 if ctx.thorough else 1
    gss_witness(ctx)
    sig_witness(ctx)
    pin_witness(ctx)
    probe_witness(ctx)
    dialogue_witness(ctx)
    partial_witness(ctx)
    unbound = run_sequences(ctx, 160 * scale, c14_oracle, "seq")
    blob_cases(ctx, 80 * scale)
    n = real_key_cases(ctx)
    import c15          # (lazy: c15 imports this module)
    ctx.notes.append("gssapi-with-mic on a real loopback server transport: %s" % c15.gss_mic_loopback(ctx))
    ctx.notes.append("forged proofs against the real key classes on real server transports: %s" % c15.forged_proof_loopback(ctx))
    ctx.notes.append("dialogues with re-keys / repeated service requests on real transports: %s" % c15.dialogue_loopback(ctx))
    ctx.notes.append("real-key signature cases: %d; GssapiWithMicAuthHandler table entries are unbound functions: "
                     "%d dispatches needed an explicit self (the real Transport.run would raise TypeError there and "
                     "stop, emitting nothing)" % (n, unbound))


def replay(ctx, rep):
    case = rep.get("case") or {}
    if "steps" not in case:
        return run(ctx)
    World, _, _ = make_world()
    holder = {}
    sid = bytes.fromhex(case["sid"]["hex"])
    steps = []
    for s in case["steps"]:
        env = dict(s["env"])
        if isinstance(env.get("bits"), dict):
            env["bits"] = bytes.fromhex(env["bits"]["hex"])
        steps.append((s["ptype"], bytes.fromhex(s["payload"]["hex"]), env, None, {}))
    with gss_patch(holder):
        if case.get("real_key"):        # recorded against the real key classes (forged_proof_loopback)
            import paramiko
            w = World(sid, key_info=paramiko.Transport._key_info, preferred=paramiko.Transport._preferred_pubkeys)
        else:
            w = World(sid)
        holder["world"] = w
        succ = False
        last_cb = None
        for st in steps:
            tr = w.deliver(*st[:3])
            ctx.count(("replay", st[0], st[1]), kind="replay")
            cbs = [ev for ev in tr if ev[0] == "cb"]
            last_cb = cbs[-1] if cbs else last_cb
            succ = succ or w.handler.authenticated or b"\x34" in sends(tr)
        if rep["key"] == "callback-skipped":
            if succ and not cbs:
                ctx.fail(rep["key"], rep["what"], case=case, expected=rep.get("expected"), observed="SUCCESS without callback")
            return
        if rep["key"].startswith("partial-success-without-proof"):
            if any(m[:1] == b"\x33" and m[-1:] == b"\x01" for m in sends(tr)):
                ctx.fail(rep["key"], rep["what"], case=case, expected=rep.get("expected"), observed="partial_success=true")
            return
        # every other recorded failing input of this property is one that must NOT authenticate
        if succ and rep["key"] != "valid-gss-rejected" and rep["key"] != "valid-signature-rejected":
            ctx.fail(rep["key"], rep["what"], case=case, expected=rep.get("expected"), observed=repr(last_cb))
        if not succ and rep["key"] in ("valid-gss-rejected", "valid-signature-rejected"):
            ctx.fail(rep["key"], rep["what"], case=case, expected=rep.get("expected"), observed="not authenticated")
