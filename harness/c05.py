"""C05 — algorithm negotiation picks the client's first mutually supported algorithm.

Proof: coq/Props/C05_props.v over coq/Model/C05.v (+ coq/Gen/C05_gen.v regenerated from the live
Transport class by gen/c05.py).
Tie: direct drive of real, un-started `Transport` objects (both roles): `_send_kex_init` (advertised
lists, read back from `local_kex_init`) and `_parse_kex_init` on generated peer KEXINIT messages,
compared with the model's `advertised` / `negotiate` evaluated inside Coq (vm_compute).
Oracle: the property stated directly on the two KEXINIT messages and the observables
(kex_engine class, host_key_type, local/remote cipher, MAC, compression, exception class), plus
paired transports and real loopback handshakes checking that both peers agree.
"""
import os
import threading

from common import coq, Raw, with_watchdog

PID = "C05"
LEVEL_TEXT = ("Machine-checked proof (Coq, closed under the global context) over an executable model of "
              "_filter_algorithm / preferred_* / _send_kex_init / _parse_kex_init that, for arbitrary local "
              "preference and disabled lists and arbitrary peer KEXINIT lists (unknown names, markers anywhere), "
              "every agreed algorithm is the first entry of the client's list that the server also lists (8 "
              "categories, both roles), that client and server computations on each other's advertised lists "
              "coincide with local/remote swapped, that nothing disabled is chosen, that IncompatiblePeer is "
              "raised exactly when a category has no common entry, and that ext-info-/kex-strict- markers are "
              "never chosen; tied to transport.py by generated tables and a differential direct drive of real "
              "Transport objects every run.")
LEVEL_NOTE = ("Domain: peer name-lists that are valid UTF-8 (a malformed one may be rejected with "
              "UnicodeDecodeError - nothing is agreed; exception hygiene is C38's); Trusted: Coq kernel + vm_compute; hand-written model coq/Model/C05.v (the to_pop index loop is modelled "
              "literally and proved equal to the filter the model uses; its shape and the marker/cert/gex literals are "
              "re-read from the source by gen/c05.py); gss_kex=True is exercised with a stub GSSAuth (no GSS library "
              "here); the strict-kex seqno check (C09) is outside the model; host key 'not disabled' is stated modulo "
              "the certificate variants preferred_keys derives.")
TECHNIQUE = "Coq proof (list filtering lemmas, case analysis of _parse_kex_init) + vm_compute differential direct drive"
GENS = ["c05"]

CATS = ["kex", "keys", "ciphers", "macs", "compression"]
CAT8 = ["kex", "hostkey", "enc_c2s", "enc_s2c", "mac_c2s", "mac_s2c", "comp_c2s", "comp_s2c"]
CAT8_TYPE = ["kex", "keys", "ciphers", "ciphers", "macs", "macs", "compression", "compression"]
CERT = "-cert-v01@openssh.com"
GEX = "diffie-hellman-group-exchange-sha"
UNKNOWN = ["foo@example.com", "", "ext-info-x", "kex-strict-zz", "none2", "aes128-ctr ", "EXT-INFO-C",
           "ext-info-", "kex-strict-", "xkex-strict-c-v00@openssh.com", "chacha20-poly1305@openssh.com",
           "ssh-dss", "sntrup761x25519-sha512@openssh.com"]
MARKERS = ["ext-info-c", "ext-info-s", "kex-strict-c-v00@openssh.com", "kex-strict-s-v00@openssh.com"]

_state = {}


def is_marker(n):
    return n.startswith("ext-info-") or n.startswith("kex-strict-")


def setup(ctx):
    """Load host keys, name table, class->kex-name map (once per process)."""
    if _state:
        return _state
    import importlib.util
    gpath = os.path.join(os.path.dirname(os.path.dirname(os.path.abspath(__file__))), "gen", "c05.py")
    try:
        spec = importlib.util.spec_from_file_location("gen_c05_names", gpath)
        gen = importlib.util.module_from_spec(spec)
        spec.loader.exec_module(gen)
        name_table = gen.name_table
    except Exception as e:  # noqa  - the oracle must still run; names are then rendered as byte lists
        ctx.corr_broken.append("gen/c05.py could not be loaded: %r" % (e,))
        name_table = None
    import paramiko
    from paramiko import Transport, RSAKey, ECDSAKey, Ed25519Key
    sup = os.path.join(ctx.repo, "tests", "_support")
    tst = os.path.join(ctx.repo, "tests")
    _state["keys"] = {
        "rsa": RSAKey.from_private_key_file(os.path.join(sup, "rsa.key")),
        "ecdsa256": ECDSAKey.from_private_key_file(os.path.join(sup, "ecdsa-256.key")),
        "ed25519": Ed25519Key.from_private_key_file(os.path.join(sup, "ed25519.key")),
        "ecdsa384": ECDSAKey.from_private_key_file(os.path.join(tst, "test_ecdsa_384.key")),
        "ecdsa521": ECDSAKey.from_private_key_file(os.path.join(tst, "test_ecdsa_521.key")),
    }
    try:
        _state["names"] = {n: i for i, n in enumerate(name_table(Transport))}
    except Exception as e:  # noqa
        ctx.corr_broken.append("gen/c05.py name_table failed: %r" % (e,))
        _state["names"] = {}
    _state["tables"] = {"kex": sorted(Transport._kex_info), "keys": sorted(Transport._key_info),
                        "ciphers": sorted(Transport._cipher_info), "macs": sorted(Transport._mac_info),
                        "compression": sorted(Transport._compression_info)}
    cls2name = {}
    for k, v in Transport._kex_info.items():
        cls2name.setdefault(v, []).append(k)
    _state["cls2name"] = cls2name

    class Recording(Transport):
        """Observes the kex engine class chosen by _parse_kex_init (it is dropped after kex)."""
        seen_kex = None

        def _parse_kex_init(self, m):
            try:
                return Transport._parse_kex_init(self, m)
            finally:
                self.seen_kex = type(self.kex_engine) if self.kex_engine is not None else None

    _state["Recording"] = Recording
    import logging
    lg = logging.getLogger("paramiko")
    lg.addHandler(logging.NullHandler())
    lg.propagate = False
    return _state


# ---------------------------------------------------------------------------------------------
# rendering for Coq


def cn(n):
    i = _state["names"].get(n)
    return "nm_%d" % i if i is not None else coq(list(n.encode("utf-8", "surrogateescape")))


def cl(names):
    return "[" + ";".join(cn(n) for n in names) + "]"


def coq_cfg(cfg):
    return "(mkConfig %s %s %s %s %s)" % (
        " ".join((cfg["kex_raw"] if (c == "kex" and cfg.get("kex_raw")) else cl(cfg["prefs"][c])) for c in CATS), " ".join(cl(cfg["disabled"][c]) for c in CATS),
        cl(cfg["server_keys"]), coq(cfg["moduli"]), coq(cfg["strict"]))


def coq_ki(lists):
    return "(mkKI %s)" % " ".join(cl(x) for x in lists)


def enc_names(names):
    out = [len(names)]
    for n in names:
        b = n.encode("utf-8")
        out += [len(b)] + list(b)
    return out


# ---------------------------------------------------------------------------------------------
# generators


def gen_cfg(rng, role, st):
    prefs = {}
    dis = {}
    for c in CATS:
        table = st["tables"][c]
        mode = rng.random()
        if mode < 0.45:
            prefs[c] = None                       # class default
        else:
            k = rng.randrange(1, min(len(table), 7) + 1)
            prefs[c] = rng.sample(table, k)
    from paramiko import Transport
    marker_pref = rng.random() < 0.12
    if marker_pref:
        # a local kex preference tuple that itself names a marker (assigned directly, SecurityOptions
        # would refuse it): the stripping of the peer's list is what keeps it from being selected
        base = list(prefs["kex"] if prefs["kex"] is not None else Transport._preferred_kex)
        base.insert(rng.choice([0, 0, rng.randrange(len(base) + 1)]), rng.choice(MARKERS))
        prefs["kex"] = base
    for c in CATS:
        base = list(prefs[c] if prefs[c] is not None else getattr(Transport, "_preferred_" + c))
        mode = rng.random()
        if mode < 0.3:
            d = []
        elif mode < 0.8:
            # often the first preferences, so that a dropped filter changes the outcome
            k = rng.randrange(0, len(base))
            d = base[:k] if rng.random() < 0.5 else rng.sample(base, k)
        elif mode < 0.9:
            d = list(base)                        # everything disabled
        else:
            d = rng.sample(base, rng.randrange(0, len(base) + 1)) + [rng.choice(UNKNOWN)]
        if c == "keys" and rng.random() < 0.1 and base:
            d = d + [rng.choice(base) + CERT]
        rng.shuffle(d)
        dis[c] = d
    skeys = []
    if role == "Server":
        names = sorted(st["keys"])
        r = rng.random()
        if r < 0.06:
            skeys = []
        elif r < 0.4:
            skeys = [rng.choice(names)]
        else:
            skeys = rng.sample(names, rng.randrange(1, len(names) + 1))
    # (a server without moduli re-assigns the kex tuple through SecurityOptions, which rejects unknown names)
    moduli = True if (marker_pref and role == "Server") else rng.random() < 0.5
    # gss_kex=True: __init__ prepends _preferred_gsskex (only visible while the kex tuple is the default)
    gss = prefs["kex"] is None and rng.random() < 0.25
    return {"prefs": prefs, "disabled": dis, "skeys": skeys, "moduli": moduli, "strict": rng.random() < 0.75,
            "gss": gss}


def gen_peer(rng, st, adv, benign=False):
    """A peer KEXINIT: random subsets / orderings / unknown names / markers; `adv` = our own lists.
    benign: no sabotaged category and every list overlaps ours (so that late categories are reached)."""
    lists = []
    sabotage = rng.randrange(8) if (rng.random() < 0.3 and not benign) else None
    for i, typ in enumerate(CAT8_TYPE):
        table = st["tables"][typ]
        if i == 1:
            table = table + [n + CERT for n in table[:3]]
        mode = rng.random()
        if benign:
            mode = 0.6
        if i == sabotage:
            l = rng.choice([[], [rng.choice(UNKNOWN)], rng.sample(UNKNOWN, 3),
                            [n for n in table if n not in adv[i]][:3]])
        elif mode < 0.5:
            l = rng.sample(table, rng.randrange(1, len(table) + 1))
        elif mode < 0.8:
            # overlaps our list for sure, other order
            own = [n for n in adv[i] if not is_marker(n)]
            l = rng.sample(own, rng.randrange(1, len(own) + 1)) if own else []
            l += rng.sample(table, rng.randrange(0, 3))
            rng.shuffle(l)
        else:
            l = rng.sample(table, rng.randrange(0, len(table) + 1)) + rng.sample(UNKNOWN, rng.randrange(0, 3))
            rng.shuffle(l)
        if rng.random() < 0.15 and l:
            l.insert(rng.randrange(len(l) + 1), rng.choice(l))          # duplicate
        nmark = 0
        if i == 0:
            nmark = rng.choice([0, 1, 1, 2, 2, 3])
        elif rng.random() < 0.15:
            nmark = 1                                                    # marker in a non-kex list
        ownm = [n for n in adv[i] if is_marker(n)]
        for _ in range(nmark):
            pool = ownm if (ownm and rng.random() < 0.5) else MARKERS + ["ext-info-x", "kex-strict-zz"]
            l.insert(rng.randrange(len(l) + 1), rng.choice(pool))
        own_real = [n for n in adv[i] if not is_marker(n)]
        if own_real and rng.random() < (0.1 if benign else 0.2):
            l.insert(rng.choice([0, 0, rng.randrange(len(l) + 1)]), twin(rng.choice(TWIN_KINDS), rng.choice(own_real)))
        l = [n for n in l if "," not in n]
        lists.append(l)
    return lists


def ranked_differently(client_l, server_l, kex=False):
    """>= 2 common algorithms and the two sides rank them differently: the client's first common
    entry is not the server's first common entry (exactly when a swapped filter changes the result)."""
    c = [n for n in client_l if n != "" and not (kex and is_marker(n))]
    s = [n for n in server_l if n != "" and not (kex and is_marker(n))]
    fc = next((n for n in c if n in s), None)
    fs = next((n for n in s if n in c), None)
    return fc is not None and fc != fs


def gen_rankdiff_cfg(rng, role, st, i):
    """A mostly benign local state with >= 2 enabled algorithms in the category under test."""
    from paramiko import Transport
    typ = CAT8_TYPE[i]
    prefs = {c: None for c in CATS}
    dis = {c: [] for c in CATS}
    for c in CATS:
        table = st["tables"][c]
        if c == typ or rng.random() < 0.3:
            if c == "keys" and role == "Server":
                continue                      # keep the defaults: they match the five test host keys
            pool = [n for n in table if not (c == "kex" and n.startswith("gss-"))] if c == "kex" else table
            prefs[c] = rng.sample(pool, rng.randrange(2, min(len(pool), 6) + 1))
        elif rng.random() < 0.3:
            base = list(getattr(Transport, "_preferred_" + c))
            dis[c] = rng.sample(base, rng.randrange(0, max(1, len(base) - 2)))
    names = sorted(st["keys"])
    skeys = []
    if role == "Server":
        skeys = list(names) if typ == "keys" else rng.sample(names, rng.randrange(1, len(names) + 1))
    return {"prefs": prefs, "disabled": dis, "skeys": skeys, "moduli": True, "strict": rng.random() < 0.75}


def rankdiff_peer(rng, st, i):
    """peer_fn for run_single: benign lists, and in category i >= 2 of our own names in an order whose
    first entry differs from ours, with extras / unknown names / markers around them."""
    def fn(own):
        lists = gen_peer(rng, st, own, benign=True)
        common = [n for n in own[i] if not is_marker(n)]
        common = [n for k, n in enumerate(common) if n not in common[:k]]
        if len(common) < 2:
            return lists
        sub = rng.sample(common, rng.randrange(2, len(common) + 1))
        first_own = min(sub, key=common.index)
        if sub[0] == first_own:
            j = rng.randrange(1, len(sub))
            sub[0], sub[j] = sub[j], sub[0]
        table = st["tables"][CAT8_TYPE[i]]
        for _ in range(rng.randrange(0, 3)):
            x = rng.choice(table + UNKNOWN[:2])
            if x not in common:
                sub.insert(rng.randrange(len(sub) + 1), x)
        if i == 0:
            for _ in range(rng.randrange(0, 3)):
                sub.insert(rng.randrange(len(sub) + 1), rng.choice(MARKERS))
        lists[i] = [n for n in sub if "," not in n]
        return lists
    return fn


TWIN_KINDS = ["inv-suffix", "inv-prefix", "inv-middle", "inv-lead2", "trail-space", "lead-space", "bom", "nul",
              "upper", "latin", "zwsp", "prefix", "tab"]


def twin(kind, k):
    """A name the peer may list that is NOT algorithm k but collapses to it under a sloppy decoder
    (bytes that are invalid UTF-8 are carried as surrogate escapes, see nb())."""
    return {"inv-suffix": k + "\udcff", "inv-prefix": "\udcfe" + k, "inv-middle": k[:3] + "\udc80" + k[3:],
            "inv-lead2": k + "\udcc3", "trail-space": k + " ", "lead-space": " " + k, "bom": "\ufeff" + k,
            "nul": k + "\x00", "upper": k.upper(), "latin": k + "\u00e9", "zwsp": k + "\u200b",
            "prefix": k[:-1], "tab": k + "\t"}[kind]


def nearmiss_peer(rng, st, i, kind, only_twins):
    """peer_fn: benign lists; category i lists twins of our own names first (or nothing else)."""
    def fn(own):
        lists = gen_peer(rng, st, own, benign=True)
        mine_ = [n for n in own[i] if not is_marker(n)]
        if not mine_:
            return lists
        tw = [twin(kind, n) for n in mine_[:2]]
        tw = [x for x in tw if x not in mine_ and "," not in x]
        if only_twins:
            lists[i] = tw + [UNKNOWN[0]]
        else:
            lists[i] = tw + [mine_[-1]] + [twin(kind, mine_[-1])]
        return lists
    return fn


def run_nearmiss(ctx, st, cases_adv, cases_neg, full):
    """Both roles x 8 categories x every twin kind (quick: kinds rotate with the seed): a near-miss name is
    an unknown name - never agreed on, and alone it gives IncompatiblePeer (a KEXINIT whose name-list is not
    valid UTF-8 may instead be rejected as malformed)."""
    rng = ctx.rng
    allk = sorted(st["keys"])
    comp3 = ["zlib@openssh.com", "none", "zlib"]
    for role in ("Client", "Server"):
        for i in range(8):
            kinds = TWIN_KINDS if full else [TWIN_KINDS[(ctx.seed + i + j) % len(TWIN_KINDS)] for j in (0, 4, 9)] + \
                TWIN_KINDS[:2]
            for kind in dict.fromkeys(kinds):
                for only in (False, True):
                    cfg = plain_cfg(allk if role == "Server" else [], moduli=True, prefs={"compression": comp3})
                    run_single(ctx, st, role, cfg, None, "nearmiss-%s%s" % (kind, "-only" if only else ""),
                               cases_adv, cases_neg, check_adv=False, peer_fn=nearmiss_peer(rng, st, i, kind, only))
                    k = "near-miss/%s/%s" % (CAT8[i], kind)
                    ctx.dist[k] = ctx.dist.get(k, 0) + 1


def judge(ctx, case, role, mcfg, own, peer, outcome, cases_neg):
    """Oracle + model case for one _parse_kex_init outcome.  A peer KEXINIT whose name-lists are not valid
    UTF-8 is malformed (RFC 4251 names are US-ASCII): rejecting it with UnicodeDecodeError agrees on nothing
    and is accepted here (exception hygiene is C38's subject); any OTHER outcome on such input is judged on
    the byte-level lists like every other case."""
    if outcome == ("exc", "UnicodeDecodeError") and invalid_utf8(peer):
        ctx.dist["malformed-utf8-rejected"] = ctx.dist.get("malformed-utf8-rejected", 0) + 1
        return
    check_property(ctx, case, role, mcfg, own, peer, outcome)
    tally_rankdiff(ctx, role, own, peer, outcome)
    cases_neg.append(("(CaseNeg %s %s %s %s)" % (role, coq_cfg(mcfg), coq_ki(peer), coq_outcome(outcome)), [1], case,
                      outcome))


# ---------------------------------------------------------------------------------------------
# driving the implementation


def make_transport(st, role, cfg, dis=None):
    """dis: the caller-owned disabled_algorithms dict object to hand to the constructor (shared between
    several transports in the sequence stream); default: a fresh dict built from cfg["disabled"]."""
    from paramiko.primes import ModulusPack
    from _loop import LoopSocket
    a, b = LoopSocket(), LoopSocket()
    a.link(b)
    if dis is None:
        dis = {c: list(v) for c, v in cfg["disabled"].items() if v}
    if cfg.get("gss"):
        # no GSS-API library here: the context object is a library primitive, stubbed in this process only
        import paramiko.transport as ptr
        real = ptr.GSSAuth
        ptr.GSSAuth = lambda *a_, **k_: object()
        try:
            t = st["Recording"](a, disabled_algorithms=dis, strict_kex=cfg["strict"], gss_kex=True)
        finally:
            ptr.GSSAuth = real
    else:
        t = st["Recording"](a, disabled_algorithms=dis, strict_kex=cfg["strict"])
    t.server_mode = role == "Server"
    so = t.get_security_options()
    for c, attr in (("kex", "kex"), ("keys", "key_types"), ("ciphers", "ciphers"), ("macs", "digests"),
                    ("compression", "compression")):
        if cfg["prefs"][c] is not None:
            if all(n in st["tables"][c] for n in cfg["prefs"][c]):
                setattr(so, attr, list(cfg["prefs"][c]))
            else:
                setattr(t, "_preferred_" + c, tuple(cfg["prefs"][c]))
    for k in cfg["skeys"]:
        t.add_server_key(st["keys"][k])
    if cfg["moduli"]:
        t._modulus_pack = ModulusPack()
    return t, (a, b)


def model_cfg(t, cfg):
    """The model's config record, read from the transport before _send_kex_init runs."""
    return {"kex_raw": "(init_kex true)" if (cfg.get("gss") and cfg["prefs"]["kex"] is None) else None,
            "prefs": {c: list(getattr(t, "_preferred_" + c)) for c in CATS},
            # what the caller configured (not what the transport object holds by now)
            "disabled": {c: list(cfg["disabled"].get(c, [])) for c in CATS},
            "server_keys": list(t.server_key_dict.keys()),
            "moduli": t._modulus_pack is not None, "strict": bool(t.advertise_strict_kex)}


def nb(n):
    """Wire bytes of a name; names that are not valid UTF-8 are held as str with surrogate escapes."""
    return n.encode("utf-8", "surrogateescape")


def invalid_utf8(lists):
    return any("\udc80" <= ch <= "\udcff" for l in lists for n in l for ch in n)


def read_lists(raw):
    """The eight name lists of a KEXINIT payload (raw starts with the message type byte), parsed here at
    the byte level (RFC 4251 name-list: u32 length, comma separated) - NOT with paramiko's Message, so that
    the oracle's view of what was offered does not depend on the helper the implementation parses with."""
    import struct
    pos = 17
    out = []
    for _ in range(8):
        (n,) = struct.unpack(">I", raw[pos:pos + 4])
        body = raw[pos + 4:pos + 4 + n]
        pos += 4 + n
        out.append([x.decode("utf-8", "surrogateescape") for x in body.split(b",")])
    return out


def read_own(raw):
    """Our own advertised lists; an empty name-list splits into [""]."""
    return [[] if l == [""] else l for l in read_lists(raw)]


def build_kexinit(lists):
    """KEXINIT payload (without the type byte) built at the byte level; names may carry arbitrary bytes."""
    import struct
    out = b"\x05" * 16
    for l in list(lists) + [[], []]:
        body = b",".join(nb(n) for n in l)
        out += struct.pack(">I", len(body)) + body
    return out + b"\x00" + struct.pack(">I", 0)


def drive_parse(st, t, payload):
    """Run _parse_kex_init; returns ('ok', [8 names]) or ('exc', class name)."""
    from paramiko.message import Message
    from paramiko.ssh_exception import IncompatiblePeer
    m = Message(payload)
    m.seqno = 0
    try:
        t._parse_kex_init(m)
    except IncompatiblePeer:
        return ("exc", "IncompatiblePeer")
    except KeyError:
        return ("exc", "KeyError")
    except Exception as e:  # noqa
        return ("exc", type(e).__name__)
    names = st["cls2name"].get(t.seen_kex, [])
    kex = names[0] if len(names) == 1 else "<class %s>" % getattr(t.seen_kex, "__name__", None)
    return ("ok", [kex, t.host_key_type, t.local_cipher, t.remote_cipher, t.local_mac, t.remote_mac,
                   t.local_compression, t.remote_compression])


def coq_outcome(outcome):
    """The implementation's outcome as a Gallina `result agreement`."""
    if outcome[0] == "ok":
        return "(Ok (mkAg %s))" % " ".join(cn(n if isinstance(n, str) else "<%r>" % (n,)) for n in outcome[1])
    return "(Raise %s)" % {"IncompatiblePeer": "IncompatiblePeer", "KeyError": "KeyErr"}.get(outcome[1], "SSHExc")


# ---------------------------------------------------------------------------------------------
# the property, stated on the observables


def expected_from_messages(role, own, peer):
    """RFC 4253 7.1 on the two KEXINITs: per category the first name of the client's list that the
    server lists (kex: markers are not algorithms).  Returns [8 names or None] in c2s/s2c terms."""
    client, server = (own, peer) if role == "Client" else (peer, own)
    exp = []
    for i in range(8):
        # the empty string is what an empty name-list parses to, not an algorithm
        c, s = [n for n in client[i] if n != ""], [n for n in server[i] if n != ""]
        if i == 0:
            c = [n for n in c if not is_marker(n)]
            s = [n for n in s if not is_marker(n)]
        pick = None
        for n in c:
            if n in s:
                pick = n
                break
        exp.append(pick)
    return exp


def to_local_remote(role, e):
    """[kex, hk, c2s, s2c, ...] -> [kex, hk, local, remote, ...] for the given role."""
    out = [e[0], e[1]]
    for j in (2, 4, 6):
        out += [e[j], e[j + 1]] if role == "Client" else [e[j + 1], e[j]]
    return out


def check_property(ctx, case, role, mcfg, own, peer, outcome):
    exp = expected_from_messages(role, own, peer)
    empty = [CAT8[i] for i in range(8) if exp[i] is None]
    if outcome[0] == "exc":
        if (outcome[1] == "IncompatiblePeer" and not empty and role == "Server" and not mcfg["moduli"]
                and exp[0].startswith(GEX)):
            ctx.fail("gex-advertised-without-moduli",
                     "server without a modulus pack lists %s in its KEXINIT but refuses to agree on it "
                     "(client computes %s, server raises IncompatiblePeer)" % (exp[0], exp[0]),
                     case=case, expected=to_local_remote(role, exp), observed=outcome[1])
        elif outcome[1] != "IncompatiblePeer" or not empty:
            ctx.fail("fail-iff", "negotiation raised %s although every category has a common algorithm"
                     % outcome[1] if not empty else "negotiation raised %s instead of IncompatiblePeer" % outcome[1],
                     case=case, expected=to_local_remote(role, exp), observed=outcome[1])
        return
    got = outcome[1]
    if empty:
        ctx.fail("fail-iff", "negotiation succeeded although category %s has no common algorithm" % empty[0],
                 case=case, expected="IncompatiblePeer", observed=got)
        return
    want = to_local_remote(role, exp)
    # each side's recorded choice must be offered by BOTH KEXINITs in its category
    cl_, sv_ = (own, peer) if role == "Client" else (peer, own)
    c2s_view = [got[0], got[1]] + ([got[2], got[3], got[4], got[5], got[6], got[7]] if role == "Client" else
                                   [got[3], got[2], got[5], got[4], got[7], got[6]])
    for i in range(8):
        if c2s_view[i] not in cl_[i] or c2s_view[i] not in sv_[i]:
            ctx.fail("not-offered-by-both-" + CAT8_TYPE[i],
                     "%s: the recorded algorithm %r is not listed by %s" % (
                         CAT8[i], c2s_view[i], "the client" if c2s_view[i] not in cl_[i] else "the server"),
                     case=case, expected=want, observed=got)
    slot_cat = ["kex", "hostkey"] + (["enc_c2s", "enc_s2c", "mac_c2s", "mac_s2c", "comp_c2s", "comp_s2c"]
                                      if role == "Client" else
                                      ["enc_s2c", "enc_c2s", "mac_s2c", "mac_c2s", "comp_s2c", "comp_c2s"])
    slot_type = ["kex", "keys", "ciphers", "ciphers", "macs", "macs", "compression", "compression"]
    for i in range(8):
        g = got[i]
        if g is not None and is_marker(g):
            ctx.fail("marker-selected", "a marker pseudo-algorithm was selected as %s" % slot_cat[i],
                     case=case, expected=want[i], observed=g)
        d = mcfg["disabled"][slot_type[i]]
        p = mcfg["prefs"][slot_type[i]]
        en = [n for n in p if n not in d]
        if slot_type[i] == "keys":
            en = en + [n + CERT for n in en]
        if g not in en:
            ctx.fail("disabled-selected-" + slot_type[i],
                     "the agreed %s algorithm is one the local side disabled (or never enabled)" % slot_cat[i],
                     case=case, expected=want[i], observed=g)
        if g != want[i]:
            key = "first-common-" + slot_cat[i]
            what = ("%s: agreed %r is not the first entry of the client's list that the server lists (%r)"
                    % (slot_cat[i], g, want[i]))
            if i == 0 and role == "Server" and not mcfg["moduli"] and want[i].startswith(GEX):
                key = "gex-advertised-without-moduli"
                what = ("server without a modulus pack lists %s in its KEXINIT but refuses to agree on it "
                        "(client computes %s, server %s)" % (want[i], want[i], g))
            ctx.fail(key, what, case=case, expected=want, observed=got)
    if role == "Server" and got[1] not in mcfg["server_keys"]:
        ctx.fail("server-key-missing", "server agreed on a host key algorithm it has no key for", case=case,
                 observed=got[1])


def tally_rankdiff(ctx, role, own, peer, outcome):
    """Evidence: how many cases rank >= 2 common algorithms differently, per role and category, and how
    many of those reach the category (negotiation succeeded, or failed no earlier)."""
    client, server = (own, peer) if role == "Client" else (peer, own)
    hit = []
    for i in range(8):
        if ranked_differently(client[i], server[i], kex=(i == 0)):
            k = "ranked-differently/%s/%s%s" % (role.lower(), CAT8[i], "" if outcome[0] == "ok" else "/not-reached")
            ctx.dist[k] = ctx.dist.get(k, 0) + 1
            if outcome[0] == "ok":
                hit.append(i)
    return hit


def run_single(ctx, st, role, cfg, peer_lists, kind, cases_adv, cases_neg, check_adv=True, peer_fn=None):
    """One direct-drive case.  peer_lists=None -> generated after seeing our own advertised lists."""
    t, socks = make_transport(st, role, cfg)
    try:
        mcfg = model_cfg(t, cfg)
        t._send_kex_init()
        own = read_own(t.local_kex_init)
        if peer_lists is None:
            peer_lists = peer_fn(own) if peer_fn is not None else gen_peer(ctx.rng, st, own)
        payload = build_kexinit(peer_lists)
        peer = read_lists(b"\x14" + payload)
        outcome = drive_parse(st, t, payload)
    finally:
        for s in socks:
            s.close()
    case = {"role": role, "cfg": cfg, "peer": peer_lists}
    nontrivial = outcome[0] == "ok" or any(peer)
    ctx.count((role, repr(sorted(cfg.items(), key=str)), peer_lists), nontrivial=nontrivial,
              kind="%s-%s-%s" % (kind, role.lower(), "ok" if outcome[0] == "ok" else outcome[1]))
    judge(ctx, case, role, mcfg, own, peer, outcome, cases_neg)
    if check_adv:
        cases_adv.append(("(CaseAdv %s %s %s)" % (role, coq_cfg(mcfg), coq_ki(own)), [1], case, own))
    return mcfg, own, outcome


def run_pair(ctx, st, cfg_c, cfg_s, cases_adv, cases_neg, kind="pair"):
    """Client and server transports parsing each other's real KEXINIT: both must agree."""
    tc, sc = make_transport(st, "Client", cfg_c)
    ts, ss = make_transport(st, "Server", cfg_s)
    try:
        mc, ms = model_cfg(tc, cfg_c), model_cfg(ts, cfg_s)
        tc._send_kex_init()
        ts._send_kex_init()
        own_c, own_s = read_own(tc.local_kex_init), read_own(ts.local_kex_init)
        out_c = drive_parse(st, tc, ts.local_kex_init[1:])
        out_s = drive_parse(st, ts, tc.local_kex_init[1:])
    finally:
        for s in sc + ss:
            s.close()
    case = {"pair": True, "client_cfg": cfg_c, "server_cfg": cfg_s}
    ctx.count(("pair", repr(cfg_c), repr(cfg_s)), nontrivial=True,
              kind="%s-%s" % (kind, "ok" if out_c[0] == "ok" else out_c[1]))
    tally_rankdiff(ctx, "Client", own_c, own_s, out_c)
    tally_rankdiff(ctx, "Server", own_s, own_c, out_s)
    check_property(ctx, dict(case, side="client"), "Client", mc, own_c, own_s, out_c)
    check_property(ctx, dict(case, side="server"), "Server", ms, own_s, own_c, out_s)
    agree = (out_c[0] == out_s[0] == "exc" and out_c[1] == out_s[1]) or (
        out_c[0] == out_s[0] == "ok" and out_c[1] == swap_lr(out_s[1]))
    if not agree:
        key = "peers-disagree"
        if (out_c[0] == "ok" and out_c[1][0].startswith(GEX) and not ms["moduli"]):
            key = "gex-advertised-without-moduli"
        ctx.fail(key, "client and server computed different agreements from each other's KEXINIT",
                 case=case, expected=out_c, observed=out_s)
    seen_c, seen_s = read_lists(ts.local_kex_init), read_lists(tc.local_kex_init)   # as parsed by the peer
    for role, m, own, peer, out in (("Client", mc, own_c, seen_c, out_c), ("Server", ms, own_s, seen_s, out_s)):
        cases_adv.append(("(CaseAdv %s %s %s)" % (role, coq_cfg(m), coq_ki(own)), [1], case, own))
        cases_neg.append(("(CaseNeg %s %s %s %s)" % (role, coq_cfg(m), coq_ki(peer), coq_outcome(out)), [1], case, out))
    return out_c, out_s


def swap_lr(lr):
    """[kex, hk, local, remote, ...] of one side as seen from the other side."""
    return [lr[0], lr[1], lr[3], lr[2], lr[5], lr[4], lr[7], lr[6]]


# ---------------------------------------------------------------------------------------------
# fail-iff grid: every category emptied x every agreed value of the other categories


BASE_KEYS = ["ssh-ed25519", "ecdsa-sha2-nistp256", "ecdsa-sha2-nistp384", "ecdsa-sha2-nistp521", "rsa-sha2-512",
             "rsa-sha2-256", "ssh-rsa"]


def grid_values(st, role, typ):
    t = list(st["tables"][typ])
    if typ == "keys" and role == "Server":
        t = [n for n in t if n in BASE_KEYS]          # what the five test host keys answer to
    return t


def grid_case(rng, st, role, typ, v, empty_cat):
    """Local state whose first choice of type `typ` is table entry v, and a peer KEXINIT that agrees on v
    there, is compatible everywhere else, except that category `empty_cat` (or None) has no common name."""
    prefs, peer = {}, [None] * 8
    for c in CATS:
        table = grid_values(st, role, c)
        if c == typ:
            rest = [n for n in table if n != v]
            prefs[c] = [v] + rng.sample(rest, min(len(rest), rng.randrange(1, 3)))
        else:
            prefs[c] = rng.sample(table, min(len(table), rng.randrange(2, 4)))
    for i, c in enumerate(CAT8_TYPE):
        own = prefs[c]
        if c == typ and i != empty_cat:
            peer[i] = [v] + [n for n in rng.sample(st["tables"][c], 2) if n != v][:1]
        else:
            peer[i] = rng.sample(own, rng.randrange(1, len(own) + 1)) + rng.sample(UNKNOWN[:1], rng.randrange(0, 2))
            rng.shuffle(peer[i])
    if empty_cat is not None:
        c = CAT8_TYPE[empty_cat]
        own = prefs[c] + [n + CERT for n in prefs[c]]
        foreign = [n for n in st["tables"][c] if n not in own]
        peer[empty_cat] = rng.choice([[], [UNKNOWN[0]], foreign[:3] or [UNKNOWN[4]], foreign[-2:] + [UNKNOWN[0]]])
    if rng.random() < 0.5:
        peer[0] = peer[0] + [rng.choice(MARKERS)]
    cfg = {"prefs": prefs, "disabled": {c: [] for c in CATS}, "skeys": sorted(st["keys"]) if role == "Server" else [],
           "moduli": True, "strict": True}
    return cfg, peer


def run_fail_grid(ctx, st, cases_adv, cases_neg, full):
    """For both roles: every table entry v of every algorithm type agreed (control), and with v agreed every
    one of the 8 categories emptied in turn -> IncompatiblePeer, whatever v is (AEAD ciphers, etm MACs,
    gss/gex kex, certificate key names, zlib included).  quick: each (role, category, value) once with the
    emptied category rotating over the other types' values; thorough (`full`): the whole product."""
    rng = ctx.rng
    for role in ("Client", "Server"):
        for typ in CATS:
            for vi, v in enumerate(grid_values(st, role, typ)):
                cats = list(range(8)) if full else [(vi + k) % 8 for k in (0, 3, 5)]
                # the MAC and compression categories come last in _parse_kex_init: always empty them too
                for e in [None] + sorted(set(cats + ([4, 5] if typ == "ciphers" else []))):
                    cfg, peer = grid_case(rng, st, role, typ, v, e)
                    kind = "grid-ok" if e is None else "grid-empty-" + CAT8[e]
                    _, own, outcome = run_single(ctx, st, role, cfg, peer, kind, cases_adv, cases_neg, check_adv=False)
                    k = "fail-grid/%s/%s=%s" % (role.lower(), typ, v)
                    ctx.dist[k] = ctx.dist.get(k, 0) + 1
                    if e is None:
                        if outcome[0] != "ok":
                            ctx.disagree("grid control case did not negotiate (generator problem?)",
                                         case={"role": role, "cfg": cfg, "peer": peer}, impl=outcome)
                    elif expected_from_messages(role, own, peer)[e] is not None:
                        ctx.disagree("grid case does not empty the intended category (generator problem)",
                                     case={"role": role, "cfg": cfg, "peer": peer, "empty": CAT8[e]})


def run_disjoint_pairs(ctx, st, cases_adv, cases_neg):
    """Two real transports, every cipher in turn agreed (AEAD ones included), whose MAC (then compression,
    then cipher s2c... ) lists are disjoint: both must raise IncompatiblePeer, neither may record an
    algorithm the other never offered."""
    allk = sorted(st["keys"])
    macs = st["tables"]["macs"]
    for ci, c in enumerate(st["tables"]["ciphers"]):
        h = len(macs) // 2
        rot = macs[ci % len(macs):] + macs[:ci % len(macs)]
        run_pair(ctx, st, plain_cfg(prefs={"ciphers": [c], "macs": rot[:h]}),
                 plain_cfg(allk, prefs={"ciphers": [c], "macs": rot[h:]}), cases_adv, cases_neg, "disjoint-macs")
        run_pair(ctx, st, plain_cfg(prefs={"ciphers": [c], "compression": ["zlib", "zlib@openssh.com"]}),
                 plain_cfg(allk, prefs={"ciphers": [c]}), cases_adv, cases_neg, "disjoint-compression")
        run_pair(ctx, st, plain_cfg(prefs={"ciphers": [c], "macs": rot[:h]}),
                 plain_cfg(allk, prefs={"ciphers": [c], "macs": rot[h - 1:]}), cases_adv, cases_neg, "one-common-mac")


# ---------------------------------------------------------------------------------------------
# sequences on shared configuration objects / alternative entry points / caches


def spec_advertised(role, mcfg):
    """What a KEXINIT must list for a configuration: each configured preference list minus the
    configured disabled names, in order (kex: no group exchange for a server without moduli, then the
    markers; host keys: plus certificate variants, servers only what they hold a key for)."""
    def f(c):
        return [x for x in mcfg["prefs"][c] if x not in mcfg["disabled"][c]]
    kex = f("kex")
    if role == "Server" and not mcfg["moduli"]:
        kex = [k for k in kex if not k.startswith(GEX)]
    if role == "Client":
        kex = kex + ["ext-info-c"]
    if mcfg["strict"]:
        kex = kex + ["kex-strict-%s-v00@openssh.com" % ("s" if role == "Server" else "c")]
    keys = f("keys")
    keys = keys + [k + CERT for k in keys]
    if role == "Server":
        keys = [k for k in keys if k in mcfg["server_keys"]]
    return [kex, keys, f("ciphers"), f("ciphers"), f("macs"), f("macs"), f("compression"), f("compression")]


class _Abort(Exception):
    pass


def apply_op(st, t, op):
    """One configuration step through a public entry point (or a read that may fill a cache)."""
    if op[0] == "read":
        for c in (CATS if op[1] == "all" else [op[1]]):
            getattr(t, "preferred_" + c)
        if op[1] in ("all", "keys"):
            t.preferred_pubkeys
    elif op[0] == "use_compression":
        t.use_compression(op[1])
    elif op[0] == "secopt":
        attr = {"kex": "kex", "keys": "key_types", "ciphers": "ciphers", "macs": "digests",
                "compression": "compression"}[op[1]]
        setattr(t.get_security_options(), attr, list(op[2]))
    elif op[0] == "connect_hostkey":
        # Transport.connect(hostkey=...) up to the point where it would start the handshake
        def stop(*a, **k):
            raise _Abort()
        t.start_client = stop
        try:
            t.connect(hostkey=st["keys"][op[1]])
        except _Abort:
            pass
        finally:
            del t.start_client


def gen_ops(rng, role, st):
    ops = []
    if rng.random() < 0.6:
        ops.append(["read", "all"])
    for _ in range(rng.randrange(0, 4)):
        r = rng.random()
        if r < 0.3:
            ops.append(["read", rng.choice(CATS + ["all"])])
        elif r < 0.55:
            ops.append(["use_compression", rng.random() < 0.7])
        elif r < 0.8:
            c = rng.choice(CATS)
            pool = [n for n in st["tables"][c] if not n.startswith("gss-")]
            if c == "keys" and role == "Server":
                continue
            ops.append(["secopt", c, rng.sample(pool, rng.randrange(2, min(len(pool), 6) + 1))])
        elif role == "Client":
            ops.append(["connect_hostkey", rng.choice(sorted(st["keys"]))])
        if rng.random() < 0.5:
            ops.append(["read", rng.choice(CATS + ["all"])])
    return ops


def gen_seq_case(rng, st):
    from paramiko import Transport
    role = "Client" if rng.random() < 0.5 else "Server"
    cfg = gen_rankdiff_cfg(rng, role, st, rng.randrange(8))
    cfg["moduli"] = rng.random() < 0.6
    # the caller-owned dict: sometimes with every key present (even empty lists), never empty
    dis = {c: v for c, v in cfg["disabled"].items() if v or rng.random() < 0.5}
    if not dis:
        dis = {rng.choice(CATS): []}
    warm = None
    if rng.random() < 0.6:
        warm = {"role": rng.choice(["Server", "Server", "Client"]), "moduli": rng.random() < 0.3,
                "parse": rng.random() < 0.5}
    return {"seq": True, "role": role, "cfg": cfg, "dis": dis, "warmup": warm, "ops": gen_ops(rng, role, st),
            "rekey": rng.random() < 0.3, "peer": None, "peer2": None}


def run_sequence(ctx, st, case, cases_adv, cases_neg):
    """Several transports from one disabled_algorithms dict, configuration through alternative entry
    points with cache-filling reads in between, optional second negotiation on the same object; the
    KEXINIT must be the one of the FINAL configuration (spec_advertised + model `advertised`)."""
    import copy
    role, cfg = case["role"], case["cfg"]
    dis = copy.deepcopy(case["dis"])          # the object the 'caller' owns and hands to every transport
    dis0 = copy.deepcopy(dis)
    cfg = dict(cfg, disabled={c: list(dis0.get(c, [])) for c in CATS})
    socks = []
    try:
        w = case.get("warmup")
        if w:
            wcfg = plain_cfg(sorted(st["keys"]) if w["role"] == "Server" else [], moduli=w["moduli"])
            tw, sw = make_transport(st, w["role"], wcfg, dis=dis)
            socks += list(sw)
            tw._send_kex_init()
            if w["parse"]:
                drive_parse(st, tw, build_kexinit(gen_peer(ctx.rng, st, read_own(tw.local_kex_init), benign=True)))
        t, s2 = make_transport(st, role, cfg, dis=dis)
        socks += list(s2)
        for op in case["ops"]:
            apply_op(st, t, op)
        mcfg = model_cfg(t, cfg)
        rounds = []
        for rnd, pk in ((0, "peer"), (1, "peer2")):
            if rnd == 1 and not case.get("rekey"):
                break
            t._send_kex_init()
            own = read_own(t.local_kex_init)
            if case.get(pk) is None:
                case[pk] = gen_peer(ctx.rng, st, own, benign=ctx.rng.random() < 0.7)
            payload = build_kexinit(case[pk])
            rounds.append((own, read_lists(b"\x14" + payload), drive_parse(st, t, payload)))
    finally:
        for x in socks:
            x.close()
    kind = "seq%s%s%s" % ("-shared-dict" if case.get("warmup") else "", "-ops" if case["ops"] else "",
                          "-rekey" if case.get("rekey") else "")
    ctx.count(("seq", repr(case)), nontrivial=True, kind="%s-%s" % (kind, role.lower()))
    for op in case["ops"]:
        k = "seq-op/" + op[0]
        ctx.dist[k] = ctx.dist.get(k, 0) + 1
    if dis != dis0:
        ctx.fail("caller-dict-mutated", "the caller's disabled_algorithms dict was modified by a transport built "
                 "from it (every later transport sharing it is affected)", case=case, expected=dis0, observed=dis)
    want = spec_advertised(role, mcfg)
    for n, (own, peer, outcome) in enumerate(rounds):
        if own != want:
            bad = [CAT8[i] for i in range(8) if own[i] != want[i]]
            ctx.fail("advertised-not-configured-" + CAT8_TYPE[CAT8.index(bad[0])],
                     "KEXINIT #%d does not list the configured %s algorithms (final preference list minus the "
                     "configured disabled_algorithms) after the sequence %s%s"
                     % (n + 1, bad[0], case["ops"], " with a shared disabled_algorithms dict" if case.get("warmup") else ""),
                     case=case, expected=want, observed=own)
        judge(ctx, case, role, mcfg, own, peer, outcome, cases_neg)
        cases_adv.append(("(CaseAdv %s %s %s)" % (role, coq_cfg(mcfg), coq_ki(own)), [1], case, own))


def seq_targeted(ctx, st, cases_adv, cases_neg):
    """Fixed sequences: shared dict after a no-moduli server; read-then-reconfigure for every entry point."""
    from paramiko import Transport
    kex = list(Transport._preferred_kex)
    gex_first = [k for k in kex if k.startswith(GEX)] + [k for k in kex if not k.startswith(GEX)]
    allk = sorted(st["keys"])

    def case(role, ops, dis, warm=None, rekey=False, prefs=None, moduli=True):
        return {"seq": True, "role": role, "cfg": plain_cfg(allk if role == "Server" else [], moduli=moduli, prefs=prefs),
                "dis": dis, "warmup": warm, "ops": ops, "rekey": rekey, "peer": None, "peer2": None}
    warm = {"role": "Server", "moduli": False, "parse": True}
    some = {"ciphers": ["3des-cbc"]}
    for role in ("Client", "Server"):
        run_sequence(ctx, st, case(role, [], dict(some), warm, prefs={"kex": gex_first}), cases_adv, cases_neg)
        run_sequence(ctx, st, case(role, [], {"kex": [kex[0]]}, warm, rekey=True), cases_adv, cases_neg)
        for first in ([["read", "all"]], [["read", "compression"], ["read", "keys"]], []):
            for flag in (True, False):
                run_sequence(ctx, st, case(role, first + [["use_compression", flag]], dict(some)), cases_adv, cases_neg)
                run_sequence(ctx, st, case(role, first + [["use_compression", flag], ["read", "all"],
                                                          ["use_compression", not flag]], dict(some), rekey=True),
                             cases_adv, cases_neg)
            for c in CATS:
                if c == "keys" and role == "Server":
                    continue
                pool = [n for n in st["tables"][c] if not n.startswith("gss-")]
                run_sequence(ctx, st, case(role, first + [["secopt", c, pool[::-1][:4]]], dict(some)), cases_adv, cases_neg)
        # no-moduli server negotiating twice on the same object
        run_sequence(ctx, st, case(role, [["read", "kex"]], dict(some), rekey=True, moduli=False), cases_adv, cases_neg)
    for k in allk:
        for first in ([["read", "all"]], [["read", "keys"]], []):
            run_sequence(ctx, st, case("Client", first + [["connect_hostkey", k]], dict(some)), cases_adv, cases_neg)


# ---------------------------------------------------------------------------------------------
# real loopback handshakes


def handshake(ctx, st, cfg_c, cfg_s):
    from paramiko import ServerInterface
    from paramiko.ssh_exception import SSHException
    from _loop import LoopSocket
    a, b = LoopSocket(), LoopSocket()
    a.link(b)
    R = st["Recording"]
    tc = R(a, disabled_algorithms={c: v for c, v in cfg_c["disabled"].items() if v}, strict_kex=cfg_c["strict"])
    ts = R(b, disabled_algorithms={c: v for c, v in cfg_s["disabled"].items() if v}, strict_kex=cfg_s["strict"])
    for k in cfg_s["skeys"]:
        ts.add_server_key(st["keys"][k])
    res = {}
    try:
        ts.start_server(threading.Event(), ServerInterface())

        def client():
            try:
                tc.start_client(timeout=15)
                return "ok"
            except SSHException as e:
                return type(e).__name__ + ": " + str(e)[:80]
            except EOFError:
                return "EOFError"

        st_, v = with_watchdog(client, 30)
        res["client"] = v if st_ == "ok" else st_ + ":" + repr(v)
        if res["client"] == "ok":
            res["c"] = [tc.seen_kex, tc.host_key_type, tc.local_cipher, tc.remote_cipher, tc.local_mac,
                        tc.remote_mac, tc.local_compression, tc.remote_compression]
            res["s"] = [ts.seen_kex, ts.host_key_type, ts.remote_cipher, ts.local_cipher, ts.remote_mac,
                        ts.local_mac, ts.remote_compression, ts.local_compression]
        else:
            e = ts.get_exception()
            res["server_exc"] = type(e).__name__ if e is not None else None
        res["own_c"] = read_own(tc.local_kex_init) if tc.local_kex_init else None
        res["own_s"] = read_own(ts.local_kex_init) if ts.local_kex_init else None
    finally:
        tc.close()
        ts.close()
    return res


def gen_handshake_cfg(rng, role, st):
    from paramiko import Transport
    dis = {}
    for c in CATS:
        base = list(getattr(Transport, "_preferred_" + c))
        if c == "kex":
            # keep handshakes fast: group16 costs 140 ms
            base_d = [k for k in base if "group16" in k]
        else:
            base_d = []
        k = rng.randrange(0, len(base))
        d = base[:k] if rng.random() < 0.6 else rng.sample(base, k)
        if rng.random() < 0.08:
            d = list(base)
        dis[c] = sorted(set(d + base_d), key=base.index)
    names = sorted(st["keys"])
    skeys = rng.sample(names, rng.randrange(1, len(names) + 1)) if role == "Server" else []
    return {"prefs": {c: None for c in CATS}, "disabled": dis, "skeys": skeys, "moduli": False,
            "strict": rng.random() < 0.8}


def run_handshakes(ctx, st, n):
    rng = ctx.rng
    for _ in range(n):
        cfg_c, cfg_s = gen_handshake_cfg(rng, "Client", st), gen_handshake_cfg(rng, "Server", st)
        check_handshake(ctx, st, cfg_c, cfg_s)


def check_handshake(ctx, st, cfg_c, cfg_s, kind="handshake"):
    res = handshake(ctx, st, cfg_c, cfg_s)
    case = {"handshake": True, "client_cfg": cfg_c, "server_cfg": cfg_s}
    ok = res["client"] == "ok"
    ctx.count(("hs", repr(cfg_c), repr(cfg_s)), nontrivial=True, kind="%s-%s" % (kind, "ok" if ok else "fail"))
    exp = None
    if res.get("own_c") and res.get("own_s"):
        exp = expected_from_messages("Client", res["own_c"], res["own_s"])
    if ok:
        c, s = res["c"], res["s"]
        if c != s:
            ctx.fail("peers-disagree", "after a real handshake client and server hold different algorithms",
                     case=case, expected=[str(x) for x in c], observed=[str(x) for x in s])
        if exp is not None:
            if None in exp:
                ctx.fail("fail-iff", "handshake succeeded although a category has no common algorithm",
                         case=case, expected=exp, observed=[str(x) for x in c])
            else:
                want = to_local_remote("Client", exp)
                names = st["cls2name"].get(c[0], ["?"])
                gotl = [names[0]] + c[1:]
                if gotl != want:
                    ctx.fail("first-common-handshake", "handshake result is not the client's first common choice",
                             case=case, expected=want, observed=gotl)
    else:
        if exp is not None and None not in exp:
            key = "handshake-failed"
            if exp[0].startswith(GEX):
                key = "gex-advertised-without-moduli"
            ctx.fail(key, "real handshake failed (%s / server %s) although every category has a common "
                     "algorithm (kex by the exchanged lists: %s)" % (res["client"], res.get("server_exc"), exp[0]),
                     case=case, expected=to_local_remote("Client", exp), observed=res["client"])
    return res


# ---------------------------------------------------------------------------------------------


def flush_model(ctx, cases_adv, cases_neg):
    imports = "From Coq Require Import ZArith List. Import ListNotations. From PV Require Import C05_gen C05."
    allc = [("adv",) + x for x in cases_adv] + [("neg",) + x for x in cases_neg]
    bad = ctx.model_mismatches("run_case", "ccase", [(c, e) for _, c, e, _, _ in allc], imports=imports, shard=400)
    nadv = nneg = 0
    for i in bad:
        k, _, _, case, impl = allc[i]
        if k == "adv" and nadv < 3:
            nadv += 1
            ctx.disagree("_send_kex_init advertised lists differ from model `advertised`", case=case, impl=impl)
        elif k == "neg" and nneg < 3:
            nneg += 1
            ctx.disagree("_parse_kex_init outcome differs from model `negotiate`", case=case, impl=impl)
    if cases_neg:
        ctx.sample({"negotiate": {"case": cases_neg[0][2], "impl": cases_neg[0][3]}})
    if len(cases_neg) > 7:
        ctx.sample({"negotiate": {"case": cases_neg[7][2], "impl": cases_neg[7][3]}})


def safe_flush(ctx, cases_adv, cases_neg):
    try:
        flush_model(ctx, cases_adv, cases_neg)
    except Exception as e:  # noqa  - a model/translator failure must not stop the oracle
        ctx.corr_broken.append("model evaluation failed: %r" % (str(e)[-600:],))


def plain_cfg(skeys=(), moduli=False, strict=True, prefs=None, disabled=None):
    p = {c: None for c in CATS}
    p.update(prefs or {})
    d = {c: [] for c in CATS}
    d.update(disabled or {})
    return {"prefs": p, "disabled": d, "skeys": list(skeys), "moduli": moduli, "strict": strict}


def targeted(ctx, st, cases_adv, cases_neg):
    """Fixed cases that are always run (the corpus of this property)."""
    from paramiko import Transport
    allk = sorted(st["keys"])
    kex = list(Transport._preferred_kex)
    gex = [k for k in kex if k.startswith(GEX)]
    nongex = [k for k in kex if not k.startswith(GEX)]
    # 1. client that prefers group exchange vs. server without moduli (defect found by this property)
    run_pair(ctx, st, plain_cfg(prefs={"kex": gex + nongex}), plain_cfg(allk), cases_adv, cases_neg, "gex")
    run_pair(ctx, st, plain_cfg(prefs={"kex": gex + nongex}), plain_cfg(allk, moduli=True), cases_adv, cases_neg, "gex")
    run_pair(ctx, st, plain_cfg(prefs={"kex": gex}), plain_cfg(allk), cases_adv, cases_neg, "gex")
    dflt = [list(Transport._preferred_keys), list(Transport._preferred_ciphers), list(Transport._preferred_ciphers),
            list(Transport._preferred_macs), list(Transport._preferred_macs), ["none"], ["none"]]
    for role in ("Client", "Server"):
        sk = allk if role == "Server" else []
        # 2. markers in every position, several of them, also only markers
        for kl in ([MARKERS[0]] + kex[::-1] + [MARKERS[2]], kex[:2] + MARKERS + kex[2:], list(MARKERS),
                   [MARKERS[3], kex[-1], MARKERS[1], MARKERS[0], kex[0], MARKERS[2]], ["ext-info-", kex[1]],
                   [kex[3], "kex-strict-"]):
            run_single(ctx, st, role, plain_cfg(sk), [kl] + dflt, "marker", cases_adv, cases_neg)
        # 2b. the local kex tuple itself names a marker and the peer lists that marker first
        for mk in MARKERS:
            run_single(ctx, st, role, plain_cfg(sk, moduli=True, prefs={"kex": [mk] + kex}), [[mk] + kex[::-1]] + dflt,
                       "marker-in-prefs", cases_adv, cases_neg)
            run_single(ctx, st, role, plain_cfg(sk, moduli=True, prefs={"kex": kex[:1] + [mk]}),
                       [[kex[-1], mk, kex[0]]] + dflt, "marker-in-prefs", cases_adv, cases_neg)
        # 2c. gss_kex=True: the gss methods lead the kex tuple; a peer listing them / not listing them
        gssk = list(Transport._preferred_gsskex)
        g = dict(plain_cfg(sk, moduli=True), gss=True)
        run_single(ctx, st, role, g, [kex[::-1] + gssk[::-1]] + dflt, "gss", cases_adv, cases_neg)
        run_single(ctx, st, role, dict(g, moduli=False), [gssk[1:] + kex] + dflt, "gss", cases_adv, cases_neg)
        run_single(ctx, st, role, g, [kex] + dflt, "gss", cases_adv, cases_neg)
        # 3. the peer's order differs from ours in every category
        rev = [kex[::-1]] + [l[::-1] for l in dflt]
        run_single(ctx, st, role, plain_cfg(sk), rev, "reversed", cases_adv, cases_neg)
        # 4. first preferences disabled locally, peer lists them first
        d = {"kex": kex[:3], "keys": list(Transport._preferred_keys[:2]), "ciphers": list(Transport._preferred_ciphers[:2]),
             "macs": list(Transport._preferred_macs[:2])}
        run_single(ctx, st, role, plain_cfg(sk, disabled=d), [kex] + dflt, "disabled", cases_adv, cases_neg)
        run_single(ctx, st, role, plain_cfg(sk, disabled=d), rev, "disabled", cases_adv, cases_neg)
        # 5. one empty category each
        for i in range(8):
            l = [kex] + [list(x) for x in dflt]
            l[i] = [UNKNOWN[0]]
            run_single(ctx, st, role, plain_cfg(sk), l, "empty-" + CAT8[i], cases_adv, cases_neg)


def run(ctx):
    st = setup(ctx)
    scale = 6 if ctx.thorough else 1
    ctx.rule = ("seeded generator (random.Random('C05-<seed>')): local state = role, per category class-default or "
                "random sub-ordering of the algorithm table (through SecurityOptions), random disabled_algorithms "
                "(often the first preferences; also everything, unknown and certificate names), random host-key "
                "sets, modulus pack present or not, strict_kex on/off; peer KEXINIT = random subsets/orderings of "
                "table names, names of our own list reordered, unknown names, duplicates, empty lists, 0-3 markers "
                "at random positions (also in non-kex lists), one sabotaged category in 30%; a dedicated stream per "
                "role and category with >= 2 common algorithms ranked differently by the two sides and the other "
                "categories compatible (counts: ranked-differently/<role>/<cat>); a grid agreeing on every table entry "
                "of every type (AEAD ciphers, etm MACs, gss/gex kex, cert key names, zlib) and, with that value "
                "agreed, emptying each of the 8 categories in turn (counts: fail-grid/<role>/<type>=<value>); peer "
                "KEXINITs are built and re-parsed at the byte level (not with paramiko's Message) and list near-miss "
                "twins of our own names (invalid UTF-8 bytes, spaces, BOM, NUL, case, prefix; counts near-miss/<cat>/"
                "<kind>); sequences: several transports built "
                "from one caller-owned disabled_algorithms dict (after a no-moduli server), configuration through "
                "use_compression / connect(hostkey=) / SecurityOptions with preferred_* reads in between, second "
                "negotiation on the same object - KEXINIT compared with the final configuration; plus paired real "
                "transports and real handshakes; a case is non-trivial when distinct and either negotiation "
                "succeeds or the peer lists something")
    ctx.trusted += ["model coq/Model/C05.v is hand-written; tied to paramiko/transport.py by the generated tuples/"
                    "tables (gen/c05.py) and this differential direct drive (vm_compute, no extraction)",
                    "gss_kex=True transports are built with a stub GSSAuth context; the strict-kex seqno check is outside "
                    "the model (cases use m.seqno = 0)"]
    ctx.assumptions += ["_negotiate_keys always runs _send_kex_init before _parse_kex_init (read, and exercised by "
                        "the handshakes)"]
    try:
        ctx.prove(GENS)
    except Exception as e:  # noqa  - the implementation-level oracle below must run regardless
        ctx.corr_broken.append("proof/translator step raised: %r" % (e,))
    if len([1 for v in st["cls2name"].values() if len(v) != 1]):
        ctx.notes.append("some kex classes serve several names; kex observable compared by class for those")
    cases_adv, cases_neg = [], []
    targeted(ctx, st, cases_adv, cases_neg)
    rng = ctx.rng
    for _ in range((250 if scale == 1 else 350 * scale)):
        role = "Client" if rng.random() < 0.5 else "Server"
        run_single(ctx, st, role, gen_cfg(rng, role, st), None, "random", cases_adv, cases_neg,
                   check_adv=rng.random() < 0.3)
    # every category, both roles: >= 2 common algorithms ranked differently by the two sides, with the
    # other categories compatible so that the category under test is reached (kinds rankdiff-<role>-<cat>-*)
    for role in ("Client", "Server"):
        for i in range(8):
            reached = 0
            for _ in range(40 * scale):
                if reached >= 8 * scale:
                    break
                before = ctx.dist.get("ranked-differently/%s/%s" % (role.lower(), CAT8[i]), 0)
                run_single(ctx, st, role, gen_rankdiff_cfg(rng, role, st, i), None,
                           "rankdiff-%s" % CAT8[i], cases_adv, cases_neg, check_adv=False,
                           peer_fn=rankdiff_peer(rng, st, i))
                reached += ctx.dist.get("ranked-differently/%s/%s" % (role.lower(), CAT8[i]), 0) - before
            if reached < 4:
                ctx.disagree("generator failed to produce >= 4 reached ranked-differently cases",
                             case={"role": role, "category": CAT8[i], "reached": reached})
    # fail-iff per emptied category x per agreed value of the other categories (AEAD ciphers included)
    run_fail_grid(ctx, st, cases_adv, cases_neg, full=ctx.thorough)
    run_disjoint_pairs(ctx, st, cases_adv, cases_neg)
    # near-miss names (invalid UTF-8, whitespace, BOM, NUL, case) are unknown names, in every category
    run_nearmiss(ctx, st, cases_adv, cases_neg, full=ctx.thorough)
    # second use / other entry points / caches: sequences on shared configuration objects
    seq_targeted(ctx, st, cases_adv, cases_neg)
    for _ in range(60 * scale):
        run_sequence(ctx, st, gen_seq_case(rng, st), cases_adv, cases_neg)
    for _ in range((70 if scale == 1 else 100 * scale)):
        run_pair(ctx, st, gen_cfg(rng, "Client", st), gen_cfg(rng, "Server", st), cases_adv, cases_neg)
    safe_flush(ctx, cases_adv, cases_neg)
    # real handshakes: the targeted group-exchange pair, then random disabled_algorithms on both sides
    from paramiko import Transport
    kex = list(Transport._preferred_kex)
    keep = [k for k in kex if k.startswith(GEX)] + ["diffie-hellman-group14-sha256"]
    check_handshake(ctx, st, plain_cfg(disabled={"kex": [k for k in kex if k not in keep]}),
                    plain_cfg(sorted(st["keys"])), kind="handshake-gex")
    run_handshakes(ctx, st, 120 if ctx.thorough else 8)


def replay(ctx, rep):
    st = setup(ctx)
    case = rep["case"]
    cases_adv, cases_neg = [], []
    if case.get("handshake"):
        check_handshake(ctx, st, case["client_cfg"], case["server_cfg"])
        ctx.count(("replay", repr(case)))
    elif case.get("seq"):
        run_sequence(ctx, st, case, cases_adv, cases_neg)
    elif case.get("pair"):
        run_pair(ctx, st, case["client_cfg"], case["server_cfg"], cases_adv, cases_neg)
        ctx.count(("replay", repr(case)))
    else:
        run_single(ctx, st, case["role"], case["cfg"], case["peer"], "replay", cases_adv, cases_neg)
        ctx.count(("replay", repr(case)))
    safe_flush(ctx, cases_adv, cases_neg)
