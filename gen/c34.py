"""C34 translator: paramiko/sftp_si.py of the working tree -> coq/Gen/C34_gen.v.

generate(repo) -> {"C34_gen.v": text}

Pinned by AST (fail-closed: any other shape raises and the check reports a broken obligation): the exact
statement sequence of SFTPServerInterface.canonicalize --
    if os.path.isabs(path): out = os.path.normpath(path)
    else:                   out = os.path.normpath(<sep> + path)
    if sys.platform == "win32": out = out.replace("\\", "/")      (win32 only; not taken on POSIX)
    return out
and that `os` / `sys` are the standard modules imported at module level and not re-bound.
Also pinned: the `t == CMD_REALPATH` branch of SFTPServer._process in sftp_server.py is exactly
    path = msg.get_text(); rpath = self.server.canonicalize(path); self._response(request_number, CMD_NAME, 1, rpath, "", SFTPAttributes())
(no memo / shared state between requests or sessions), and self.server is assigned once.
Emitted: G_SEP : Z -- the code point of the one-character separator literal prefixed to relative paths
(the model's SLASH), and G_WIN32_BRANCH_ONLY : bool := true recording that the only other statement is the
win32-guarded replacement.  posixpath.normpath itself is a library function: its Gallina model stays
hand-written and is tied by the exhaustive correspondence run.
"""
import ast
import os

EXPECTED = '''
def canonicalize(self, path):
    if os.path.isabs(path):
        out = os.path.normpath(path)
    else:
        out = os.path.normpath(SEP + path)
    if sys.platform == "win32":
        out = out.replace("\\\\", "/")
    return out
'''


class _Sep(ast.NodeTransformer):
    """Replace the string literal prefixed to the relative path by the name SEP, remembering it."""

    def __init__(self):
        self.seps = []

    def visit_BinOp(self, node):
        self.generic_visit(node)
        if isinstance(node.op, ast.Add) and isinstance(node.left, ast.Constant) and isinstance(node.left.value, str) \
                and isinstance(node.right, ast.Name) and node.right.id == "path":
            self.seps.append(node.left.value)
            node.left = ast.Name(id="SEP", ctx=ast.Load())
        return node


def _body_dump(fn):
    body = list(fn.body)
    if body and isinstance(body[0], ast.Expr) and isinstance(body[0].value, ast.Constant) \
            and isinstance(body[0].value.value, str):
        body = body[1:]
    return ast.dump(ast.Module(body=body, type_ignores=[]), include_attributes=False), ast.dump(fn.args)


def analyse(repo):
    src = open(os.path.join(repo, "paramiko", "sftp_si.py")).read()
    tree = ast.parse(src)
    classes = [n for n in tree.body if isinstance(n, ast.ClassDef) and n.name == "SFTPServerInterface"]
    if len(classes) != 1:
        raise RuntimeError("class SFTPServerInterface not found exactly once in sftp_si.py")
    fns = [n for n in classes[0].body if isinstance(n, ast.FunctionDef) and n.name == "canonicalize"]
    if len(fns) != 1 or fns[0].decorator_list:
        raise RuntimeError("SFTPServerInterface.canonicalize not found exactly once (undecorated)")
    tr = _Sep()
    fn = tr.visit(fns[0])
    want = ast.parse(EXPECTED).body[0]
    if _body_dump(fn) != _body_dump(want):
        a, b = _body_dump(fn)[0], _body_dump(want)[0]
        i = 0
        while i < min(len(a), len(b)) and a[i] == b[i]:
            i += 1
        raise RuntimeError("SFTPServerInterface.canonicalize has an unrecognised shape: ...%s <<< found | expected >>> ...%s"
                           % (a[max(0, i - 60):i + 100], b[max(0, i - 20):i + 100]))
    if len(tr.seps) != 1 or len(tr.seps[0]) != 1:
        raise RuntimeError("expected exactly one one-character separator literal prefixed to the relative path, got %r"
                           % (tr.seps,))
    # `os` and `sys` must be the plain module imports, and nothing in the module re-binds them or the method
    imported = set()
    for n in tree.body:
        if isinstance(n, ast.Import):
            for a in n.names:
                if a.asname is None:
                    imported.add(a.name)
    if not {"os", "sys"} <= imported:
        raise RuntimeError("sftp_si.py does not `import os` and `import sys` at module level")
    for n in ast.walk(tree):
        if isinstance(n, ast.Name) and isinstance(n.ctx, ast.Store) and n.id in ("os", "sys"):
            raise RuntimeError("sftp_si.py re-binds %s" % n.id)
        if isinstance(n, ast.Attribute) and isinstance(n.ctx, ast.Store) and \
                (n.attr == "canonicalize" or (isinstance(n.value, ast.Name) and n.value.id in ("os", "sys"))
                 or (isinstance(n.value, ast.Attribute) and n.value.attr == "path")):
            raise RuntimeError("sftp_si.py re-binds %s" % n.attr)
    return {"sep": ord(tr.seps[0])}


EXPECTED_REALPATH = '''
path = msg.get_text()
rpath = self.server.canonicalize(path)
self._response(request_number, CMD_NAME, 1, rpath, "", SFTPAttributes())
'''


def analyse_realpath(repo):
    """The CMD_REALPATH branch of SFTPServer._process answers with the session's own interface's
    canonicalize(path) and nothing else (no memo, no shared state)."""
    tree = ast.parse(open(os.path.join(repo, "paramiko", "sftp_server.py")).read())
    classes = [n for n in tree.body if isinstance(n, ast.ClassDef) and n.name == "SFTPServer"]
    if len(classes) != 1:
        raise RuntimeError("class SFTPServer not found exactly once in sftp_server.py")
    fns = [n for n in classes[0].body if isinstance(n, ast.FunctionDef) and n.name == "_process"]
    if len(fns) != 1:
        raise RuntimeError("SFTPServer._process not found exactly once")
    branches = []
    for n in ast.walk(fns[0]):
        if isinstance(n, ast.If) and isinstance(n.test, ast.Compare) and isinstance(n.test.left, ast.Name) \
                and n.test.left.id == "t" and len(n.test.ops) == 1 and isinstance(n.test.ops[0], ast.Eq) \
                and isinstance(n.test.comparators[0], ast.Name) and n.test.comparators[0].id == "CMD_REALPATH":
            branches.append(n.body)
    if len(branches) != 1:
        raise RuntimeError("expected exactly one `t == CMD_REALPATH` branch in SFTPServer._process, found %d"
                           % len(branches))
    got = ast.dump(ast.Module(body=branches[0], type_ignores=[]), include_attributes=False)
    want = ast.dump(ast.parse(EXPECTED_REALPATH), include_attributes=False)
    if got != want:
        i = 0
        while i < min(len(got), len(want)) and got[i] == want[i]:
            i += 1
        raise RuntimeError("the CMD_REALPATH branch of SFTPServer._process has an unrecognised shape: "
                           "...%s <<< found | expected >>> ...%s" % (got[max(0, i - 60):i + 120], want[max(0, i - 20):i + 100]))
    # self.server is assigned once, in __init__, from the sftp_si class handed to this session
    stores = [n for n in ast.walk(classes[0]) if isinstance(n, ast.Attribute) and isinstance(n.ctx, ast.Store)
              and n.attr == "server" and isinstance(n.value, ast.Name) and n.value.id == "self"]
    if len(stores) != 1:
        raise RuntimeError("SFTPServer assigns self.server %d times (expected once, in __init__)" % len(stores))
    return True


def generate(repo):
    analyse_realpath(repo)
    r = analyse(repo)
    text = ("(* GENERATED by gen/c34.py from paramiko/sftp_si.py -- do not edit. *)\n"
            "From Coq Require Import ZArith.\nOpen Scope Z_scope.\n\n"
            "(* the separator canonicalize prefixes to a relative path *)\n"
            "Definition G_SEP : Z := %d.\n"
            "(* canonicalize = isabs test, normpath on either branch, win32-only backslash replacement, return *)\n"
            "Definition G_WIN32_BRANCH_ONLY : bool := true.\n"
            "(* the CMD_REALPATH branch of SFTPServer._process replies self.server.canonicalize(path), nothing else *)\n"
            "Definition G_REALPATH_STATELESS : bool := true.\n" % r["sep"])
    return {"C34_gen.v": text}
