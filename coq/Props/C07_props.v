(* C07 -- signatures must use the negotiated or declared signature algorithm.
   Property statements only; every proof is `exact <lemma from Proofs/C07_proofs.v>`.

   [pv] (the cryptographic primitive: key id -> hash id -> data -> signature -> bool) is universally
   quantified: the theorems hold for every primitive, and say under WHICH hash it was consulted. *)
From PV Require Import Bytes C07_gen C07 C07_proofs.
Open Scope Z_scope.

(* Client.  If the host-key algorithm [neg] came out of the client's negotiation (preference list
   [d], disabled set [dis], server's offer [sl]) and _verify_key accepted the server's key and
   signature, then the signature names exactly the negotiated algorithm (cert suffix removed),
   that algorithm is one of the client's preference names and is not disabled, and the primitive
   accepted the signature under the hash belonging to that very name. *)
Theorem C07_client :
  forall (pv : Z -> Z -> list Z -> list Z -> bool) (d dis sl : list name) (neg : name)
         (b : keyblob) (H : list Z) (sg : sigblob) (key : pkey),
    names_plain d = true ->
    negotiate_hostkey d dis sl = Ok neg ->
    verify_key pv neg b H sg = Ok key ->
    s_alg sg = strip_cert neg /\ In (s_alg sg) d /\ ~ In (s_alg sg) dis /\
    exists h, sig_hash key (s_alg sg) = Some h /\ pv (pk_id key) h H (s_sig sg) = true.
Proof. exact client_accept. Qed.
Print Assumptions C07_client.

(* the comparison alone, for any negotiated name however it was obtained *)
Theorem C07_client_sig_alg :
  forall pv (neg : name) (b : keyblob) (H : list Z) (sg : sigblob) (key : pkey),
    verify_key pv neg b H sg = Ok key ->
    s_alg sg = strip_cert neg /\
    exists h, sig_hash key (s_alg sg) = Some h /\ pv (pk_id key) h H (s_sig sg) = true.
Proof. exact verify_key_ok. Qed.
Print Assumptions C07_client_sig_alg.

(* Server.  A public-key request whose signature was accepted: the signature names exactly the
   algorithm declared in the request (cert suffix removed), that name is in the server's
   preference list and not disabled, and the primitive accepted it under that name's hash. *)
Theorem C07_server :
  forall pv (d dis : list name) (decl : name) (b : keyblob) (cbf att : bool)
         (data : list Z) (sg : sigblob) (key : pkey),
    server_pubkey pv d dis decl b cbf att data sg = PkVerified key ->
    generate_key d dis decl b = Some key /\ cbf = false /\ att = true /\
    s_alg sg = strip_cert decl /\ In (s_alg sg) d /\ ~ In (s_alg sg) dis /\
    exists h, sig_hash key (s_alg sg) = Some h /\ pv (pk_id key) h data (s_sig sg) = true.
Proof. exact server_accept. Qed.
Print Assumptions C07_server.

(* a request declaring a disabled or unknown algorithm is answered by a disconnect: no callback,
   no signature check, no PK_OK *)
Theorem C07_server_disabled_disconnects :
  forall pv (d dis : list name) (decl : name) (b : keyblob) (cbf att : bool) (data : list Z) (sg : sigblob),
    (In (strip_cert decl) dis \/ ~ In (strip_cert decl) d) ->
    server_pubkey pv d dis decl b cbf att data sg = PkDisconnect.
Proof. exact server_disabled_disconnects. Qed.
Print Assumptions C07_server_disabled_disconnects.

(* SHA-1 cannot be substituted: with "ssh-rsa" disabled no RSA signature is accepted under SHA-1
   (hash id 1), on either side, for any preference list in which only "ssh-rsa" selects SHA-1 --
   true of the generated defaults, see the Examples *)
Theorem C07_client_no_sha1 :
  forall pv (d dis sl : list name) (neg : name) (b : keyblob) (H : list Z) (sg : sigblob) (key : pkey) (h : Z),
    names_plain d = true -> sha1_only_ssh_rsa d = true -> In n_ssh_rsa dis ->
    negotiate_hostkey d dis sl = Ok neg ->
    verify_key pv neg b H sg = Ok key ->
    pk_class key = KRSA -> sig_hash key (s_alg sg) = Some h -> h <> 1.
Proof. exact client_no_sha1. Qed.
Print Assumptions C07_client_no_sha1.

Theorem C07_server_no_sha1 :
  forall pv (d dis : list name) (decl : name) (b : keyblob) (cbf att : bool) (data : list Z)
         (sg : sigblob) (key : pkey) (h : Z),
    sha1_only_ssh_rsa d = true -> In n_ssh_rsa dis ->
    server_pubkey pv d dis decl b cbf att data sg = PkVerified key ->
    pk_class key = KRSA -> sig_hash key (s_alg sg) = Some h -> h <> 1.
Proof. exact server_no_sha1. Qed.
Print Assumptions C07_server_no_sha1.

(* an accepted ECDSA key lies on the curve the signature (hence the negotiated / declared
   algorithm) names *)
Theorem C07_ecdsa_curve :
  forall (k : pkey) (alg : name) (h : Z),
    pk_class k = KECDSA -> sig_hash k alg = Some h -> pk_ident k = alg.
Proof. exact ecdsa_curve_matches. Qed.
Print Assumptions C07_ecdsa_curve.

(* the negotiated host-key algorithm is the client's most preferred one among the server's *)
Theorem C07_negotiated_is_first_common :
  forall (d dis sl : list name) (x : name),
    negotiate_hostkey d dis sl = Ok x ->
    exists pre post, preferred_keys d dis = pre ++ x :: post /\ forall y, In y pre -> ~ In y sl.
Proof. exact negotiate_first. Qed.
Print Assumptions C07_negotiated_is_first_common.

(* ---- the code before fixes/C07-signature-algorithm-must-match.diff violated the property ---- *)
(* client: "ssh-rsa" disabled, rsa-sha2-512 negotiated, a signature naming ssh-rsa that is valid
   under SHA-1 only was accepted *)
Theorem C07_client_v0_refuted :
  exists dis sl neg sg key,
    negotiate_hostkey c07_pref_keys dis sl = Ok neg /\ In n_ssh_rsa dis /\
    neg = n_rsa512 /\
    verify_key_v0 pv_sha1 neg rsa_blob [] sg = Ok key /\
    s_alg sg = n_ssh_rsa /\ s_alg sg <> strip_cert neg /\ sig_hash key (s_alg sg) = Some 1.
Proof. exact client_v0_refuted. Qed.
Print Assumptions C07_client_v0_refuted.

Theorem C07_server_v0_refuted :
  exists dis decl sg key,
    In n_ssh_rsa dis /\ decl = n_rsa512 /\
    server_pubkey_v0 pv_sha1 c07_pref_pubkeys dis decl rsa_blob false true [] sg = PkVerified key /\
    s_alg sg = n_ssh_rsa /\ s_alg sg <> strip_cert decl /\ sig_hash key (s_alg sg) = Some 1.
Proof. exact server_v0_refuted. Qed.
Print Assumptions C07_server_v0_refuted.

(* server, ECDSA: declared nistp256, key and signature on the disabled curve nistp384 *)
Theorem C07_server_v0_curve_refuted :
  exists dis decl sg key,
    In n_p384 dis /\ decl = n_p256 /\
    server_pubkey_v0 (fun _ _ _ _ => true) c07_pref_pubkeys dis decl p384_blob false true [] sg
      = PkVerified key /\
    pk_ident key = n_p384 /\ s_alg sg <> strip_cert decl.
Proof. exact server_v0_curve_refuted. Qed.
Print Assumptions C07_server_v0_curve_refuted.

(* ---- non-vacuity ------------------------------------------------------------------------------ *)
(* the premises about preference lists hold for the tuples generated from the live class *)
Example C07_defaults_ok :
  names_plain c07_pref_keys = true /\ names_plain c07_pref_pubkeys = true /\
  sha1_only_ssh_rsa c07_pref_keys = true /\ sha1_only_ssh_rsa c07_pref_pubkeys = true.
Proof. repeat split; vm_compute; reflexivity. Qed.

(* an honest exchange is accepted: rsa-sha2-512 negotiated with ssh-rsa disabled, a cert host key,
   signature naming rsa-sha2-512 and valid under SHA-512 *)
Example C07_client_accepts_honest :
  let neg := n_rsa512 ++ c07_cert_suffix in
  negotiate_hostkey c07_pref_keys [n_ssh_rsa] [neg; n_ssh_rsa] = Ok neg /\
  verify_key (fun _ h _ _ => h =? 512) neg (MkBlob (n_ssh_rsa ++ c07_cert_suffix) (Ok 7)) [1; 2]
             (MkSig n_rsa512 [3]) = Ok (MkKey KRSA n_ssh_rsa 7).
Proof. split; vm_compute; reflexivity. Qed.

Example C07_server_accepts_honest :
  server_pubkey (fun _ h _ _ => h =? 256) c07_pref_pubkeys [n_ssh_rsa] n_rsa256 rsa_blob false true [1]
                (MkSig n_rsa256 [3]) = PkVerified (MkKey KRSA n_ssh_rsa 7).
Proof. vm_compute. reflexivity. Qed.

(* and the refutation witnesses are rejected by the repaired functions *)
Example C07_witnesses_now_rejected :
  verify_key pv_sha1 n_rsa512 rsa_blob [] (MkSig n_ssh_rsa []) = Raise SSHExc /\
  server_pubkey pv_sha1 c07_pref_pubkeys [n_ssh_rsa] n_rsa512 rsa_blob false true [] (MkSig n_ssh_rsa [])
  = PkSigRejected.
Proof. split; vm_compute; reflexivity. Qed.
