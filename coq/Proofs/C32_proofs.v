(* C32 — lemmas about the model of SFTPServer._check_file. *)
From Coq Require Import ZArith List Bool Lia ZifyBool.
From PV Require Import Bytes C32_gen C32.
Import ListNotations.
Open Scope Z_scope.

(* ---- slices --------------------------------------------------------------- *)
Lemma firstn_skipn_app {A} (a b : nat) (L : list A) :
  firstn a L ++ firstn b (skipn a L) = firstn (a + b) L.
Proof.
  revert L. induction a as [|a IH]; intros L; [reflexivity|].
  destruct L as [|x L]; [cbn; now rewrite firstn_nil|].
  cbn. now rewrite IH.
Qed.

Lemma skipn_add {A} (a b : nat) (L : list A) : skipn (a + b) L = skipn b (skipn a L).
Proof.
  revert L. induction a as [|a IH]; intros L; [reflexivity|].
  destruct L as [|x L]; [cbn; now rewrite skipn_nil|]. cbn. apply IH.
Qed.

Lemma slice_length file o n :
  0 <= o -> Z.of_nat (length (slice file o n)) = rdlen (Z.of_nat (length file)) o n.
Proof. intros Ho. unfold slice, rdlen. rewrite firstn_length, skipn_length. lia. Qed.

Lemma slice_app file o n m :
  0 <= o -> 0 <= n -> 0 <= m -> slice file o n ++ slice file (o + n) m = slice file o (n + m).
Proof.
  intros Ho Hn Hm. unfold slice.
  rewrite (Z2Nat.inj_add o n), (Z2Nat.inj_add n m) by lia.
  rewrite skipn_add. apply firstn_skipn_app.
Qed.

Lemma slice_clip file o n :
  0 <= o -> slice file o n = slice file o (rdlen (Z.of_nat (length file)) o n).
Proof.
  intros Ho. unfold slice, rdlen.
  destruct (Z.le_gt_cases n (Z.of_nat (length file) - o)) as [H|H].
  - destruct (Z.le_gt_cases 0 n) as [H0|H0].
    + f_equal. lia.
    + replace (Z.to_nat n) with 0%nat by lia.
      replace (Z.to_nat (Z.max 0 (Z.min n (Z.of_nat (length file) - o)))) with 0%nat by lia. reflexivity.
  - rewrite !firstn_all2; [reflexivity| |]; rewrite skipn_length; lia.
Qed.

Lemma slice_zero file o : slice file o 0 = [].
Proof. reflexivity. Qed.

Lemma ext_data_cons file r R : ext_data file (r :: R) = slice file (fst r) (snd r) ++ ext_data file R.
Proof. reflexivity. Qed.

(* ---- the specification's blocks --------------------------------------------- *)
Lemma spec_blocks_nil start stop bs : stop <= start -> spec_blocks start stop bs = [].
Proof.
  intros H. unfold spec_blocks, nblocks. destruct (stop <=? start) eqn:E; [reflexivity|lia].
Qed.

Lemma nblocks_nonneg start stop bs : 0 < bs -> 0 <= nblocks start stop bs.
Proof.
  intros Hbs. unfold nblocks. destruct (stop <=? start) eqn:E; [lia|].
  assert (0 <= (stop - start - 1) / bs) by (apply Z.div_pos; lia). lia.
Qed.

Lemma nblocks_step start stop bs :
  0 < bs -> start < stop -> nblocks start stop bs = 1 + nblocks (start + bs) stop bs.
Proof.
  intros Hbs Hlt. unfold nblocks.
  destruct (stop <=? start) eqn:E1; [lia|].
  destruct (stop <=? start + bs) eqn:E2.
  - rewrite Z.div_small by lia. lia.
  - replace (stop - start - 1) with ((stop - (start + bs) - 1) + 1 * bs) by lia.
    rewrite Z.div_add by lia. lia.
Qed.

Lemma block_ext_shift start stop bs i :
  block_ext start stop bs (S i) = block_ext (start + bs) stop bs i.
Proof. unfold block_ext. rewrite Nat2Z.inj_succ. f_equal; [lia|f_equal; lia]. Qed.

Lemma spec_blocks_cons start stop bs :
  0 < bs -> start < stop ->
  spec_blocks start stop bs = (start, Z.min bs (stop - start)) :: spec_blocks (start + bs) stop bs.
Proof.
  intros Hbs Hlt. unfold spec_blocks. rewrite (nblocks_step start stop bs Hbs Hlt).
  pose proof (nblocks_nonneg (start + bs) stop bs Hbs) as Hk.
  rewrite Z2Nat.inj_add by lia. change (Z.to_nat 1) with 1%nat. cbn [Nat.add seq map].
  f_equal.
  - unfold block_ext. cbn [Z.of_nat]. f_equal; [lia|f_equal; lia].
  - rewrite <- seq_shift, map_map. apply map_ext. intros i. apply block_ext_shift.
Qed.

Lemma flat_map_map {A B C} (f : B -> list C) (g : A -> B) (l : list A) :
  flat_map f (map g l) = flat_map (fun x => f (g x)) l.
Proof. induction l as [|x l IH]; [reflexivity|]. cbn. now rewrite IH. Qed.

(* one inner iteration uses up one chunk of the fuel measure ceil(m / chunk) *)
Lemma ceil_step chunk m :
  0 < chunk -> 0 < m ->
  (m - Z.min m chunk + chunk - 1) / chunk = (m + chunk - 1) / chunk - 1 /\
  0 <= (m - Z.min m chunk + chunk - 1) / chunk.
Proof.
  intros Hc Hm. split.
  - destruct (Z.lt_ge_cases m chunk) as [H|H].
    + rewrite Z.min_l by lia. replace (m - m + chunk - 1) with (chunk - 1) by lia.
      rewrite Z.div_small by lia.
      replace (m + chunk - 1) with ((m - 1) + 1 * chunk) by lia.
      rewrite Z.div_add by lia. rewrite Z.div_small by lia. lia.
    + rewrite Z.min_r by lia.
      replace (m + chunk - 1) with ((m - chunk + chunk - 1) + 1 * chunk) by lia.
      rewrite Z.div_add by lia. lia.
  - apply Z.div_pos; lia.
Qed.

(* ---- the loops ------------------------------------------------------------------ *)
Definition read_ok (chunk : Z) (r : read) : Prop := 0 < snd r <= chunk.

Section WithFile.
  Variable chunk : Z.
  Variable file : list Z.
  Let size := Z.of_nat (length file).
  Hypothesis Hchunk : 0 < chunk.

  (* the inner loop feeds the hash object exactly the next min(blocklen - count, bytes left)
     bytes of the file, in reads of at most `chunk` bytes, and reports end of file iff the
     block was cut short *)
  Lemma inner_ok : forall fuel blocklen count offset reads,
    0 <= offset -> 0 <= count <= blocklen ->
    (Z.to_nat ((Z.min (blocklen - count) (Z.max 0 (size - offset)) + chunk - 1) / chunk) < fuel)%nat ->
    exists R,
      inner chunk size fuel blocklen count offset reads
        = Some (reads ++ R,
                count + Z.min (blocklen - count) (Z.max 0 (size - offset)),
                offset + Z.min (blocklen - count) (Z.max 0 (size - offset)),
                (count + Z.min (blocklen - count) (Z.max 0 (size - offset)) <? blocklen)) /\
      ext_data file R = slice file offset (Z.min (blocklen - count) (Z.max 0 (size - offset))) /\
      Forall (read_ok chunk) R.
  Proof.
    induction fuel as [|f IH]; intros blocklen count offset reads Ho Hc Hf.
    - lia.
    - cbn [inner]. destruct (count <? blocklen) eqn:Ecb.
      + set (chunklen := Z.min (blocklen - count) chunk).
        set (n := rdlen size offset chunklen).
        assert (Hcl : 0 < chunklen <= chunk) by (unfold chunklen; lia).
        assert (Hn : n = Z.min chunklen (Z.max 0 (size - offset))) by (unfold n, rdlen; lia).
        destruct (n =? 0) eqn:En.
        * (* end of file *)
          assert (Hm : Z.min (blocklen - count) (Z.max 0 (size - offset)) = 0) by lia.
          rewrite Hm. exists [(offset, chunklen)]. split; [|split].
          -- rewrite !Z.add_0_r, Ecb. reflexivity.
          -- rewrite ext_data_cons. cbn [fst snd ext_data flat_map]. rewrite app_nil_r.
             apply length_zero_iff_nil.
             pose proof (slice_length file offset chunklen Ho) as HL. fold size in HL. fold n in HL. lia.
          -- constructor; [exact Hcl|constructor].
        * assert (Hpos : 0 < n) by lia.
          assert (Hm : Z.min (blocklen - count) (Z.max 0 (size - offset))
                       = n + Z.min (blocklen - (count + n)) (Z.max 0 (size - (offset + n)))) by lia.
          assert (Hfuel : (Z.to_nat ((Z.min (blocklen - (count + n)) (Z.max 0 (size - (offset + n)))
                                      + chunk - 1) / chunk) < f)%nat).
          { pose proof (ceil_step chunk (Z.min (blocklen - count) (Z.max 0 (size - offset))) Hchunk) as Hs.
            replace (Z.min (blocklen - (count + n)) (Z.max 0 (size - (offset + n))))
              with (Z.min (blocklen - count) (Z.max 0 (size - offset))
                    - Z.min (Z.min (blocklen - count) (Z.max 0 (size - offset))) chunk) by lia.
            specialize (Hs ltac:(lia)). destruct Hs as [Hs1 Hs2].
            revert Hf Hs1 Hs2.
            generalize ((Z.min (blocklen - count) (Z.max 0 (size - offset)) + chunk - 1) / chunk).
            generalize ((Z.min (blocklen - count) (Z.max 0 (size - offset))
                         - Z.min (Z.min (blocklen - count) (Z.max 0 (size - offset))) chunk + chunk - 1) / chunk).
            intros; lia. }
          destruct (IH blocklen (count + n) (offset + n) (reads ++ [(offset, chunklen)]))
            as (R' & HR & HD & HF); [lia|lia|exact Hfuel|].
          exists ((offset, chunklen) :: R'). split; [|split].
          -- rewrite HR. rewrite <- app_assoc. cbn [app]. rewrite Hm, !Z.add_assoc. reflexivity.
          -- rewrite ext_data_cons, HD. cbn [fst snd].
             rewrite (slice_clip file offset chunklen Ho). fold size. fold n.
             rewrite slice_app by lia. now rewrite <- Hm.
          -- constructor; [exact Hcl|exact HF].
      + assert (Hm : Z.min (blocklen - count) (Z.max 0 (size - offset)) = 0) by lia.
        rewrite Hm. exists []. split; [|split].
        * rewrite app_nil_r, !Z.add_0_r, Ecb. reflexivity.
        * reflexivity.
        * constructor.
  Qed.

  (* the outer loop emits one digest per block of the specification, over exactly that
     block's bytes, the range ending at min(stop, size) *)
  Lemma outer_ok : forall fuel stop bs offset out,
    0 <= offset -> 256 <= bs ->
    (Z.to_nat ((Z.max 0 (Z.min stop size - offset) + 255) / 256) < fuel)%nat ->
    exists T,
      outer chunk size fuel stop bs offset out = Some (out ++ T) /\
      map (ext_data file) T
        = map (fun b => slice file (fst b) (snd b)) (spec_blocks offset (Z.min stop size) bs) /\
      Forall (Forall (read_ok chunk)) T.
  Proof.
    induction fuel as [|f IH]; intros stop bs offset out Ho Hbs256 Hf;
      assert (Hbs : 0 < bs) by lia.
    - lia.
    - cbn [outer]. destruct (offset <? stop) eqn:Eos.
      + set (blocklen := Z.min bs (stop - offset)).
        assert (Hbl : 0 < blocklen) by (unfold blocklen; lia).
        destruct (inner_ok (inner_fuel chunk size blocklen offset) blocklen 0 offset [] Ho)
          as (R & HR & HD & HF); [lia| |].
        { unfold inner_fuel. replace (blocklen - 0) with blocklen by lia. lia. }
        rewrite HR. cbn [app].
        set (m := Z.min (blocklen - 0) (Z.max 0 (size - offset))) in *.
        destruct (0 <? 0 + m) eqn:Em.
        * (* a digest is emitted *)
          assert (Hlt : offset < Z.min stop size) by lia.
          assert (Hmb : m = Z.min bs (Z.min stop size - offset)) by (unfold m, blocklen; lia).
          rewrite (spec_blocks_cons offset (Z.min stop size) bs Hbs Hlt). cbn [map fst snd].
          destruct (0 + m <? blocklen) eqn:Eeof.
          -- (* cut short by end of file: last block *)
             exists [R]. split; [reflexivity|split].
             ++ rewrite spec_blocks_nil by (unfold m, blocklen in *; lia).
                cbn [map]. rewrite HD, Hmb. reflexivity.
             ++ constructor; [exact HF|constructor].
          -- destruct (IH stop bs (offset + m) (out ++ [R])) as (T' & HT & HM & HFT); [lia|lia| |].
             { unfold m, blocklen in *. clear HR HD HF IH. Z.to_euclidean_division_equations. lia. }
             exists (R :: T'). split; [|split].
             ++ rewrite HT, <- app_assoc. reflexivity.
             ++ cbn [map]. rewrite HD, HM, Hmb. f_equal.
                destruct (Z.eq_dec m bs) as [Eb|Eb].
                ** rewrite <- Hmb, Eb. reflexivity.
                ** rewrite <- Hmb.
                   rewrite (spec_blocks_nil (offset + m)) by (unfold m, blocklen in *; lia).
                   rewrite (spec_blocks_nil (offset + bs)) by (unfold m, blocklen in *; lia).
                   reflexivity.
             ++ constructor; [exact HF|exact HFT].
        * (* at or past end of file: nothing more *)
          assert (Hm0 : m = 0) by lia.
          assert (Heof : (0 + m <? blocklen) = true) by lia. rewrite Heof.
          exists []. split; [now rewrite app_nil_r|split].
          -- rewrite spec_blocks_nil by (unfold m, blocklen in *; lia). reflexivity.
          -- constructor.
      + exists []. split; [now rewrite app_nil_r|split].
        * rewrite spec_blocks_nil by lia. reflexivity.
        * constructor.
  Qed.
End WithFile.

(* ---- _check_file ------------------------------------------------------------------ *)
Lemma trace_ok chunk file start length bs :
  0 < chunk -> 0 <= start ->
  let size := Z.of_nat (List.length file) in
  256 <= eff_bs size start length bs ->
  exists T,
    check_trace chunk size start length bs = Digests T /\
    map (ext_data file) T
      = map (fun b => slice file (fst b) (snd b))
            (spec_blocks start (range_stop size start length) (eff_bs size start length bs)) /\
    Forall (Forall (read_ok chunk)) T.
Proof.
  intros Hc Hs size Hbs. unfold check_trace. fold size. change MIN_BLOCK with 256.
  destruct (eff_bs size start length bs <? 256) eqn:E; [lia|].
  destruct (outer_ok chunk file Hc (outer_fuel size (start + eff_length size start length) start)
                     (start + eff_length size start length) (eff_bs size start length bs) start [] Hs)
    as (T & HT & HM & HF); [lia|unfold outer_fuel; fold size; lia|].
  fold size in HT, HM. rewrite HT. cbn [app]. exists T. split; [reflexivity|split; [exact HM|exact HF]].
Qed.

Lemma digests hash chunk file start length bs :
  0 < chunk -> 0 <= start ->
  256 <= eff_bs (Z.of_nat (List.length file)) start length bs ->
  check_file hash chunk file start length bs = Sums (spec_sums hash file start length bs).
Proof.
  intros Hc Hs Hbs. destruct (trace_ok chunk file start length bs Hc Hs Hbs) as (T & HT & HM & _).
  unfold check_file, spec_sums. rewrite HT. f_equal.
  rewrite <- (flat_map_map hash (ext_data file) T), HM, flat_map_map. reflexivity.
Qed.

Lemma small_block_rejected hash chunk file start length bs :
  eff_bs (Z.of_nat (List.length file)) start length bs < 256 ->
  check_file hash chunk file start length bs = Fail SFTP_FAILURE.
Proof.
  intros H. unfold check_file, check_trace. change MIN_BLOCK with 256.
  destruct (eff_bs (Z.of_nat (List.length file)) start length bs <? 256) eqn:E; [reflexivity|lia].
Qed.

Lemma terminates hash chunk file start length bs :
  0 < chunk -> 0 <= start -> check_file hash chunk file start length bs <> Diverges.
Proof.
  intros Hc Hs.
  destruct (Z.lt_ge_cases (eff_bs (Z.of_nat (List.length file)) start length bs) 256) as [H|H].
  - rewrite small_block_rejected by exact H. discriminate.
  - rewrite digests by assumption. discriminate.
Qed.

(* the digest count and size of the answer, for a hash of fixed output length *)
Lemma sums_length hash dlen file start length bs :
  (forall x, List.length (hash x) = dlen) ->
  List.length (spec_sums hash file start length bs)
  = (Z.to_nat (nblocks start (range_stop (Z.of_nat (List.length file)) start length)
                       (eff_bs (Z.of_nat (List.length file)) start length bs)) * dlen)%nat.
Proof.
  intros Hh. unfold spec_sums, spec_blocks.
  set (k := Z.to_nat _). generalize 0%nat. induction k as [|k IH]; intros s; [reflexivity|].
  cbn [seq map flat_map]. rewrite app_length, Hh, IH. reflexivity.
Qed.

(* whole-file hash: offset 0, length 0, block size 0, file of at least 256 bytes *)
Lemma whole_file hash chunk file :
  0 < chunk -> 256 <= Z.of_nat (List.length file) ->
  check_file hash chunk file 0 0 0 = Sums (hash file).
Proof.
  intros Hc Hl. rewrite digests by (cbn; lia).
  unfold spec_sums, range_stop, eff_bs, eff_length. cbn [Z.eqb].
  rewrite Z.sub_0_r, Z.add_0_l, Z.min_id.
  rewrite spec_blocks_cons by lia. rewrite spec_blocks_nil by lia.
  cbn [flat_map fst snd]. rewrite app_nil_r. f_equal. f_equal.
  unfold slice. cbn [Z.to_nat skipn]. rewrite Z.sub_0_r, Z.min_id, Nat2Z.id. apply firstn_all.
Qed.

(* ---- the loop before the repair ------------------------------------------------------ *)
Lemma old_inner_diverges size : forall fuel blocklen chunklen count offset reads,
  0 <= count < blocklen -> size <= offset ->
  old_inner size fuel blocklen chunklen count offset reads = None.
Proof.
  induction fuel as [|f IH]; intros blocklen chunklen count offset reads Hc Ho; cbn [old_inner].
  - destruct (count <? blocklen) eqn:E; [reflexivity|lia].
  - destruct (count <? blocklen) eqn:E; [|lia].
    assert (Hn : rdlen size offset chunklen = 0) by (unfold rdlen; lia).
    rewrite Hn. apply IH; lia.
Qed.

(* ---- the constants of the source --------------------------------------------------------- *)
Lemma source_constants : MIN_BLOCK = 256 /\ 0 < SOURCE_CHUNK.
Proof. split; reflexivity. Qed.

Lemma digests_source hash file start length bs :
  0 <= start ->
  256 <= eff_bs (Z.of_nat (List.length file)) start length bs ->
  check_file hash SOURCE_CHUNK file start length bs = Sums (spec_sums hash file start length bs).
Proof. intros. apply digests; [reflexivity|assumption|assumption]. Qed.

(* ---- algorithm selection ---------------------------------------------------------------------- *)
Lemma existsb_eqb_in x l : existsb (Z.eqb x) l = true <-> In x l.
Proof.
  rewrite existsb_exists. split.
  - intros (y & Hy & E). apply Z.eqb_eq in E. now subst.
  - intros H. exists x. split; [exact H|apply Z.eqb_refl].
Qed.

(* the reply's algorithm is the FIRST name of the client's list that the server supports *)
Lemma first_supported_some sup req a :
  first_supported sup req = Some a ->
  exists l1 l2, req = l1 ++ a :: l2 /\ In a sup /\ (forall x, In x l1 -> ~ In x sup).
Proof.
  unfold first_supported. induction req as [|y req IH]; cbn; [discriminate|].
  destruct (existsb (Z.eqb y) sup) eqn:E; intros H.
  - inversion H. subst. exists [], req. split; [reflexivity|]. split; [now apply existsb_eqb_in|].
    intros x [].
  - destruct (IH H) as (l1 & l2 & -> & Hin & Hno). exists (y :: l1), l2. split; [reflexivity|].
    split; [exact Hin|]. intros x [<-|Hx]; [|now apply Hno].
    intros Hc. apply existsb_eqb_in in Hc. congruence.
Qed.

Lemma first_supported_none sup req :
  first_supported sup req = None <-> (forall x, In x req -> ~ In x sup).
Proof.
  unfold first_supported. induction req as [|y req IH]; cbn.
  - split; [intros _ x []|reflexivity].
  - destruct (existsb (Z.eqb y) sup) eqn:E.
    + split; [discriminate|]. intros H. exfalso. apply (H y); [now left|now apply existsb_eqb_in].
    + rewrite IH. split.
      * intros H x [<-|Hx]; [|now apply H]. intros Hc. apply existsb_eqb_in in Hc. congruence.
      * intros H x Hx. apply H. now right.
Qed.
