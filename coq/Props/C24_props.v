(* C24 -- a channel's pollable descriptor is readable exactly when recv would not block.
   Property statements only; every proof is `exact <lemma from Proofs/C24_proofs.v>`.

   v1 (model of the repaired pipe.py / BufferedPipe.feed, atomic actions = critical sections):
   positive theorems over all interleavings of any number of operations.
   v0 (the code before the repair, one action per source line): refutation witnesses. *)
From PV Require Import Bytes C24 C24_gen C24_proofs.
Open Scope Z_scope.

(* From the state Channel.fileno() leaves (any buffer contents d1 d2, EOF/closed or not),
   after ANY sequence of atomic actions of any threads (feeds, emptying reads, empty(),
   EOF / remote close, each split at its lock boundaries), whenever no call is in progress:
   select() reports the descriptor readable  <->  stdout holds data \/ stderr holds data \/
   the channel reached EOF or closed. *)
Theorem C24_quiescent_iff :
  forall (d1 d2 closed : bool) (s : st),
    reachable (fileno_state d1 d2 closed) s -> quiescent s = true ->
    (readable s = true <-> ne1 s = true \/ ne2 s = true \/ ch s = true).
Proof. exact quiescent_iff. Qed.
Print Assumptions C24_quiescent_iff.

(* the lock discipline and event-call sites C24_quiescent_iff rests on are those of the current source:
   gen_shape is produced by the fail-closed AST translator gen/c24.py on every run *)
Theorem C24_source_shape : gen_shape = assumed_shape.
Proof. exact shape_ok. Qed.
Print Assumptions C24_source_shape.

(* the inductive core: the invariant is preserved by every atomic action from every state *)
Theorem C24_invariant_step :
  forall s l s', inv_b s = true -> step s l = Some s' -> inv_b s' = true.
Proof. exact inv_step. Qed.
Print Assumptions C24_invariant_step.

(* the same equivalence from any start state satisfying the invariant *)
Theorem C24_quiescent_iff_from_invariant :
  forall s0 s, inv_b s0 = true -> reachable s0 s -> quiescent s = true ->
    (readable s = true <-> ne1 s = true \/ ne2 s = true \/ ch s = true).
Proof. exact quiescent_iff_inv. Qed.
Print Assumptions C24_quiescent_iff_from_invariant.

(* no reachable deadlock inside the event maintenance: while a call is in progress some
   action is enabled ... *)
Theorem C24_progress :
  forall d1 d2 closed s,
    reachable (fileno_state d1 d2 closed) s -> quiescent s = false -> exists l s', step s l = Some s'.
Proof. exact progress. Qed.
Print Assumptions C24_progress.

(* ... in particular the os.read in PosixPipe.clear never finds the pipe empty *)
Theorem C24_clear_never_blocks :
  forall d1 d2 closed s o,
    reachable (fileno_state d1 d2 closed) s -> fl s = Some (PClear, o) -> pipe_clear s <> None.
Proof. exact clear_never_blocks. Qed.
Print Assumptions C24_clear_never_blocks.

(* v0, the unsynchronised code: the equivalence fails at a quiescent state.  Witness: after
   p2.set(), thread 0 runs p2.clear() and thread 1 runs p1.set() under the 13-entry line
   schedule 0 0 0 1 1 1 1 1 1 0 0 0 0 : both calls complete, stdout's flag is set, the
   descriptor is not readable (reproduced on the real code by the line-level scheduler). *)
Theorem C24_quiescent_iff_refuted :
  ~ (forall a b f calls sched s pcs,
       exec0 (start0 a b f) (map Start calls) sched = Some (s, pcs) ->
       forallb is_done pcs = true -> readable0 s = wanted0 s).
Proof. exact v0_refuted. Qed.
Print Assumptions C24_quiescent_iff_refuted.

Theorem C24_v0_race_set_clear :
  exists s pcs,
    exec0 (start0 false true false) [Start 3; Start 0] [0;0;0;1;1;1;1;1;1;0;0;0;0]%nat = Some (s, pcs) /\
    forallb is_done pcs = true /\ readable0 s = false /\ wanted0 s = true.
Proof. exact v0_race_set_clear. Qed.
Print Assumptions C24_v0_race_set_clear.

(* v0: clear overlapping set_forever leaves an EOF/closed channel not readable *)
Theorem C24_v0_race_clear_forever :
  exists s pcs,
    exec0 (start0 true false false) [Start 1; Start 4] [0;0;0;0;0;1;1;1;1;1;0;0]%nat = Some (s, pcs) /\
    forallb is_done pcs = true /\ readable0 s = false /\ fvr s = true.
Proof. exact v0_race_clear_forever. Qed.
Print Assumptions C24_v0_race_clear_forever.

(* v0: two overlapping clears: the second os.read blocks for ever (its caller holds the
   stderr buffer's lock, so the transport thread stalls on the next stderr feed) *)
Theorem C24_v0_double_clear_blocks :
  exists s pcs p,
    exec0 (start0 true true false) [Start 1; Start 3] [0;0;1;1;0;0;0;1;1;1;0;0]%nat = Some (s, pcs) /\
    nth_error pcs 1%nat = Some p /\ stuck0 s p = true /\ nth_error pcs 0%nat = Some Done.
Proof. exact v0_double_clear_blocks. Qed.
Print Assumptions C24_v0_double_clear_blocks.

(* v0 is correct when calls do not overlap: each call run alone from a consistent state ends
   in a consistent state with readable = (p1 set or p2 set or forever) *)
Theorem C24_v0_sequential_ok :
  forall a b c d (call : Z),
    let s := mk0 a b c d (if c then 1 else 0)%nat in
    consistent0 s = true ->
    exists s', run_alone 10 s (Start call) = Some s' /\ consistent0 s' = true /\ readable0 s' = wanted0 s'.
Proof. exact v0_sequential_ok. Qed.
Print Assumptions C24_v0_sequential_ok.

(* non-vacuity: a concrete interleaving reaching a non-trivial quiescent state -- stderr feed
   and stdout read overlap (the feed's OrPipe half runs, the read's then waits for the lock),
   then EOF; and a state with a call in flight *)
Example C24_example_reachable :
  exists s,
    run_labels (fileno_state true false false)
      [ReadAll false; Finish; Feed true true; ChanBegin; Finish; Feed false true; ChanClose; ChanClose;
       ChanForever; ReadAll false; ReadAll true] = Some s /\
    quiescent s = true /\ readable s = true /\ ne1 s = false /\ ne2 s = false /\ ch s = true.
Proof. eexists. vm_compute. repeat split; reflexivity. Qed.

Example C24_example_in_flight :
  exists s, run_labels (fileno_state true false false) [ReadAll false] = Some s /\
            quiescent s = false /\ fl s = Some (PClear, false) /\ inv_b s = true.
Proof. eexists. vm_compute. repeat split; reflexivity. Qed.
