(* C31 — lemmas about the model of SFTPServer.set_file_attr. *)
From Coq Require Import ZArith List Bool Lia ZifyBool.
From PV Require Import Bytes C31_gen C31.
Import ListNotations.
Open Scope Z_scope.

(* ---- the four single-purpose requests equal the os.* calls ----------------- *)
Lemma chmod_spec now f m : set_file_attr now f (req_chmod m) = os_chmod f m.
Proof. reflexivity. Qed.

Lemma chown_spec now f u g : set_file_attr now f (req_chown u g) = os_chown f u g.
Proof. reflexivity. Qed.

Lemma utime_spec now f t1 t2 : set_file_attr now f (req_utime t1 t2) = os_utime f t1 t2.
Proof. reflexivity. Qed.

Lemma truncate_spec now f n : set_file_attr now f (req_truncate n) = os_truncate now f n.
Proof. reflexivity. Qed.

(* ---- resize ------------------------------------------------------------------ *)
Lemma resize_length d n : 0 <= n -> Z.of_nat (length (resize d n)) = n.
Proof.
  intros Hn. unfold resize. rewrite app_length, firstn_length, repeat_length. lia.
Qed.

Lemma resize_shrink d n : 0 <= n <= Z.of_nat (length d) -> resize d n = firstn (Z.to_nat n) d.
Proof.
  intros Hn. unfold resize.
  replace (Z.to_nat n - length d)%nat with 0%nat by lia. cbn [repeat]. apply app_nil_r.
Qed.

Lemma resize_extend d n :
  Z.of_nat (length d) <= n -> resize d n = d ++ repeat 0 (Z.to_nat n - length d).
Proof.
  intros Hn. unfold resize. rewrite firstn_all2 by lia. reflexivity.
Qed.

Lemma resize_same d : resize d (Z.of_nat (length d)) = d.
Proof. rewrite resize_shrink by lia. rewrite Nat2Z.id. apply firstn_all. Qed.

Lemma resize_nth_kept d n i :
  (i < Z.to_nat n)%nat -> (i < length d)%nat -> nth i (resize d n) 0 = nth i d 0.
Proof.
  intros Hi Hd. unfold resize. rewrite app_nth1 by (rewrite firstn_length; lia).
  rewrite <- (firstn_skipn (Z.to_nat n) d) at 2.
  rewrite app_nth1 by (rewrite firstn_length; lia). reflexivity.
Qed.

Lemma resize_nth_pad d n i :
  (length d <= i)%nat -> nth i (resize d n) 0 = 0.
Proof.
  intros Hd. unfold resize.
  destruct (Nat.lt_ge_cases i (length (firstn (Z.to_nat n) d))) as [H|H].
  - rewrite firstn_length in H. lia.
  - rewrite app_nth2 by exact H.
    destruct (Nat.lt_ge_cases (i - length (firstn (Z.to_nat n) d))
                              (length (repeat 0 (Z.to_nat n - length d)))) as [H2|H2].
    + apply nth_repeat.
    + apply nth_overflow. exact H2.
Qed.

Lemma truncate_keeps_prefix now f n :
  0 <= n ->
  let d := f_data f in
  let d' := f_data (set_file_attr now f (req_truncate n)) in
  d' = firstn (Z.to_nat n) d ++ repeat 0 (Z.to_nat n - length d) /\
  Z.of_nat (length d') = n /\
  (forall i, (i < Z.to_nat n)%nat -> (i < length d)%nat -> nth i d' 0 = nth i d 0) /\
  (forall i, (length d <= i)%nat -> nth i d' 0 = 0) /\
  (n <= Z.of_nat (length d) -> d' = firstn (Z.to_nat n) d) /\
  (Z.of_nat (length d) <= n -> d' = d ++ repeat 0 (Z.to_nat n - length d)).
Proof.
  intros Hn d d'. subst d d'. rewrite truncate_spec. cbn [os_truncate f_data].
  split; [reflexivity|]. split; [apply resize_length; exact Hn|].
  split; [intros i; apply resize_nth_kept|]. split; [intros i; apply resize_nth_pad|].
  split; [intros H; apply resize_shrink; lia|apply resize_extend].
Qed.

(* nothing but the size and the modification time changes *)
Lemma truncate_rest_unchanged now f n :
  let f' := set_file_attr now f (req_truncate n) in
  f_mode f' = f_mode f /\ f_uid f' = f_uid f /\ f_gid f' = f_gid f /\ f_atime f' = f_atime f.
Proof. rewrite truncate_spec. cbn. repeat split. Qed.

(* ---- any combination of flags, field by field --------------------------------- *)
Lemma fields now f a :
  let f' := set_file_attr now f a in
  f_data f' = (if has a FLAG_SIZE then resize (f_data f) (a_size a) else f_data f) /\
  f_mode f' = (if has a FLAG_PERMISSIONS then Z.land (a_mode a) 4095 else f_mode f) /\
  f_uid f' = (if has a FLAG_UIDGID then a_uid a else f_uid f) /\
  f_gid f' = (if has a FLAG_UIDGID then a_gid a else f_gid f) /\
  f_atime f' = (if has a FLAG_AMTIME then a_atime a else f_atime f) /\
  f_mtime f' = (if has a FLAG_SIZE then now
                else if has a FLAG_AMTIME then a_mtime a else f_mtime f).
Proof.
  unfold set_file_attr, step_size, step_utime, step_chown, step_chmod,
         py_ftruncate, py_open_rplus.
  destruct (has a FLAG_SIZE), (has a FLAG_PERMISSIONS), (has a FLAG_UIDGID), (has a FLAG_AMTIME);
    cbn; repeat split.
Qed.

Lemma unrequested_unchanged now f a :
  let f' := set_file_attr now f a in
  (has a FLAG_SIZE = false -> f_data f' = f_data f) /\
  (has a FLAG_PERMISSIONS = false -> f_mode f' = f_mode f) /\
  (has a FLAG_UIDGID = false -> f_uid f' = f_uid f /\ f_gid f' = f_gid f) /\
  (has a FLAG_AMTIME = false -> f_atime f' = f_atime f) /\
  (has a FLAG_AMTIME = false -> has a FLAG_SIZE = false -> f_mtime f' = f_mtime f).
Proof.
  pose proof (fields now f a) as (Hd & Hm & Hu & Hg & Ha & Ht). cbv zeta.
  repeat split; intros; repeat match goal with H : has _ _ = false |- _ => rewrite H in *; clear H end;
    assumption.
Qed.

Lemma no_flags_identity now f a : a_flags a = 0 -> set_file_attr now f a = f.
Proof.
  intros H. unfold set_file_attr, step_size, step_utime, step_chown, step_chmod, has. rewrite H.
  reflexivity.
Qed.

Lemma by_handle_same now f a : fsetstat now f a = setstat now f a.
Proof. reflexivity. Qed.

(* the flags the client packs are exactly the fields it set *)
Lemma flags_of_has size ids mode times :
  let a := mk_attrs size ids mode times in
  has a FLAG_SIZE = (match size with Some _ => true | None => false end) /\
  has a FLAG_UIDGID = (match ids with Some _ => true | None => false end) /\
  has a FLAG_PERMISSIONS = (match mode with Some _ => true | None => false end) /\
  has a FLAG_AMTIME = (match times with Some _ => true | None => false end).
Proof. destruct size, ids as [[? ?]|], mode, times as [[? ?]|]; cbv; repeat split. Qed.

(* ---- the size step as it was written before the repair -------------------------- *)
Lemma wplus_all_zero now f n :
  f_data (set_file_attr_wplus now f (req_truncate n)) = repeat 0 (Z.to_nat n).
Proof.
  cbn. unfold resize. cbn [length]. rewrite firstn_nil, Nat.sub_0_r. reflexivity.
Qed.

Lemma wplus_loses_data :
  exists now f n, 0 <= n <= Z.of_nat (length (f_data f)) /\
    f_data (set_file_attr_wplus now f (req_truncate n)) <> firstn (Z.to_nat n) (f_data f).
Proof.
  exists 0, (mkfile [7; 8; 9] 420 0 0 0 0), 2. split; [cbn; lia|]. cbv. discriminate.
Qed.

(* ---- sequences ------------------------------------------------------------------ *)
Lemma sftp_op_os_op h f o : sftp_op h f o = os_op f o.
Proof. destruct h, o; reflexivity. Qed.

(* any sequence of chmod/chown/utime/truncate requests, by path or by handle, interleaved with
   arbitrary other changes to the file, has the effect of the same sequence of os.* calls *)
Lemma sequence_spec : forall evs f, fold_left sftp_event evs f = fold_left os_event evs f.
Proof.
  induction evs as [|e evs IH]; intros f; [reflexivity|].
  cbn [fold_left]. destruct e as [h o|g]; cbn [sftp_event os_event].
  - rewrite sftp_op_os_op. apply IH.
  - apply IH.
Qed.

(* in particular a later request does not repeat an earlier one: truncate, write, chmod *)
Lemma later_request_independent now1 f n now2 at2 off b m :
  let f1 := fsetstat now1 f (req_truncate n) in
  let f2 := env_write at2 now2 f1 off b in
  let f3 := fsetstat 0 f2 (req_chmod m) in
  f_data f3 = f_data f2 /\ f_mtime f3 = f_mtime f2 /\ f_atime f3 = f_atime f2.
Proof. cbn. repeat split. Qed.

(* ---- the source still has the steps that are modelled --------------------------------- *)
(* gen_steps is regenerated from the AST of SFTPServer.set_file_attr on every run: same four
   flag tests, same calls with the same arguments, same order, resize through open(.., "r+") *)
Lemma steps_as_modelled : gen_steps = modelled_steps.
Proof. reflexivity. Qed.

Lemma flag_bits_distinct :
  Z.land FLAG_SIZE FLAG_UIDGID = 0 /\ Z.land FLAG_SIZE FLAG_PERMISSIONS = 0 /\ Z.land FLAG_SIZE FLAG_AMTIME = 0 /\
  Z.land FLAG_UIDGID FLAG_PERMISSIONS = 0 /\ Z.land FLAG_UIDGID FLAG_AMTIME = 0 /\
  Z.land FLAG_PERMISSIONS FLAG_AMTIME = 0 /\
  0 < FLAG_SIZE /\ 0 < FLAG_UIDGID /\ 0 < FLAG_PERMISSIONS /\ 0 < FLAG_AMTIME.
Proof. cbv. repeat split. Qed.

(* ---- every kind of target ------------------------------------------------------------------ *)
(* the four single-purpose requests equal the os.* calls on a regular file (also reached through
   a symbolic link), on a directory and on a missing name - new state and status alike *)
Lemma node_chmod now n m : set_node_attr now n (req_chmod m) = os_chmod_node n m.
Proof. destruct n; reflexivity. Qed.
Lemma node_chown now n u g : set_node_attr now n (req_chown u g) = os_chown_node n u g.
Proof. destruct n; reflexivity. Qed.
Lemma node_utime now n t1 t2 : set_node_attr now n (req_utime t1 t2) = os_utime_node n t1 t2.
Proof. destruct n; reflexivity. Qed.
Lemma node_truncate now n k : set_node_attr now n (req_truncate k) = os_truncate_node now n k.
Proof. destruct n; reflexivity. Qed.

Lemma missing_never_ok now a :
  any_step a = true -> set_node_attr now NMissing a = (NMissing, SFTP_NO_SUCH_FILE).
Proof. intros H. cbn. now rewrite H. Qed.

Lemma dir_resize_fails now f a :
  has a FLAG_SIZE = true -> snd (set_node_attr now (NDir f) a) = SFTP_FAILURE.
Proof. intros H. cbn. now rewrite H. Qed.

Lemma ok_only_if_applied now n a n' :
  set_node_attr now n a = (n', SFTP_OK) ->
  match n with
  | NFile f => n' = NFile (set_file_attr now f a)
  | NDir f => has a FLAG_SIZE = false /\ n' = NDir (step_utime a (step_chown a (step_chmod a f)))
  | NMissing => any_step a = false
  end.
Proof.
  destruct n as [f|f|]; cbn.
  - intros H. now inversion H.
  - destruct (has a FLAG_SIZE); intros H; inversion H. now split.
  - destruct (any_step a); intros H; inversion H. reflexivity.
Qed.

(* ---- the handle table ------------------------------------------------------------------------ *)
Lemma ht_find_in l h v : ht_find l h = Some v -> In (h, v) l.
Proof.
  induction l as [|[k w] l IH]; cbn; [discriminate|].
  destruct (k =? h) eqn:E; intros H.
  - apply Z.eqb_eq in E. inversion H. subst. now left.
  - right. now apply IH.
Qed.

Lemma ht_find_filter l h h' :
  h' <> h -> ht_find (filter (fun e => negb (fst e =? h')) l) h = ht_find l h.
Proof.
  intros Hne. induction l as [|[k w] l IH]; [reflexivity|]. cbn [filter fst].
  destruct (k =? h') eqn:E1; cbn [negb].
  - apply Z.eqb_eq in E1. subst k. cbn [ht_find]. destruct (h' =? h) eqn:E2; [apply Z.eqb_eq in E2; contradiction|].
    exact IH.
  - cbn [ht_find]. destruct (k =? h); [reflexivity|exact IH].
Qed.

Lemma ht_inv_new : ht_inv ht_new.
Proof. intros k v H. destruct H. Qed.

Lemma ht_inv_step t o : ht_inv t -> ht_inv (ht_step t o).
Proof.
  intros Hi. destruct o as [fid|h]; intros k v Hin; cbn in *.
  - destruct Hin as [E|Hin]; [inversion E; lia|]. specialize (Hi k v Hin). lia.
  - apply filter_In in Hin as [Hin _]. exact (Hi k v Hin).
Qed.

Lemma ht_lookup_step t o h fid :
  ht_inv t -> ht_lookup t h = Some fid -> o <> HClose h -> ht_lookup (ht_step t o) h = Some fid.
Proof.
  intros Hi Hl Hne. unfold ht_lookup in *. destruct o as [f|h']; cbn.
  - pose proof (Hi h fid (ht_find_in _ _ _ Hl)) as Hlt.
    destruct (ht_next t =? h) eqn:E; [lia|exact Hl].
  - rewrite ht_find_filter; [exact Hl|]. intros ->. now apply Hne.
Qed.

(* a live handle keeps naming the file it was opened on, whatever else is opened or closed *)
Lemma handle_stable : forall ops t h fid,
  ht_inv t -> ht_lookup t h = Some fid -> ~ In (HClose h) ops ->
  ht_lookup (fold_left ht_step ops t) h = Some fid.
Proof.
  induction ops as [|o ops IH]; intros t h fid Hi Hl Hn; [exact Hl|].
  cbn [fold_left]. apply IH.
  - now apply ht_inv_step.
  - apply ht_lookup_step; [exact Hi|exact Hl|]. intros ->. apply Hn. now left.
  - intros Hin. apply Hn. now right.
Qed.

Lemma handle_fresh t fid : ht_inv t -> ht_lookup t (ht_next t) = None /\
  ht_lookup (ht_open t fid) (ht_next t) = Some fid.
Proof.
  intros Hi. split.
  - unfold ht_lookup. destruct (ht_find (ht_entries t) (ht_next t)) eqn:E; [|reflexivity].
    pose proof (Hi _ _ (ht_find_in _ _ _ E)). lia.
  - unfold ht_lookup. cbn. now rewrite Z.eqb_refl.
Qed.

Lemma reachable_inv ops : ht_inv (fold_left ht_step ops ht_new).
Proof.
  assert (G : forall ops t, ht_inv t -> ht_inv (fold_left ht_step ops t)).
  { induction ops0 as [|o ops0 IH]; intros t Hi; [exact Hi|]. cbn. apply IH. now apply ht_inv_step. }
  apply G, ht_inv_new.
Qed.

Lemma handle_fresh_reachable ops fid :
  let t := fold_left ht_step ops ht_new in
  ht_lookup t (ht_next t) = None /\ ht_lookup (ht_open t fid) (ht_next t) = Some fid.
Proof. apply handle_fresh, reachable_inv. Qed.

Lemma handle_stable_reachable ops0 ops h fid :
  let t := fold_left ht_step ops0 ht_new in
  ht_lookup t h = Some fid -> ~ In (HClose h) ops ->
  ht_lookup (fold_left ht_step ops t) h = Some fid.
Proof. intros t. apply handle_stable, reachable_inv. Qed.
