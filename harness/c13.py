"""C13 -- blocking calls return once the connection ends.

Proof: coq/Props/C13_props.v over coq/Model/C13.v and the wake graph coq/Gen/C13_gen.v that
gen/c13.py regenerates from the source (AST, fail-closed) on every run.
Tie / oracle:
  A. Packetizer.read_all driven with a scripted socket  vs  model read_all (vm_compute);
  B. ProxyCommand.recv with scripted select/os.read/time  vs  model proxy_recv; plus a real
     short-lived subprocess under a watchdog;
  C. the live matrix on real in-process Transport pairs: blocking API x way of ending the connection
     x {blocked before, racing, called after} x {no timeout, caller timeout}: a watchdog decides
     "blocked for ever"; each cell's outcome is compared with the model's prediction (run_cell) and
     a hang is reported as a failing input with a key naming the API and the ending.
"""
import logging
import os
import signal
import socket
import subprocess
import sys
import threading
import time

from common import coq, with_watchdog

PID = "C13"
LEVEL_TEXT = ("PARTIAL machine-checked proof (Coq, closed under the global context): over the wake graph that a "
              "fail-closed translator regenerates from transport.py/channel.py/buffered_pipe.py/auth_handler.py "
              "on every run (each blocking API's wait primitive, poll period, pre-test and exit facts; each "
              "ending's ordered wake actions incl. the `if self.active` guard), for every API x ending and "
              "EVERY interleaving of caller steps with the ending thread's actions the caller leaves its wait "
              "(C13_every_api, by an invariant proof of the criterion + computation on the table); a loop "
              "'wait<=period; if not active: raise' leaves within one period of active=False for every "
              "environment trace (C13_polling_returns); Packetizer.read_all raises EOFError on an empty recv "
              "after every prefix of partial reads/timeouts, and the repaired ProxyCommand.recv ends on an "
              "empty os.read (C13_read_all_eof, C13_proxy_recv_eof, C13_proxy_exit_is_eof).  Real transports "
              "are run through the API x ending x phase x timeout matrix under a watchdog every run.")
LEVEL_NOTE = ("Partial by nature: that the OS/threading library delivers notify/set/timeouts, real time "
              "('promptly' = watchdog), the GIL and scheduling are outside the model and only exercised by the "
              "watchdog matrix.  That the thread ending the connection is itself never blocked (e.g. on a "
              "Channel.lock held by a caller parked behind a re-key) is outside the wake-graph model and is "
              "exercised by the re-key matrix D.  A local close() is modelled by the actions of the closing thread only (the "
              "transport thread's concurrent epilogue repeats a subset of them).  The identification of source "
              "statements with wake actions is the translator gen/c13.py (trusted, fail-closed); the translator "
              "counts a pre-test only when it sits in the same lock-held region as the Condition wait (a test "
              "hoisted out of the lock is a lost-wake-up window and breaks C13_every_api), given which the "
              "model treats test-and-wait as atomic w.r.t. notify_all; the matrix forces that window on the real "
              "code by pausing the caller just before it takes the lock while the ending runs to completion.  Channel.sendall "
              "spinning after shutdown_write is C25's.  Models the repaired accept()/close()/ProxyCommand.recv "
              "(fixes/C13-*.diff); the v0 tables are refuted in C13_accept_v0_refuted / "
              "C13_proxy_recv_v0_diverges.")
TECHNIQUE = ("Coq proof (schedule-indexed small-step semantics + invariant; computation over a source-derived "
             "table) + vm_compute differential correspondence + watchdog matrix on real transports")

WATCH = 7.0          # seconds before a call counts as blocked for ever (calls should return in ~0.2 s)
USER_TIMEOUT = 30.0  # caller-supplied timeout of the "with timeout" cells: longer than the watchdog, so a
#                      cell that only returns through its own timeout still counts as a hang

_quiet_done = False
_KEY = None


def quiet():
    global _quiet_done
    if _quiet_done:
        return
    lg = logging.getLogger("paramiko")
    lg.addHandler(logging.NullHandler())
    lg.propagate = False
    lg.setLevel(logging.CRITICAL)
    _quiet_done = True


def host_key():
    global _KEY
    if _KEY is None:
        import paramiko
        _KEY = paramiko.ECDSAKey.generate()
    return _KEY


class ScriptEnd(BaseException):
    """the scripted environment is exhausted: the loop under test is still running"""


# =====================================================================================================
# A. Packetizer.read_all

def impl_read_all(rem, envs, n, check_rekey):
    """envs: list of (kind, data, hs_timed_out, closed, need_rekey); kind 0 data, 1 timeout, 2 EAGAIN,
    3 other socket error."""
    import errno
    from paramiko.packet import Packetizer, NeedRekeyException

    class Sock:
        def __init__(self):
            self.i = 0
            self.p = None

        def arm(self):
            # flags read by the loop at the top of iteration i / in its except branches
            if self.i < len(envs):
                k, data, hs, cl, nr = envs[self.i]
                self.p._Packetizer__timer = object()
                self.p._Packetizer__handshake_complete = False
                self.p._Packetizer__timer_expired = hs
            else:
                self.p._Packetizer__timer_expired = False

        def recv(self, m):
            if self.i >= len(envs):
                raise ScriptEnd()
            k, data, hs, cl, nr = envs[self.i]
            self.i += 1
            self.p._Packetizer__closed = cl
            self.p._Packetizer__need_rekey = nr
            self.arm()
            if k == 0:
                return bytes(data)
            if k == 1:
                raise socket.timeout()
            if k == 2:
                raise socket.error(errno.EAGAIN, "again")
            raise socket.error(errno.ECONNRESET, "reset")

        def settimeout(self, t):
            pass

        def close(self):
            pass

    s = Sock()
    p = Packetizer(s)
    s.p = p
    p._Packetizer__remainder = bytes(rem)
    s.arm()
    try:
        out = p.read_all(n, check_rekey)
        return [0] + list(out)
    except EOFError:
        return [4]
    except NeedRekeyException:
        return [101]
    except ScriptEnd:
        return [99]
    except socket.timeout:
        return [5]
    except socket.error:
        return [6]


def gen_read_case(rng):
    n = rng.choice([1, 2, 4, 5, 8, 16, rng.randrange(1, 40)])
    rem = bytes(rng.randrange(256) for _ in range(rng.choice([0, 0, 0, 1, 3, n, n + 2])))
    cr = rng.random() < 0.5
    envs = []
    need = n
    for _ in range(rng.randrange(0, 8)):
        r = rng.random()
        hs = rng.random() < 0.04
        cl = rng.random() < 0.08
        nr = rng.random() < 0.25
        if r < 0.5:
            ln = rng.choice([1, 1, 2, 3, max(1, need), rng.randrange(1, 6)])
            envs.append((0, bytes(rng.randrange(256) for _ in range(ln)), hs, cl, nr))
            need -= ln
        elif r < 0.7:
            envs.append((1, b"", hs, cl, nr))
        elif r < 0.8:
            envs.append((2, b"", hs, cl, nr))
        elif r < 0.86:
            envs.append((3, b"", hs, cl, nr))
        else:
            envs.append((0, b"", hs, cl, nr))          # end of file
    if rng.random() < 0.5:
        envs.append((0, b"", False, False, False))     # ... and a final EOF
    return rem, envs, n, cr


def safe_mismatches(ctx, run_fn, case_type, cases):
    """ctx.model_mismatches, but a model/translator failure only breaks the correspondence: the
    implementation-level oracle of the remaining parts still runs and yields its concrete inputs."""
    try:
        return ctx.model_mismatches(run_fn, case_type, cases)
    except Exception as e:   # noqa
        ctx.disagree("model %s could not be evaluated: %s" % (run_fn, str(e)[-400:]))
        return []


def part_read_all(ctx, count):
    rng = ctx.rng
    cases = []
    for _ in range(count):
        rem, envs, n, cr = gen_read_case(rng)
        out = impl_read_all(rem, envs, n, cr)
        cases.append(((rem, envs, n, cr), out))
        eof_in = any(k == 0 and len(d) == 0 for k, d, *_ in envs)
        ctx.count(("read_all", rem, tuple(envs), n, cr), nontrivial=len(envs) > 0,
                  kind="read_all-eof" if eof_in else "read_all")
        # oracle: if the script ends with an EOF the call must not still be running
        if envs and envs[-1][0] == 0 and len(envs[-1][1]) == 0 and out == [99]:
            ctx.fail("read_all-ignores-eof", "Packetizer.read_all keeps reading after recv() returned b''",
                     case={"remainder": rem, "script": envs, "n": n}, expected="EOFError", observed="still reading")
    bad = safe_mismatches(
        ctx, "run_read_all", "(list Z * list (Z * list Z * bool * bool * bool) * Z * bool)",
        [(coq((list(rem), [(k, list(d), hs, cl, nr) for k, d, hs, cl, nr in envs], n, cr)), out)
         for (rem, envs, n, cr), out in cases])
    for i in bad[:3]:
        ctx.disagree("Packetizer.read_all differs from the model", case=cases[i][0], impl=cases[i][1])
    ctx.sample({"read_all": {"case": cases[0][0], "impl": cases[0][1]}})


# =====================================================================================================
# B. ProxyCommand.recv

def impl_proxy_recv(steps, size, use_timeout):
    """steps: list of (kind, data): 0 read, 1 select-not-ready, 2 elapsed, 3 IOError"""
    from unittest import mock
    import paramiko.proxy as proxy

    state = {"i": 0}

    class FakeTime:
        def __init__(self):
            self.first = True

        def time(self):
            if self.first:
                self.first = False
                return 0.0
            if state["i"] >= len(steps):
                raise ScriptEnd()
            if steps[state["i"]][0] == 2:
                state["i"] += 1
                return 1000.0
            return 0.0

    fake_subprocess = mock.MagicMock()
    stdout = fake_subprocess.Popen.return_value.stdout

    def fake_select(r, w, x, t=None):
        if state["i"] >= len(steps):
            raise ScriptEnd()
        k, _ = steps[state["i"]]
        if k == 1:
            state["i"] += 1
            return [], [], []
        return [stdout], [], []

    def fake_read(fd, n):
        k, data = steps[state["i"]]
        state["i"] += 1
        if k == 3:
            raise IOError(5, "io")
        return bytes(data)

    fake_os = mock.MagicMock()
    fake_os.read = fake_read
    with mock.patch.object(proxy, "subprocess", fake_subprocess), mock.patch.object(proxy, "select", fake_select), \
            mock.patch.object(proxy, "os", fake_os), mock.patch.object(proxy, "time", FakeTime()):
        p = proxy.ProxyCommand("x")
        if use_timeout:
            p.settimeout(5)
        try:
            return [0] + list(p.recv(size))
        except ScriptEnd:
            return [99]
        except socket.timeout:
            return [5]
        except proxy.ProxyCommandFailure:
            return [102]


def part_proxy(ctx, count):
    rng = ctx.rng
    cases = []
    for _ in range(count):
        size = rng.choice([1, 2, 4, 5, 8, rng.randrange(1, 20)])
        use_timeout = rng.random() < 0.5
        steps = []
        for _ in range(rng.randrange(0, 7)):
            r = rng.random()
            if r < 0.5:
                steps.append((0, bytes(rng.randrange(256) for _ in range(rng.randrange(1, 4)))))
            elif r < 0.7:
                steps.append((1, b""))
            elif r < 0.8 and use_timeout:
                steps.append((2, b""))
            elif r < 0.86:
                steps.append((3, b""))
            else:
                steps.append((0, b""))
        eof_last = rng.random() < 0.5
        if eof_last:
            steps.append((0, b""))
        # os.read is asked for at most size - len(buffer): trim scripted chunks accordingly
        have = 0
        fixed = []
        for k, d in steps:
            if k == 0 and len(d) > 0:
                d = d[:max(1, size - have)]
                have += len(d)
            fixed.append((k, d))
        steps = fixed
        out = impl_proxy_recv(steps, size, use_timeout)
        cases.append(((steps, size, use_timeout), out))
        ctx.count(("proxy", tuple(steps), size, use_timeout), nontrivial=len(steps) > 0,
                  kind="proxy_recv-eof" if any(k == 0 and not d for k, d in steps) else "proxy_recv")
        if eof_last and out == [99]:
            ctx.fail("proxycommand-recv-spins-at-eof",
                     "ProxyCommand.recv keeps looping after os.read returned b'' (process closed its stdout)",
                     case={"script": steps, "size": size}, expected="short/empty read", observed="still looping")
    bad = safe_mismatches(ctx, "run_proxy_recv", "(list (Z * list Z) * Z)",
                               [(coq(([(k, list(d)) for k, d in steps], size)), out)
                                for (steps, size, _), out in cases])
    for i in bad[:3]:
        ctx.disagree("ProxyCommand.recv differs from the model", case=cases[i][0], impl=cases[i][1])
    ctx.sample({"proxy_recv": {"case": cases[0][0], "impl": cases[0][1]}})

    # real subprocess that exits at once: recv must come back (b"" = EOF), with and without timeout
    from paramiko.proxy import ProxyCommand
    for tmo in (None, 0.1):
        for attempt in range(2):
            p = ProxyCommand("sh -c 'exit 0'")
            try:
                _wait_exit_noreap(p.process.pid)
                if tmo is not None:
                    p.settimeout(tmo)
                st, v = with_watchdog(lambda: p.recv(4), WATCH)
            finally:
                _reap(p)
            good = st == "ok" and v == b""
            if good:
                break
        ctx.count(("proxy-real", tmo), kind="proxy-real-exit")
        if not good:
            ctx.fail("proxycommand-recv-spins-at-eof",
                     "ProxyCommand.recv does not report end of file after the proxy process exited",
                     case={"command": "sh -c 'exit 0'", "timeout": tmo}, expected="b''",
                     observed="HANG(%ss)" % WATCH if st == "hang" else repr(v))
    # a transport on top of a proxy whose process dies: the transport must become inactive and
    # start_client must raise
    for phase in ("after", "before"):
        for attempt in range(2):
            cmd = "sh -c 'exit 0'" if phase == "after" else "sh -c 'sleep 0.4'"
            p = ProxyCommand(cmd)
            t = None
            try:
                import paramiko
                quiet()
                if phase == "after":
                    _wait_exit_noreap(p.process.pid)
                t = paramiko.Transport(p)
                t.banner_timeout = 60
                st, v = with_watchdog(lambda: t.start_client(), WATCH)
                inactive = _wait_inactive(t, 3.0)
            finally:
                if t is not None:
                    t.active = False
                    try:
                        t.packetizer.close()
                    except Exception:
                        pass
                    if t.is_alive():
                        t.join(3.0)     # its epilogue signals the pid: let it finish before reaping
                _reap(p)
            good = st == "exc" and inactive
            if good:
                break
        ctx.count(("proxy-transport", phase), kind="proxy-real-exit")
        if not good:
            ctx.fail("hang:start_client:proxy-exit",
                     "start_client over a ProxyCommand whose process exited does not return / transport stays active",
                     case={"command": cmd, "phase": phase}, expected="exception, transport inactive",
                     observed="HANG(%ss)" % WATCH if st == "hang" else "%s active=%s" % (st, not inactive))


def _wait_exit_noreap(pid):
    # wait for the exit without reaping: ProxyCommand.close() still sends a signal to this pid
    os.waitid(os.P_PID, pid, os.WEXITED | os.WNOWAIT)


def _reap(p):
    try:
        if p.process.poll() is None:
            p.process.kill()
        p.process.wait(timeout=5)
    except Exception:
        pass
    for f in (p.process.stdin, p.process.stdout, p.process.stderr):
        try:
            f.close()
        except Exception:
            pass


def _wait_inactive(t, limit):
    end = time.time() + limit
    while time.time() < end:
        if not t.is_active():
            return True
        time.sleep(0.02)
    return not t.is_active()


# =====================================================================================================
# C. live matrix

APIS = ["start_client", "start_server", "open_channel", "renegotiate_keys", "global_request",
        "send_user_message", "auth", "accept", "recv", "send", "chan_request", "exit_status"]
API_CODE = {a: i + 1 for i, a in enumerate(APIS)}
USER_TIMEOUT_APIS = {"accept", "recv", "send"}
ENDINGS = ["peer-close", "socket-eof", "protocol-error", "local-close"]
ENDING_CODE = {"peer-close": 1, "socket-eof": 2, "proxy-exit": 3, "protocol-error": 4, "local-close": 5}
PHASES = ["before", "during", "after"]
PHASE_K = {"before": 0, "during": 3, "after": 64, "gap": 64}


class Tap:
    """socket-like wrapper around a LoopSocket: can hold back everything addressed to its owner
    (so the owner never answers) and can damage the next outgoing packet (bad MAC at the peer)."""

    def __init__(self, inner):
        self.inner = inner
        self.paused = False
        self.corrupt_next = False
        self._timeout = None

    @property
    def _closed(self):
        return self.inner._closed

    def settimeout(self, t):
        self._timeout = t
        self.inner.settimeout(t)

    def recv(self, n):
        if self.paused and not self.inner._closed:
            time.sleep(min(self._timeout or 0.05, 0.05))
            raise socket.timeout()
        return self.inner.recv(n)

    def send(self, data):
        if self.corrupt_next and len(data) > 8:
            self.corrupt_next = False
            data = data[:-1] + bytes([data[-1] ^ 0x01])
        return self.inner.send(data)

    def close(self):
        self.inner.close()


class HookLock:
    """Wraps a lock on ONE instance: the first time thread `target` is about to acquire it, `hook`
    runs to completion first.  Forces the interleaving "the connection ends between the caller's
    entry into the API and its taking the condition's lock" deterministically."""

    def __init__(self, real):
        self.real = real
        self.target = None
        self.hook = None
        self.armed = False
        self.fired = False

    def acquire(self, *a, **kw):
        if self.armed and threading.current_thread() is self.target:
            self.armed = False
            self.fired = True
            self.hook()
        return self.real.acquire(*a, **kw)

    def release(self):
        return self.real.release()

    def locked(self):
        return self.real.locked()

    def __enter__(self):
        self.acquire()
        return self

    def __exit__(self, *exc):
        self.release()


GAP_APIS = ("accept", "recv", "send")     # the calls that park on a Condition under a lock


class Cell:
    """one fresh connection on which one blocking API (on side X) meets one ending"""

    def __init__(self, api, role="std", pre="fresh", opt="plain"):
        """role 'std': the API's usual side (accept on the server, everything else on the client);
        'swap': the other side (accept on the CLIENT as after request_port_forward, open_channel /
        global_request / renegotiate / channel I/O on the SERVER side)."""
        import paramiko
        from paramiko.transport import Transport
        from _loop import LoopSocket
        quiet()
        self.paramiko = paramiko
        self.api = api
        self.role = role
        self.pre = pre
        self.opt = opt
        self.hold = threading.Event()          # released in cleanup
        self.extra_threads = []
        a, b = LoopSocket(), LoopSocket()
        a.link(b)
        self.sa, self.sb = Tap(a), Tap(b)
        self.tc = self.ts = None
        self.chan = self.schan = None
        hold = self.hold

        class Srv(paramiko.ServerInterface):
            def check_auth_password(self, u, p):
                return paramiko.AUTH_SUCCESSFUL

            def get_allowed_auths(self, u):
                return "password"

            def check_channel_request(self, kind, chanid):
                return paramiko.OPEN_SUCCEEDED

            def check_channel_exec_request(self, channel, command):
                return True

        if api == "start_client":
            self.tc = Transport(self.sa)
            self.tc.banner_timeout = 60
            self.x, self.y, self.sx, self.sy = self.tc, None, self.sa, self.sb
            return
        if api == "start_server":
            self.ts = Transport(self.sb)
            self.ts.banner_timeout = 60
            self.ts.add_server_key(host_key())
            self.srv = Srv()
            self.x, self.y, self.sx, self.sy = self.ts, None, self.sb, self.sa
            return
        self.tc = Transport(self.sa, default_window_size=32768)
        self.ts = Transport(self.sb, default_window_size=32768)
        for t in (self.tc, self.ts):
            t.banner_timeout = 60
            t.handshake_timeout = 60
            t.auth_timeout = 60
            t.clear_to_send_timeout = 60
        self.ts.add_server_key(host_key())
        ev = threading.Event()
        self.ts.start_server(ev, Srv())
        if api == "auth":
            self.tc.start_client(timeout=30)
        else:
            self.tc.connect(username="u", password="p")
        ev.wait(30)
        if (api == "accept") != (role == "swap"):
            self.x, self.y, self.sx, self.sy = self.ts, self.tc, self.sb, self.sa
        else:
            self.x, self.y, self.sx, self.sy = self.tc, self.ts, self.sa, self.sb
        if api in ("recv", "send", "chan_request", "exit_status"):
            cchan = self.tc.open_session(timeout=30)
            schan = self.ts.accept(30)
            if schan is None:
                raise RuntimeError("server did not accept the session channel")
            # self.chan is the end of the channel that lives on side X
            self.chan, self.schan = (cchan, schan) if self.x is self.tc else (schan, cchan)
            self.apply_pre()
            # documented non-default states of the channel the call is made on
            if opt == "fileno":
                self.chan.fileno()                 # attaches the select()-pipe event to both in-buffers
            elif opt == "combine-stderr":
                self.chan.set_combine_stderr(True)

    def apply_pre(self):
        """channel pre-state on side X before the call: EOF received from the peer, EOF sent, both"""
        def wait_for(pred, what):
            end = time.time() + 10
            while not pred() and time.time() < end:
                time.sleep(0.01)
            if not pred():
                raise RuntimeError("pre-state not reached: " + what)
        if self.pre in ("eof-recv", "both"):
            self.schan.shutdown_write()
            wait_for(lambda: self.chan.eof_received, "EOF from the peer")
        if self.pre in ("eof-sent", "both"):
            self.chan.shutdown_write()
            wait_for(lambda: self.schan.eof_received, "our EOF at the peer")

    # -- making the call block -----------------------------------------------------------------
    def prepare_block(self):
        """Arrange that the API, once called, has nothing that would let it finish."""
        if self.api in ("open_channel", "renegotiate_keys", "global_request", "auth", "chan_request",
                        "send_user_message"):
            self.sy.paused = True           # the peer never sees (so never answers) anything
        if self.api == "send_user_message":
            # a key re-negotiation in flight: clear_to_send is cleared until the peer answers
            th = threading.Thread(target=self._swallow, args=(self.x.renegotiate_keys,), daemon=True)
            th.start()
            self.extra_threads.append(th)
            end = time.time() + 10
            while self.x.clear_to_send.is_set() and time.time() < end:
                time.sleep(0.01)

    @staticmethod
    def _swallow(fn):
        try:
            fn()
        except BaseException:
            pass

    def call(self, tmo, variant=0):
        """variant 1: a second thread parked on the same object through the API's sibling entry point"""
        api = self.api
        if api == "start_client":
            return self.tc.start_client()
        if api == "start_server":
            return self.ts.start_server(server=self.srv)
        if api == "open_channel":
            if self.x is self.tc:
                return self.x.open_session(timeout=120)
            return self.x.open_channel("x11", src_addr=("127.0.0.1", 6000), timeout=120)
        if api == "renegotiate_keys":
            return self.x.renegotiate_keys()
        if api == "global_request":
            return self.x.global_request("c13@verif", wait=True)
        if api == "send_user_message":
            return self.x.send_ignore(8)
        if api == "auth":
            return self.tc.auth_password("u", "p")
        if api == "accept":
            return self.x.accept(USER_TIMEOUT if tmo else None)
        if api == "recv":
            self.chan.settimeout(USER_TIMEOUT if tmo else None)
            if variant == 2:
                return self.chan.recv_stderr(16)
            return self.chan.recv(16)
        if api == "send":
            self.chan.settimeout(USER_TIMEOUT if tmo else None)
            if variant:
                return self.chan.sendall_stderr(b"y" * 50000)
            return self.chan.sendall(b"x" * 50000)      # window is 32768 and nobody reads
        if api == "chan_request":
            return self.chan.exec_command("true")
        if api == "exit_status":
            return self.chan.recv_exit_status()
        raise ValueError(api)

    def arm_gap(self, thread, hook):
        """Pause `thread` just before it first takes the lock of the condition it will wait on."""
        if self.api == "accept":
            owner, attr = self.x, "lock"
        elif self.api == "recv":
            owner, attr = self.chan.in_buffer, "_lock"
        elif self.api == "send":
            owner, attr = self.chan, "lock"
        else:
            raise ValueError(self.api)
        h = HookLock(getattr(owner, attr))
        h.target, h.hook, h.armed = thread, hook, True
        setattr(owner, attr, h)
        return h

    def end_completely(self, ending):
        """Run the ending on another thread and wait until all its wake actions are done."""
        th = threading.Thread(target=self._swallow, args=(lambda: self.end(ending),), daemon=True)
        th.start()
        th.join(WATCH)
        _wait_inactive(self.x, WATCH)
        if self.x.is_alive() and self.x is not threading.current_thread():
            self.x.join(WATCH)            # the transport thread's epilogue (unlink, notify_all)
        if self.chan is not None:
            end = time.time() + WATCH
            while not self.chan.closed and time.time() < end:
                time.sleep(0.01)

    # -- ending the connection -----------------------------------------------------------------
    def end(self, ending):
        from paramiko.message import Message
        from paramiko.common import cMSG_DISCONNECT
        if ending == "local-close":
            self.x.close()
        elif ending == "socket-eof":
            self.sy.close()
        elif ending == "peer-close":
            m = Message()
            m.add_byte(cMSG_DISCONNECT)
            m.add_int(11)
            m.add_string("bye")
            m.add_string("en")
            self.y._send_message(m)
        elif ending == "protocol-error":
            if self.y is None:
                self.sy.send(b"SSH-1.0-ancient\r\n")      # incompatible version
            else:
                self.sy.corrupt_next = True
                m = Message()
                m.add_byte(bytes([2]))                      # MSG_IGNORE with a damaged last byte
                m.add_string(b"0123456789abcdef")
                self.y._send_message(m)
        else:
            raise ValueError(ending)

    def cleanup(self):
        self.hold.set()
        for ch in (self.chan, self.schan):
            try:
                if ch is not None and ch._pipe is not None:
                    ch._pipe.close()               # the descriptors fileno() created
                    ch._pipe = None
            except Exception:
                pass
        for s in (self.sa, self.sb):
            s.paused = False
        for t in (self.tc, self.ts):
            if t is None:
                continue
            try:
                t.active = False
                t.packetizer.close()
            except Exception:
                pass
            try:
                for ch in list(t._channels.values()):
                    ch._unlink()
            except Exception:
                pass
        for s in (self.sa, self.sb):
            try:
                s.close()
            except Exception:
                pass
        for t in (self.tc, self.ts):
            if t is not None and t.is_alive():
                t.join(2.0)


def side_of(api, role):
    if api == "start_client" or api == "auth":
        return "client"
    if api == "start_server":
        return "server"
    return "server" if (api == "accept") != (role == "swap") else "client"


def applicable(api, ending, phase):
    if api in ("start_client", "start_server"):
        if ending == "peer-close":
            return False      # no peer transport exists yet that could send DISCONNECT
        if ending == "local-close" and phase == "after":
            return False      # close() before start_*() is a no-op: the connection has not ended
    return True


SWAP_APIS = ("accept", "open_channel", "global_request", "renegotiate_keys", "send_user_message",
             "recv", "send", "exit_status")      # exist on both sides of a connection


MULTI_APIS = ("accept", "recv", "send", "exit_status", "open_channel", "global_request", "send_user_message")
CHAN_APIS = ("recv", "send", "exit_status", "chan_request")
PRES = ("fresh", "eof-recv", "eof-sent", "both")


OPTS = ("plain", "fileno", "combine-stderr")


def run_cell(api, ending, phase, tmo, role="std", pre="fresh", opt="plain"):
    """Returns (outcome, detail): outcome 'returned' | 'raised' | 'hang' | 'setup-failed'.
    In the 'before' and 'during' phases the APIs of MULTI_APIS are parked by TWO threads at once on the
    same object (send: sendall + sendall_stderr); all of them must come back."""
    try:
        cell = Cell(api, role, pre, opt)
    except Exception as e:   # noqa
        return "setup-failed", repr(e)
    try:
        nwait = 2 if (phase in ("before", "during") and api in MULTI_APIS) else 1
        if nwait == 2 and api == "recv":
            nwait = 3                   # recv twice on the stdout buffer + recv_stderr on the stderr buffer
        boxes = [{} for _ in range(nwait)]

        def target(i):
            try:
                boxes[i]["v"] = cell.call(tmo, variant=i)
            except BaseException as e:   # noqa
                boxes[i]["e"] = e

        ths = [threading.Thread(target=target, args=(i,), daemon=True) for i in range(nwait)]
        th = ths[0]
        box = boxes[0]
        blocked = ""
        if phase == "gap":
            done = threading.Event()

            def hook():
                try:
                    cell.end_completely(ending)
                finally:
                    done.set()

            h = cell.arm_gap(th, hook)
            th.start()
            limit = time.time() + 4 * WATCH
            while not done.is_set() and th.is_alive() and time.time() < limit:
                done.wait(0.05)
            if not h.fired:
                th.join(WATCH)
                return "setup-failed", "the call never took the wrapped lock"
            if not done.is_set():
                return "setup-failed", "the ending did not complete inside the gap"
            th.join(WATCH)
            if th.is_alive():
                return "hang", ("still blocked %ss after %s ran to completion between the call's entry and "
                                "its acquiring the condition's lock (lost wake-up)" % (WATCH, ending))
        elif phase == "after":
            cell.end(ending)
            if not _wait_inactive(cell.x, WATCH) and api not in ("start_client", "start_server"):
                return "hang", "transport still active %ss after %s" % (WATCH, ending)
            if api in ("start_client", "start_server"):
                time.sleep(0.1)
            th.start()
        else:
            cell.prepare_block()
            for i, t in enumerate(ths):
                t.start()
                if i == 0 and nwait > 1 and phase == "before":
                    time.sleep(0.15)    # e.g. the first sender exhausts the window, the second finds it at 0
            if phase == "before":
                time.sleep(0.3)         # let them reach their wait
                alive = sum(t.is_alive() for t in ths)
                if alive == 0:
                    if pre == "fresh":
                        return "setup-failed", "call did not block: %r" % (boxes,)
                    blocked = "did-not-block:"   # e.g. recv after the peer's EOF: returns at once, fine
                else:
                    blocked = "%d-parked:" % alive
            cell.end(ending)
        if phase != "gap":
            end = time.time() + WATCH
            for t in ths:
                t.join(max(0.0, end - time.time()))
        alive = sum(t.is_alive() for t in ths)
        if alive:
            return "hang", "%d of %d thread(s) still blocked %ss after %s (channel pre-state %s, option %s)" % (
                alive, nwait, WATCH, ending, pre, opt)
        if "e" in box:
            return "raised", blocked + type(box["e"]).__name__
        v = box.get("v")
        return "returned", blocked + (type(v).__name__ if not isinstance(v, (bytes, int, type(None)))
                                      else repr(v)[:20])
    finally:
        cell.cleanup()


GATED = ("shutdown_write", "send", "close", "chan_request", "send_ignore")
REKEY_STATES = ("own-kexinit-sent", "peer-kexinit-received")


def run_rekey_cell(gated, ending, state, role):
    """The connection ends while a key re-exchange is in flight (never completed) and a user thread is
    parked inside a call gated by clear_to_send.  The transport must still become inactive, the calls
    blocked on it (recv on the same channel, recv on another channel, accept) must come back, and so
    must the parked call -- all well before clear_to_send_timeout (kept at 60 s; watchdog WATCH).
    Returns (outcome, detail)."""
    try:
        cell = Cell("recv", role)
        x, y = cell.x, cell.y
        if x is cell.tc:
            chan2 = cell.tc.open_session(timeout=30)
            cell.ts.accept(30)
        else:
            cell.tc.open_session(timeout=30)
            chan2 = cell.ts.accept(30)
        if chan2 is None:
            raise RuntimeError("second channel not accepted")
    except Exception as e:   # noqa
        return "setup-failed", repr(e)
    try:
        chan = cell.chan
        names = ["recv(same channel)", "recv(other channel)", "accept"]
        calls = [lambda: chan.recv(8), lambda: chan2.recv(8), lambda: x.accept(None)]
        watchers = [threading.Thread(target=Cell._swallow, args=(c,), daemon=True) for c in calls]
        for w in watchers:
            w.start()
        # the re-key that never completes: the peer sees nothing from now on
        cell.sy.paused = True
        starter = x if state == "own-kexinit-sent" else y
        kx = threading.Thread(target=Cell._swallow, args=(starter.renegotiate_keys,), daemon=True)
        kx.start()
        end = time.time() + 10
        while x.clear_to_send.is_set() and time.time() < end:
            time.sleep(0.01)
        if x.clear_to_send.is_set():
            return "setup-failed", "re-key did not start (%s)" % state
        g = {"shutdown_write": chan.shutdown_write, "send": lambda: chan.send(b"abc"), "close": chan.close,
             "chan_request": lambda: chan.exec_command("true"), "send_ignore": lambda: x.send_ignore(8)}[gated]
        gt = threading.Thread(target=Cell._swallow, args=(g,), daemon=True)
        gt.start()
        time.sleep(0.3)
        if not gt.is_alive():
            return "setup-failed", "%s did not park behind the re-key" % gated
        t0 = time.time()
        cell.end(ending)
        inactive = _wait_inactive(x, WATCH)
        limit = t0 + WATCH
        for t in watchers + [gt]:
            t.join(max(0.0, limit - time.time()))
        stuck = [n for n, t in zip(names, watchers) if t.is_alive()]
        if gt.is_alive():
            stuck.append("%s (the parked call)" % gated)
        if not inactive:
            stuck.insert(0, "transport.is_active() still True")
        if stuck:
            return "hang", "%ss after %s with a re-key in flight (%s) and a thread parked in %s: %s" % (
                WATCH, ending, state, gated, "; ".join(stuck))
        return "returned", "all back %.2fs after the loss" % (time.time() - t0)
    finally:
        cell.cleanup()


def part_rekey(ctx):
    rng = ctx.rng
    cells = [(g, e, st, r) for g in GATED for e in ENDINGS for st in REKEY_STATES for r in ("std", "swap")]
    if not ctx.thorough:
        # every gated call x every ending; re-key state and side rotate with the seed
        pick = []
        for g in GATED:
            for e in ENDINGS:
                pick.append((g, e, rng.choice(REKEY_STATES), rng.choice(("std", "swap"))))
        cells = pick
    results = {}
    lock = threading.Lock()
    todo = list(cells)

    def worker():
        while True:
            with lock:
                if not todo:
                    return
                c = todo.pop()
            r = run_rekey_cell(*c)
            if r[0] != "returned":
                r2 = run_rekey_cell(*c)          # believe it only when it repeats
                if r2[0] != r[0]:
                    with lock:
                        ctx.notes.append("flaky re-key cell %s: first %s then %s" % (c, r, r2))
                    r = r2 if r2[0] == "returned" else r
            with lock:
                results[c] = r

    t0 = time.time()
    ws = [threading.Thread(target=worker, daemon=True) for _ in range(4)]
    for w in ws:
        w.start()
    for w in ws:
        w.join()
    ctx.log("re-key matrix: %d cells in %.1fs" % (len(cells), time.time() - t0))
    nsetup = 0
    for c in sorted(results):
        gated, ending, state, role = c
        out, detail = results[c]
        ctx.count(("rekey",) + c, kind="rekey-%s-%s" % (gated, ending))
        if out == "setup-failed":
            nsetup += 1
            ctx.notes.append("re-key cell %s could not be set up: %s" % (c, detail))
        elif out == "hang":
            ctx.fail("hang-during-rekey:%s:%s" % (gated, ending),
                     "connection ended by %s while a key re-exchange was in flight and a thread was parked in %s: "
                     "the transport does not become inactive / blocked calls do not return" % (ending, gated),
                     case={"gated_call": gated, "ending": ending, "rekey": state, "role": role,
                           "side": side_of("recv", role)},
                     expected="transport inactive, recv/accept and the parked call back within %ss" % WATCH,
                     observed=detail)
    if nsetup > max(2, len(results) // 5):
        ctx.disagree("too many re-key cells could not be set up (%d)" % nsetup)
    if results:
        c = sorted(results)[0]
        ctx.sample({"rekey-matrix": {"cell": c, "impl": results[c]}})


def observe_rekey_during_global_request():
    """first request answered (global_response = that Message); the peer then ignores a second
    wait=True request; the PEER re-keys; what does the pending global_request do?"""
    import paramiko
    from paramiko.common import MSG_GLOBAL_REQUEST
    cell = Cell("global_request")
    try:
        srv = cell.ts.server_object
        srv.check_global_request = lambda kind, msg: (4242,)
        first = cell.tc.global_request("first@verif", wait=True)
        first_ok = first is not None and first.get_int() == 4242
        cell.ts._handler_table[MSG_GLOBAL_REQUEST] = lambda m: None     # the second one is never answered
        box = {}

        def second():
            try:
                box["v"] = cell.tc.global_request("second@verif", wait=True)
            except BaseException as e:   # noqa
                box["e"] = e

        th = threading.Thread(target=second, daemon=True)
        th.start()
        time.sleep(0.3)
        pending = th.is_alive()
        st, _ = with_watchdog(cell.ts.renegotiate_keys, 20)
        th.join(2.0)
        if th.is_alive():
            what = "still blocked 2s after the re-key (keeps waiting for its own answer)"
        elif "e" in box:
            what = "raised %s" % type(box["e"]).__name__
        elif box.get("v") is None:
            what = "returned None"
        elif box["v"] is first:
            what = ("returned the PREVIOUS request's response object (stale) although its own request was "
                    "never answered")
        else:
            what = "returned %r" % (box["v"],)
        return "first answered=%s, second pending before re-key=%s, re-key %s -> second %s" % (
            first_ok, pending, st, what)
    finally:
        cell.cleanup()


def all_cells():
    cells = []
    for api in APIS:
        for ending in ENDINGS:
            for phase in PHASES:
                for tmo in ((False, True) if api in USER_TIMEOUT_APIS else (False,)):
                    cells.append((api, ending, phase, tmo))
            if api in GAP_APIS:
                # forced interleaving: the ending completes between entry and taking the lock
                cells.append((api, ending, "gap", False))
    # both roles: the same API on the other side of the connection
    cells = [c + ("std",) for c in cells] + [c + ("swap",) for c in cells if c[0] in SWAP_APIS]
    # channel pre-states: the peer's EOF already received, our EOF already sent, both
    cells = [c + ("fresh",) for c in cells] + \
            [c + (pre,) for c in cells if c[0] in CHAN_APIS and c[2] != "gap" for pre in PRES[1:]]
    # channel options: fileno() called before (event attached to the in-buffers), combine_stderr on
    cells = [c + ("plain",) for c in cells] + \
            [c + (opt,) for c in cells if c[0] in CHAN_APIS and c[5] == "fresh" for opt in OPTS[1:]]
    return cells


def part_matrix(ctx):
    rng = ctx.rng
    cells = all_cells()
    must = [c for c in cells if (c[0] == "accept" and c[1] in ("local-close", "peer-close") and not c[3])
            or (c[2] == "gap" and c[6] == "plain" and (c[4] == "std" or c[0] == "accept"))
            or (c[0] == "recv" and c[6] == "fileno" and c[2] == "before" and c[4] == "std" and not c[3]
                and c[1] in ("local-close", "socket-eof"))]
    if not ctx.thorough:
        # representative subset: all formerly failing accept cells, and for every API x ending one
        # randomly chosen (phase, timeout) -- so every API meets every ending and every phase occurs
        rest = [c for c in cells if c not in must]
        rng.shuffle(rest)
        pick = list(must)
        seen = set()
        phase_count = {}
        for c in rest:
            if c[5] == "fresh" and c[6] == "plain" and (c[0], c[1], c[4]) not in seen \
                    and applicable(c[0], c[1], c[2]):
                seen.add((c[0], c[1], c[4]))
                pick.append(c)
        seen_pre = set()
        for c in rest:                       # every channel API x pre-state: blocked before AND called after
            if c[5] != "fresh" and c[4] == "std" and not c[3] and c[2] in ("before", "after") \
                    and (c[0], c[5], c[2]) not in seen_pre:
                seen_pre.add((c[0], c[5], c[2]))
                pick.append(c)
        seen_opt = set()
        for c in rest:                       # every channel API x option: blocked before AND called after
            if c[6] != "plain" and c[4] == "std" and c[2] in ("before", "after") \
                    and (c[0], c[6], c[2]) not in seen_opt:
                seen_opt.add((c[0], c[6], c[2]))
                pick.append(c)
        for c in rest:                       # ... and every API (in its usual role) in every phase
            if c not in pick and c[4] == "std" and c[5] == "fresh" and c[6] == "plain" \
                    and (c[0], c[2]) not in {(q[0], q[2]) for q in pick if q[4] == "std" and q[5] == "fresh" and q[6] == "plain"} \
                    and applicable(c[0], c[1], c[2]):
                pick.append(c)
        cells = pick
    results = {}
    lock = threading.Lock()
    todo = list(cells)

    def worker():
        while True:
            with lock:
                if not todo:
                    return
                c = todo.pop()
            if not applicable(c[0], c[1], c[2]):
                with lock:
                    results[c] = ("n/a", "")
                continue
            r = run_cell(*c)
            if r[0] in ("hang", "setup-failed"):
                r2 = run_cell(*c)          # timing-dependent: believe it only when it repeats
                if r2[0] != r[0]:
                    with lock:
                        ctx.notes.append("flaky cell %s: first %s then %s" % (c, r, r2))
                    r = r2 if r2[0] not in ("hang", "setup-failed") else r
            with lock:
                results[c] = r

    workers = [threading.Thread(target=worker, daemon=True) for _ in range(4)]
    t0 = time.time()
    for w in workers:
        w.start()
    for w in workers:
        w.join()
    ctx.log("matrix: %d cells in %.1fs" % (len(cells), time.time() - t0))

    # second accept() waiter: both must be woken by a remote ending
    for ending in ("socket-eof", "peer-close"):
        for attempt in range(2):
            cell = Cell("accept")
            try:
                ths = [threading.Thread(target=Cell._swallow, args=(lambda: cell.ts.accept(None),), daemon=True)
                       for _ in range(3)]
                for t in ths:
                    t.start()
                time.sleep(0.3)
                cell.end(ending)
                end = time.time() + WATCH
                for t in ths:
                    t.join(max(0.0, end - time.time()))
                alive = sum(t.is_alive() for t in ths)
            finally:
                cell.cleanup()
            if alive == 0:
                break
        ctx.count(("accept-3-waiters", ending), kind="matrix-multi-waiter")
        if alive:
            ctx.fail("hang:accept:%s" % ending,
                     "%d of 3 threads blocked in accept(None) are not woken when the connection ends" % alive,
                     case={"api": "accept", "ending": ending, "waiters": 3}, expected="all return None",
                     observed="%d still blocked after %ss" % (alive, WATCH))

    try:
        ctx.notes.append("re-key completing while global_request(wait=True) is pending (observation only, "
                         "C18 engineer's note; not a C13 verdict): " + observe_rekey_during_global_request())
    except Exception as e:   # noqa
        ctx.notes.append("re-key/global_request observation could not be made: %r" % (e,))

    model_cases = []
    keys = []
    outcomes = {}
    for c in sorted(results):
        api, ending, phase, tmo, role, pre, opt = c
        out, detail = results[c]
        if out == "n/a":
            continue
        side = side_of(api, role)
        tag = api if role == "std" else "%s@%s" % (api, side)
        ctx.count(c, kind="matrix-%s-%s%s%s" % (ending, phase, "" if role == "std" else "-otherside",
                                                 ("" if pre == "fresh" else "-" + pre) +
                                                 ("" if opt == "plain" else "-" + opt)))
        outcomes.setdefault("%s/%s" % (out, detail), 0)
        outcomes["%s/%s" % (out, detail)] += 1
        if out == "setup-failed":
            ctx.notes.append("cell %s could not be set up: %s" % (c, detail))
            continue
        returned = out in ("returned", "raised")
        model_cases.append((coq((API_CODE[api], ENDING_CODE[ending], tmo, PHASE_K[phase])),
                            [1 if returned else 0, 1]))
        keys.append(c)
        if not returned:
            ctx.fail("hang:%s:%s" % (tag, ending),
                     "%s on the %s transport is still blocked %ss after the connection ended by %s" % (
                         api, side, WATCH, ending),
                     case={"api": api, "ending": ending, "phase": phase, "timeout": tmo, "role": role,
                           "side": side, "channel_pre_state": pre, "channel_option": opt,
                           "threads_parked": (3 if api == "recv" else 2)
                           if (phase in ("before", "during") and api in MULTI_APIS) else 1},
                     expected="returns or raises promptly", observed=detail)
        # a call that outlives the connection must not pretend success
        if returned and api in ("open_channel", "auth", "chan_request", "start_client", "start_server",
                                "renegotiate_keys") and out == "returned":
            ctx.fail("success-after-loss:%s:%s" % (tag, ending),
                     "%s returned normally although the connection ended before any answer" % api,
                     case={"api": api, "ending": ending, "phase": phase, "timeout": tmo, "role": role,
                           "side": side}, expected="exception", observed=detail)
    ctx.notes.append("matrix outcomes: %s" % sorted(outcomes.items()))
    bad = safe_mismatches(ctx, "run_cell", "(Z * Z * bool * Z)", model_cases)
    for i in bad[:5]:
        ctx.disagree("cell outcome differs from the wake-graph model's prediction",
                     case=dict(zip(("api", "ending", "phase", "timeout", "role", "pre", "opt"), keys[i])), model="returns",
                     impl=results[keys[i]])
    for c in keys[:2]:
        ctx.sample({"matrix": {"cell": c, "impl": results[c], "model": "returns"}})
    nsetup = sum(1 for c in results if results[c][0] == "setup-failed")
    if nsetup > max(2, len(results) // 10):
        ctx.disagree("too many matrix cells could not be set up (%d)" % nsetup)


# =====================================================================================================

def run(ctx):
    ctx.rule = ("A: seeded scripts of socket results (data chunks, timeouts, EAGAIN, errors, EOF, flags) for "
                "Packetizer.read_all; B: seeded scripts of select/os.read/time results for ProxyCommand.recv plus "
                "real short-lived subprocesses; C: matrix of blocking API x {peer DISCONNECT, socket EOF, damaged "
                "packet / bad banner, local close()} x {blocked before, racing, called after} x {no timeout, caller "
                "timeout}, plus for accept/recv/send the forced interleaving 'the ending runs to completion between "
                "the call's entry and its acquiring the condition's lock' (instance lock wrapped); in the before/racing phases accept/recv/send/"
                "exit_status/open_channel/global_request/send_ignore are parked by TWO threads at once on the same "
                "object (send: sendall + sendall_stderr) and all must return; every cell also on the other side of "
                "the connection where the API exists there; channel APIs additionally from the channel pre-states "
                "{peer EOF received, EOF sent, both} (blocked before and called after) and with the documented "
                "non-default channel options {fileno() called before = event attached to the in-buffers, "
                "combine_stderr on}; recv is parked by three threads (recv x2 + recv_stderr).  D: every ending "
                "while a key re-exchange is in flight (own KEXINIT sent / peer KEXINIT received, never completed) "
                "and a user thread is parked in a clear_to_send-gated call (shutdown_write, send, close, channel "
                "request, send_ignore): transport inactive, recv on that and on another channel, accept and the "
                "parked call all back within the watchdog (clear_to_send_timeout stays 60 s) on fresh in-process Transport pairs (quick: every API x ending and API x phase once + all accept and forced-interleaving cells; "
                "thorough: all cells), watchdog %ss, one retry before a hang is believed.  A case is non-trivial "
                "when distinct and its script / cell is not empty." % WATCH)
    ctx.trusted += ["translator gen/c13.py (AST -> wake graph), fail-closed on unrecognised statements",
                    "identification of model actions with source statements and test-and-wait atomicity of "
                    "Condition waits (hand-made, exercised by the matrix)",
                    "threading.Event/Condition, select, os.read, subprocess, the scheduler (outside the model)"]
    ctx.assumptions += ["C13_polling_returns: some check of `active` happens at or after the loss (the clock "
                        "advances: Event.wait(period) returns) and every wait lasts at most `period`",
                        "C13_every_api: Condition test-and-wait is atomic w.r.t. notify_all (lock discipline)"]
    ctx.prove()
    scale = 6 if ctx.thorough else 1
    part_read_all(ctx, 400 * scale)
    part_proxy(ctx, 250 * scale)
    part_matrix(ctx)
    part_rekey(ctx)


def replay(ctx, rep):
    case = rep.get("case") or {}
    if "gated_call" in case:
        ctx.prove()
        c = (case["gated_call"], case["ending"], case["rekey"], case.get("role", "std"))
        r = run_rekey_cell(*c)
        if r[0] == "hang":
            r = run_rekey_cell(*c)
        ctx.count(c)
        ctx.count(("replay", c))
        if r[0] == "hang":
            ctx.fail(rep["key"], rep["what"], case=case, expected=rep.get("expected"), observed=r[1])
    elif "api" in case and "phase" in case:
        ctx.prove()
        c = (case["api"], case["ending"], case["phase"], bool(case.get("timeout")), case.get("role", "std"),
             case.get("channel_pre_state", "fresh"), case.get("channel_option", "plain"))
        r = run_cell(*c)
        if r[0] == "hang":
            r = run_cell(*c)
        ctx.count(c)
        ctx.count(("replay", c))
        if r[0] == "hang":
            ctx.fail(rep["key"], rep["what"], case=case, expected="returns or raises promptly", observed=r[1])
    else:
        run(ctx)
