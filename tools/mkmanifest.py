#!/usr/bin/env python3
"""Regenerate /verif/MANIFEST.json from the harness modules that exist.

Each harness/cNN.py declares LEVEL_TEXT, LEVEL_NOTE, TECHNIQUE (strings).  A property with
no module yet is listed under not_applicable with the reason given in NOT_BUILT (kept
current by hand in this file)."""
import ast
import json
import os

V = os.path.dirname(os.path.dirname(os.path.abspath(__file__)))
NOT_BUILT = {}  # pid -> reason (filled below for properties genuinely not claimed)

def consts(path):
    tree = ast.parse(open(path).read())
    out = {}
    for node in tree.body:
        if isinstance(node, ast.Assign) and len(node.targets) == 1 and isinstance(node.targets[0], ast.Name):
            try:
                out[node.targets[0].id] = ast.literal_eval(node.value)
            except Exception:
                pass
    return out

def main():
    pids = [json.loads(l)["id"] for l in open(os.path.join(V, "properties.jsonl"))]
    checks, na = [], []
    claimed = set(open(os.path.join(V, "claimed.txt")).read().split())
    for pid in pids:
        mod = os.path.join(V, "harness", pid.lower() + ".py")
        props = os.path.join(V, "coq", "Props", pid + "_props.v")
        if pid in claimed and os.path.exists(mod) and os.path.exists(props):
            c = consts(mod)
            checks.append({
                "property_id": pid,
                "quick_cmd": "./check %s --tier quick" % pid,
                "thorough_cmd": "./check %s --tier thorough" % pid,
                "evidence_file": "/verif/evidence/%s.json" % pid,
                "replay_cmd_template": "./check %s --replay {path}" % pid,
                "engine": "coq-proof+correspondence",
                "level_claimed": {"category": "proof", "text": c.get("LEVEL_TEXT", ""),
                                  "design_ref": "DESIGN.md section 7, %s" % pid},
                "level_note": c.get("LEVEL_NOTE", ""),
                "technique": c.get("TECHNIQUE", "machine-checked Coq proof over an executable model + differential correspondence with the implementation"),
            })
        else:
            na.append({"property_id": pid, "reason": NOT_BUILT.get(pid, "not claimed yet: the Coq model, theorems and correspondence harness for this property have not been built (no technique switch is made)")})
    man = {
        "version": 1,
        "setup_cmd": "./setup.sh",
        "hooks": {"guard": "PARAMIKO_VERIF", "enable": "no in-repo hooks are needed; checks import /repo directly (PYTHONPATH=/repo)",
                  "baseline_off_cmd": "cd /repo && /venv/bin/python -m pytest -ra -q -p no:cacheprovider --timeout=900 --continue-on-collection-errors",
                  "source_commits": [], "add_only": True},
        "engines": [{"name": "coq-proof+correspondence", "path": "/verif/check",
                     "serves_properties": [c["property_id"] for c in checks],
                     "kind_free_text": "Coq 8.16.1 theorems over hand-written executable Gallina models (coq/Model, coq/Proofs, coq/Props), tables regenerated from /repo by gen/*.py, and a differential correspondence harness (harness/*.py) that evaluates the model's own definitions with vm_compute and the real paramiko on the same generated inputs"}],
        "checks": checks,
        "not_applicable": na,
        "notes": "See DESIGN.md. Every check: regenerate Gen/*.v from the working tree, make proofs, compile Props/<id>_props.v (fresh Print Assumptions), run correspondence and the implementation-level oracle, write evidence/<id>.json.",
    }
    json.dump(man, open(os.path.join(V, "MANIFEST.json"), "w"), indent=1)
    print("checks:", len(checks), "not_applicable:", len(na))

if __name__ == "__main__":
    main()
