(* C06 -- key exchange agrees on a secret and authenticates the server's host key.
   Property statements only; every proof is `exact <lemma from Proofs/C06_proofs.v>`.
   hash / sign / verify / the EC scalar multiplications are library primitives: they are universally
   quantified and the theorems carry their idealised properties as explicit premises. *)
From PV Require Import Bytes C39 C06_gen C06 C06_proofs.
Open Scope Z_scope.

(* Diffie-Hellman: (g^x mod p)^y mod p = (g^y mod p)^x mod p, for every modulus p > 0 *)
Theorem C06_dh_agree :
  forall g x y p, 0 < p -> 0 <= x -> 0 <= y -> (g ^ x mod p) ^ y mod p = (g ^ y mod p) ^ x mod p.
Proof. exact dh_agree. Qed.
Print Assumptions C06_dh_agree.

(* the same transcript gives the same hash input on both sides: for every engine the client handler
   and the server handler contain the same ordered hm.add... calls (generated layout tables), and
   the server writes the reply fields in the order and kinds the client reads them *)
Theorem C06_same_H :
  forall f t, exchange_hash_input f Client t = exchange_hash_input f Server t /\
              layout f Client = layout f Server /\ reply_sent f = reply_read f.
Proof. exact same_H_full. Qed.
Print Assumptions C06_same_H.

(* the transcript encoding is injective: two transcripts with the same hash input agree on every
   field the engine hashes -- in particular V_C, V_S, I_C, I_S, K_S, K and both public values
   (e, f as mpints for group1/14/16 and gex; Q_C, Q_S as strings for ECDH / X25519) *)
Theorem C06_hash_input_injective :
  forall f r t1 t2 bs,
    t_old t1 = t_old t2 -> t_wf f r t1 = true -> t_wf f r t2 = true ->
    exchange_hash_input f r t1 = Ok bs -> exchange_hash_input f r t2 = Ok bs ->
    (forall g e, In (g, e) (layout f r) -> guard_on (t_old t1) g = true -> entry_field t1 e = entry_field t2 e) /\
    t_vc t1 = t_vc t2 /\ t_vs t1 = t_vs t2 /\ t_ic t1 = t_ic t2 /\ t_is t1 = t_is t2 /\
    t_ks t1 = t_ks t2 /\ t_k t1 = t_k t2 /\
    entry_field t1 (fst (pub_entries f)) = entry_field t2 (fst (pub_entries f)) /\
    entry_field t1 (snd (pub_entries f)) = entry_field t2 (snd (pub_entries f)).
Proof. exact injective_full. Qed.
Print Assumptions C06_hash_input_injective.

(* an unaltered exchange completes: same K and same H on both sides, the client verified the
   server's signature over H under the host key it was shown and stores that key.
   Premises: ECDH / X25519 commute (library), a signature made by the key owner verifies. *)
Theorem C06_honest_run :
  forall (hash : list Z -> list Z) (sign : Z -> list Z -> list Z) (verify : list Z -> list Z -> list Z -> bool) (sig_alg_ok sig_canonical : list Z -> bool)
         (pubblob : Z -> list Z) (ec_pub : family -> Z -> list Z) (ec_dh : family -> Z -> list Z -> Z),
    (forall f x y, ec_dh f x (ec_pub f y) = ec_dh f y (ec_pub f x)) ->
    (forall o m, verify (pubblob o) m (sign o m) = true) ->
    (forall o m, sig_alg_ok (sign o m) = true) ->
    (forall o m, sig_canonical (sign o m) = true) ->
    forall f x y o tb st_c st_s st_s' r,
      0 < t_p tb -> 0 <= x -> 0 <= y ->
      let t0 := with_client_pub ec_pub f x tb in
      server_handle hash sign pubblob ec_pub ec_dh f y o t0 st_s = Ok (st_s', r) ->
      exists st_c' k h,
        client_handle hash verify sig_alg_ok sig_canonical ec_dh f x t0 st_c r = Ok st_c' /\
        s_K st_c' = Some (PInt k) /\ s_K st_s' = Some (PInt k) /\
        s_H st_c' = Some (PBytes h) /\ s_H st_s' = Some (PBytes h) /\
        s_hostkey st_c' = Some (pubblob o) /\ verify (pubblob o) h (r_sig r) = true.
Proof. exact honest_run. Qed.
Print Assumptions C06_honest_run.

(* single-field corruption of the server's reply: host key blob swapped, f / Q_S changed (signature
   kept), or the signature replaced (host key and public value kept) -- the client never accepts.
   Premises: injective hash, symbolic signatures (only sign o m verifies for (pubblob o, m); sign
   and pubblob are injective), ECDH / X25519 commute. *)
Theorem C06_tamper_abort :
  forall (hash : list Z -> list Z) (sign : Z -> list Z -> list Z) (verify : list Z -> list Z -> list Z -> bool) (sig_alg_ok sig_canonical : list Z -> bool)
         (pubblob : Z -> list Z) (ec_pub : family -> Z -> list Z) (ec_dh : family -> Z -> list Z -> Z),
    (forall f x y, ec_dh f x (ec_pub f y) = ec_dh f y (ec_pub f x)) ->
    (forall a b, hash a = hash b -> a = b) ->
    (forall blob m sg, verify blob m sg = true -> exists o, blob = pubblob o /\ sg = sign o m) ->
    (forall o m o' m', sign o m = sign o' m' -> o = o' /\ m = m') ->
    (forall o o', pubblob o = pubblob o' -> o = o') ->
    forall f x y o tb st_c st_s st_s' r r',
      0 < t_p tb -> 0 <= x -> 0 <= y ->
      let t0 := with_client_pub ec_pub f x tb in
      server_handle hash sign pubblob ec_pub ec_dh f y o t0 st_s = Ok (st_s', r) ->
      t_wf f Server (server_transcript pubblob ec_pub ec_dh f y o t0) = true ->
      t_wf f Client (client_transcript ec_dh f x t0 r') = true ->
      single_fault f r r' ->
      forall st', client_handle hash verify sig_alg_ok sig_canonical ec_dh f x t0 st_c r' <> Ok st'.
Proof. exact tamper_abort. Qed.
Print Assumptions C06_tamper_abort.

(* a failed signature check raises SSHException (the handler stops before _activate_outbound) *)
Theorem C06_verify_fail_raises :
  forall (verify : list Z -> list Z -> list Z -> bool) (sig_alg_ok sig_canonical : list Z -> bool) st hk sg d,
    s_H st = Some (PBytes d) -> verify hk d sg = false -> verify_key verify sig_alg_ok sig_canonical st hk sg = Raise SSHExc.
Proof. exact verify_key_fail. Qed.
Print Assumptions C06_verify_fail_raises.

(* a signature blob is only ever accepted if it passed every pre-verification test present in
   _verify_key (negotiated algorithm name; no bytes after the two strings of the blob) *)
Theorem C06_accept_passes_guards :
  forall (verify : list Z -> list Z -> list Z -> bool) (sig_alg_ok sig_canonical : list Z -> bool) st hk sg st',
    verify_key verify sig_alg_ok sig_canonical st hk sg = Ok st' ->
    (verify_alg_guard = true -> sig_alg_ok sg = true) /\ (verify_canonical_guard = true -> sig_canonical sg = true).
Proof. exact verify_key_ok_guards. Qed.
Print Assumptions C06_accept_passes_guards.

(* with unforgeable signatures instead of the free algebra: if the client accepts a reply shown
   under the honest owner's host key, and that owner signed nothing but this session's H, then the
   client holds the server's K and H and hashed exactly the server's transcript -- whatever else
   the attacker changed *)
Theorem C06_accept_authentic :
  forall (hash : list Z -> list Z) (sign : Z -> list Z -> list Z) (verify : list Z -> list Z -> list Z -> bool) (sig_alg_ok sig_canonical : list Z -> bool)
         (pubblob : Z -> list Z) (ec_pub : family -> Z -> list Z) (ec_dh : family -> Z -> list Z -> Z)
         (signed : Z -> list Z -> Prop),
    (forall a b, hash a = hash b -> a = b) ->
    (forall o m sg, verify (pubblob o) m sg = true -> signed o m) ->
    forall f x y o t0 st_c st_s st_s' r r' st',
      server_handle hash sign pubblob ec_pub ec_dh f y o t0 st_s = Ok (st_s', r) ->
      (forall m, signed o m -> exists k, s_H st_s' = Some (PBytes m) /\ s_K st_s' = Some (PInt k)) ->
      t_wf f Server (server_transcript pubblob ec_pub ec_dh f y o t0) = true ->
      t_wf f Client (client_transcript ec_dh f x t0 r') = true ->
      r_ks r' = pubblob o ->
      client_handle hash verify sig_alg_ok sig_canonical ec_dh f x t0 st_c r' = Ok st' ->
      s_H st' = s_H st_s' /\ s_K st' = s_K st_s' /\ wire_pub f r' = wire_pub f r /\
      hash_fields f Server (client_transcript ec_dh f x t0 r') =
      hash_fields f Server (server_transcript pubblob ec_pub ec_dh f y o t0).
Proof. exact accept_authentic. Qed.
Print Assumptions C06_accept_authentic.

(* the V_C / V_S a side hashes is the peer's identification line exactly as received (comments,
   trailing spaces included), so both peers hash the same strings *)
Theorem C06_version_exact : forall line, stored_version line = line.
Proof. exact version_exact. Qed.
Print Assumptions C06_version_exact.

(* Transport.connect(hostkey=pinned) proceeds to authentication iff the server key the exchange
   verified has the pinned type name and the pinned blob; any other key raises before credentials
   are sent *)
Theorem C06_pinned_key_exact :
  forall sn pn sb pb, connect_pin sn pn sb pb = Ok tt <-> (sn = pn /\ sb = pb).
Proof. exact pinned_key_exact. Qed.
Print Assumptions C06_pinned_key_exact.

(* the session id is the H of the first exchange, after any sequence of exchanges and NEWKEYS *)
Theorem C06_session_id_latch :
  forall l, s_sid (run_events init_state l) = option_map PBytes (first_H l).
Proof. exact session_id_latch. Qed.
Print Assumptions C06_session_id_latch.

Theorem C06_session_id_first :
  forall k h l, s_sid (run_events init_state (EvKex k h :: l)) = Some (PBytes h).
Proof. exact session_id_first. Qed.
Print Assumptions C06_session_id_first.

(* the fast evaluator used by the correspondence run is the specification *)
Theorem C06_modpow_spec : forall a n p, p <> 0 -> modpow a n p = a ^ n mod p.
Proof. exact modpow_correct. Qed.
Print Assumptions C06_modpow_spec.

(* ---- non-vacuity ------------------------------------------------------------------------------ *)
(* a toy instance of the primitives that satisfies every premise of C06_tamper_abort / C06_honest_run:
   hash = identity, pubblob o = [o], sign o m = o :: m, verify checks exactly that, ec_dh x (pub y)
   = x * y *)
Definition toy_hash (b : list Z) : list Z := b.
Definition toy_pub (o : Z) : list Z := [o].
Definition toy_sign (o : Z) (m : list Z) : list Z := o :: m.
Definition toy_verify (blob m sg : list Z) : bool :=
  match blob with [o] => zlist_eqb sg (o :: m) | _ => false end.
Definition toy_ecpub (_ : family) (x : Z) : list Z := [x].
Definition toy_ecdh (_ : family) (x : Z) (q : list Z) : Z := x * hd 0 q.

Example C06_premises_satisfiable :
  (forall f x y, toy_ecdh f x (toy_ecpub f y) = toy_ecdh f y (toy_ecpub f x)) /\
  (forall a b, toy_hash a = toy_hash b -> a = b) /\
  (forall blob m sg, toy_verify blob m sg = true -> exists o, blob = toy_pub o /\ sg = toy_sign o m) /\
  (forall o m o' m', toy_sign o m = toy_sign o' m' -> o = o' /\ m = m') /\
  (forall o o', toy_pub o = toy_pub o' -> o = o') /\
  (forall o m, toy_verify (toy_pub o) m (toy_sign o m) = true).
Proof.
  repeat split.
  - intros f x y. unfold toy_ecdh, toy_ecpub. cbn. lia.
  - intros a b H. exact H.
  - intros blob m sg H. unfold toy_verify in H. destruct blob as [|o [|? ?]]; try discriminate.
    apply zlist_eqb_eq in H. exists o. split; [reflexivity | exact H].
  - unfold toy_sign in H. congruence.
  - unfold toy_sign in H. congruence.
  - intros o o' H. unfold toy_pub in H. congruence.
  - intros o m. unfold toy_verify, toy_pub, toy_sign. apply zlist_eqb_eq. reflexivity.
Qed.

Definition ex_base (old : bool) : transcript :=
  mkT [83; 83; 72] [83; 83; 72; 45] [20; 1; 2] [20; 3] [] [] [] 0 0 0 1024 2048 8192 23 5 old.

(* the honest server run succeeds on a concrete state for every family, the transcripts are
   well formed, and a reply with a changed f / Q_S is a single fault *)
Example C06_hypotheses_satisfiable :
  forall f, exists st' r,
    let t0 := with_client_pub toy_ecpub f 6 (ex_base false) in
    server_handle toy_hash toy_sign toy_pub toy_ecpub toy_ecdh f 15 7 t0 init_state = Ok (st', r) /\
    t_wf f Server (server_transcript toy_pub toy_ecpub toy_ecdh f 15 7 t0) = true /\
    t_wf f Client (client_transcript toy_ecdh f 6 t0 (mkR (r_ks r) (r_f r + 1) (9 :: r_qs r) (r_sig r))) = true /\
    single_fault f r (mkR (r_ks r) (r_f r + 1) (9 :: r_qs r) (r_sig r)) /\
    client_handle toy_hash toy_verify (fun _ => true) (fun _ => true) toy_ecdh f 6 t0 init_state r <> Raise SSHExc.
Proof.
  intros f. destruct f; eexists; eexists; (split; [vm_compute; reflexivity|]);
    (split; [vm_compute; reflexivity|]); (split; [vm_compute; reflexivity|]);
    (split; [left; split; [reflexivity | right; vm_compute; congruence] | vm_compute; congruence]).
Qed.
