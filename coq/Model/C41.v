(* C41 — model of paramiko/hostkeys.py: HostKeys.add / load / save / lookup (and the
   SubDict it returns) / _hostname_matches / _has_entry / check / __delitem__ / clear / keys.
   Definitions only; proofs are in Proofs/C41_proofs.v.

   Abstractions (tied to the real code by the correspondence run of harness/c41.py):
   - a host name is  Nm hashed id : `hashed` says whether the string starts with "|1|",
     `id` identifies the string (equal strings <-> equal ids, done by the harness);
   - HMAC-SHA1 host hashing is an oracle relation given per case as an association list
     hm : list (plain id * hashed-token id), "hash_host(plain, token) == token";
   - a key is (key type id, key blob id); asbytes() equality is equality of both ids
     (the blob starts with the type name, so equal blobs have equal types);
   - a known_hosts file is the list of its lines after HostKeyEntry.from_line:
     LSkip (blank, comment, fewer than 3 fields, unknown key type, SSHException) or
     LEntry names key.  Entries whose key is None (HostKeys.__setitem__ with an empty
     dict, "don't use this please") are outside the model. *)
From PV Require Import Bytes C41_gen.
Open Scope Z_scope.

Inductive name := Nm (hashed : bool) (id : Z).
Definition is_hashed (n : name) : bool := match n with Nm h _ => h end.
Definition name_id (n : name) : Z := match n with Nm _ i => i end.
Definition name_eqb (a b : name) : bool :=
  Bool.eqb (is_hashed a) (is_hashed b) && (name_id a =? name_id b).

Definition key := (Z * Z)%type.               (* (type id, blob id) *)
Definition ktype (k : key) : Z := fst k.
Definition key_eqb (a b : key) : bool := (fst a =? fst b) && (snd a =? snd b).

Definition entry := (list name * key)%type.   (* HostKeyEntry: hostnames, key *)
Definition state := list entry.               (* HostKeys._entries *)

Inductive line := LSkip | LEntry (names : list name) (k : key).

Definition hmap := list (Z * Z).
Definition hash_match (hm : hmap) (plain tok : Z) : bool :=
  existsb (fun c => (fst c =? plain) && (snd c =? tok)) hm.

(* ---- _hostname_matches ------------------------------------------------- *)
(* h == hostname or h.startswith("|1|") and not hostname.startswith("|1|")
   and constant_time_bytes_eq(self.hash_host(hostname, h), h) *)
Definition name_matches (hm : hmap) (q h : name) : bool :=
  name_eqb h q ||
  (is_hashed h && negb (is_hashed q) && hash_match hm (name_id q) (name_id h)).

Definition hostname_matches (hm : hmap) (q : name) (e : entry) : bool :=
  existsb (name_matches hm q) (fst e).

(* ---- lookup and the SubDict -------------------------------------------- *)
(* entries = [e for e in self._entries if self._hostname_matches(hostname, e)];
   None when empty *)
Definition lookup (hm : hmap) (st : state) (q : name) : list entry :=
  filter (hostname_matches hm q) st.

Definition subdict_keys (es : list entry) : list Z := map (fun e => ktype (snd e)) es.

(* SubDict.__getitem__ : first entry whose key has that type *)
Definition subdict_get (es : list entry) (t : Z) : option key :=
  match find (fun e => ktype (snd e) =? t) es with
  | Some e => Some (snd e)
  | None => None
  end.

(* the effective key of a host for a key type (what dict(hostkeys[host]) maps t to) *)
Definition eff (hm : hmap) (st : state) (q : name) (t : Z) : option key :=
  subdict_get (lookup hm st q) t.

(* ---- check -------------------------------------------------------------- *)
Definition check (hm : hmap) (st : state) (q : name) (k : key) : bool :=
  match lookup hm st q with
  | [] => false                                   (* k is None *)
  | es => match subdict_get es (ktype k) with
          | None => false                         (* host_key is None *)
          | Some hk => key_eqb hk k               (* asbytes() equality *)
          end
  end.

(* ---- _has_entry (added by the repair) ------------------------------------ *)
Definition has_entry (hm : hmap) (st : state) (h : name) (k : key) : bool :=
  existsb (fun e => hostname_matches hm h e && key_eqb (snd e) k) st.

(* ---- add(hostname, keytype, key) ---------------------------------------- *)
(* for e in entries: if hostname in e.hostnames and e.key.get_name() == keytype:
       e.key = key; return
   entries.append(HostKeyEntry([hostname], key)) *)
Fixpoint add_replace (st : state) (h : name) (t : Z) (k : key) : option state :=
  match st with
  | [] => None
  | e :: r =>
      if existsb (name_eqb h) (fst e) && (ktype (snd e) =? t) then Some ((fst e, k) :: r)
      else match add_replace r h t k with
           | Some r' => Some (e :: r')
           | None => None
           end
  end.

Definition add (st : state) (h : name) (t : Z) (k : key) : state :=
  match add_replace st h t k with
  | Some st' => st'
  | None => st ++ [([h], k)]
  end.

(* ---- load ---------------------------------------------------------------- *)
(* list.remove(x): delete the first element equal to x *)
Fixpoint remove_first (h : name) (l : list name) : list name :=
  match l with
  | [] => []
  | x :: r => if name_eqb x h then r else x :: remove_first h r
  end.

(* repaired loop:  for h in list(entry.hostnames):
                       if self._has_entry(h, entry.key): entry.hostnames.remove(h) *)
Definition prune (known : name -> bool) (names : list name) : list name :=
  fold_left (fun cur h => if known h then remove_first h cur else cur) names names.

(* the loop as it was before the repair:
     for h in entry.hostnames: if ...: entry.hostnames.remove(h)
   Python's list iterator is an index into the live list. *)
Fixpoint prune_v0 (fuel : nat) (known : name -> bool) (cur : list name) (i : nat) : list name :=
  match fuel with
  | O => cur
  | S f =>
      match nth_error cur i with
      | None => cur
      | Some h => prune_v0 f known (if known h then remove_first h cur else cur) (S i)
      end
  end.

(* The loader of the working tree.  Which list the loop iterates over and which duplicate test it
   uses are read from the source by gen/c41.py (Gen/C41_gen.v); on the repaired source both are
   true, i.e. prune over a copy with _has_entry. *)
Definition load_line (hm : hmap) (st : state) (l : line) : state :=
  match l with
  | LSkip => st
  | LEntry names k =>
      let known := if gen_load_uses_has_entry then (fun h => has_entry hm st h k)
                   else (fun h => check hm st h k) in
      match (if gen_load_iterates_copy then prune known names
             else prune_v0 (length names) known names 0%nat) with
      | [] => st
      | names' => st ++ [(names', k)]
      end
  end.

Definition load (hm : hmap) (st : state) (f : list line) : state :=
  fold_left (load_line hm) f st.

(* A text line whose third field is not valid base64 (e.g. a truncated key, or a line that
   starts with an @cert-authority / @revoked marker, which shifts the fields) makes from_line
   raise InvalidHostKey; that is not an SSHException, so it escapes load: the lines before it
   have been loaded, the lines after it are never read. *)
Inductive tline := TLine (l : line) | TBad.
Fixpoint good_prefix (f : list tline) : list line * bool :=
  match f with
  | [] => ([], false)
  | TBad :: _ => ([], true)
  | TLine l :: r => let '(p, b) := good_prefix r in (l :: p, b)
  end.
Definition invalid_host_key : exn := LibExc 1.
Definition load_t (hm : hmap) (st : state) (f : list tline) : state * Z :=
  let '(p, bad) := good_prefix f in
  (load hm st p, if bad then exn_code invalid_host_key else 0).

(* ---- the code before the repair (documentation of the defect): live list + check() ---- *)
Definition load_line_v0 (hm : hmap) (st : state) (l : line) : state :=
  match l with
  | LSkip => st
  | LEntry names k =>
      match prune_v0 (length names) (fun h => check hm st h k) names 0%nat with
      | [] => st
      | names' => st ++ [(names', k)]
      end
  end.
Definition load_v0 (hm : hmap) (st : state) (f : list line) : state :=
  fold_left (load_line_v0 hm) f st.

(* iterating over a copy but still suppressing duplicates with check() only *)
Definition load_line_v1 (hm : hmap) (st : state) (l : line) : state :=
  match l with
  | LSkip => st
  | LEntry names k =>
      match prune (fun h => check hm st h k) names with
      | [] => st
      | names' => st ++ [(names', k)]
      end
  end.
Definition load_v1 (hm : hmap) (st : state) (f : list line) : state :=
  fold_left (load_line_v1 hm) f st.

(* ---- save ---------------------------------------------------------------- *)
(* one line per entry: ",".join(hostnames) keytype base64 *)
Definition save (st : state) : list line := map (fun e => LEntry (fst e) (snd e)) st.

(* ---- __delitem__ --------------------------------------------------------- *)
Fixpoint delitem (hm : hmap) (st : state) (q : name) : result state :=
  match st with
  | [] => Raise KeyErr
  | e :: r =>
      if hostname_matches hm q e then Ok r
      else bind (delitem hm r q) (fun r' => Ok (e :: r'))
  end.

(* ---- keys() -------------------------------------------------------------- *)
Fixpoint keys_acc (ret : list name) (l : list name) : list name :=
  match l with
  | [] => ret
  | h :: r => keys_acc (if existsb (name_eqb h) ret then ret else ret ++ [h]) r
  end.
Definition keys (st : state) : list name := keys_acc [] (flat_map fst st).

(* ---- specification vocabulary (used by the theorems) ---------------------- *)
(* entry e lists host q, in plain or hashed form *)
Definition lists (hm : hmap) (q : name) (e : entry) : Prop :=
  exists h, In h (fst e) /\
    (h = q \/ (is_hashed h = true /\ is_hashed q = false /\ In (name_id q, name_id h) hm)).

(* ---- operation sequences and the canonical observation --------------------- *)
(* ---- SubDict.__setitem__ / __delitem__ (hostkeys[q][t] = k ; del hostkeys[q][t]) ---------- *)
(* __setitem__: the first listing entry of that type gets the key (the entry object is shared
   with the table); otherwise HostKeyEntry([q], k) is appended to the table *)
Fixpoint sub_replace (hm : hmap) (st : state) (q : name) (t : Z) (k : key) : option state :=
  match st with
  | [] => None
  | e :: r =>
      if hostname_matches hm q e && (ktype (snd e) =? t) then Some ((fst e, k) :: r)
      else match sub_replace hm r q t k with
           | Some r' => Some (e :: r')
           | None => None
           end
  end.
Definition sub_set (hm : hmap) (st : state) (q : name) (t : Z) (k : key) : result state :=
  match lookup hm st q with
  | [] => Raise TypeErr                           (* lookup returned None *)
  | _ => match sub_replace hm st q t k with
         | Some st' => Ok st'
         | None => Ok (st ++ [([q], k)])
         end
  end.
(* __delitem__ removes the entry from the SubDict's private list only: the table is unchanged *)
Definition sub_del (hm : hmap) (st : state) (q : name) (t : Z) : result state :=
  match lookup hm st q with
  | [] => Raise TypeErr
  | es => match subdict_get es t with
          | Some _ => Ok st
          | None => Raise KeyErr
          end
  end.

Inductive op :=
  | OAdd (h : name) (t : Z) (k : key)
  | OLoad (f : list tline)
  | ODel (q : name)
  | OClear
  | OSaveReload        (* save to a file, load it into a fresh HostKeys, continue with that *)
  | OSubSet (q : name) (t : Z) (k : key)
  | OSubDel (q : name) (t : Z).

Definition step_result (st : state) (r : result state) : state * Z :=
  match r with Ok st' => (st', 0) | Raise e => (st, exn_code e) end.

Definition step (hm : hmap) (st : state) (o : op) : state * Z :=
  match o with
  | OAdd h t k => (add st h t k, 0)
  | OLoad f => let '(st1, c) := load_t hm st f in (fst (load_t hm st1 f), c)   (* the harness loads every file twice *)
  | ODel q => step_result st (delitem hm st q)
  | OClear => ([], 0)
  | OSaveReload => (load hm [] (save st), 0)
  | OSubSet q t k => step_result st (sub_set hm st q t k)
  | OSubDel q t => step_result st (sub_del hm st q t)
  end.

Definition enc_name (n : name) : Z := 2 * name_id n + (if is_hashed n then 1 else 0).
Definition enc_key (k : key) : list Z := [fst k; snd k].
Definition enc_entry (e : entry) : list Z :=
  Z.of_nat (length (fst e)) :: map enc_name (fst e) ++ enc_key (snd e).

(* per query: the SubDict's keys() (types, with multiplicity, in order), sub[type] for each,
   then check() for every key of the case *)
Definition enc_query (hm : hmap) (st : state) (ks : list key) (q : name) : list Z :=
  let es := lookup hm st q in
  (-4) :: Z.of_nat (length es)
  :: flat_map (fun e => [ktype (snd e);
                         match subdict_get es (ktype (snd e)) with Some k => snd k | None => (-9) end]) es
  ++ (-5) :: map (fun k => if check hm st q k then 1 else 0) ks.

Definition observe (hm : hmap) (st : state) (qs : list name) (ks : list key) : list Z :=
  (-1) :: Z.of_nat (length st) :: flat_map enc_entry st
  ++ (-2) :: map enc_name (keys st)
  ++ (-3) :: flat_map (enc_query hm st ks) qs.

Fixpoint run_steps (hm : hmap) (st : state) (ops : list op) : state * list Z :=
  match ops with
  | [] => (st, [])
  | o :: r =>
      let '(st1, c) := step hm st o in
      let '(st2, cs) := run_steps hm st1 r in
      (st2, c :: Z.of_nat (length st1) :: cs)
  end.

(* case = (hash oracle, operations, query names, keys to check) *)
Definition run_case (c : hmap * list op * list name * list key) : list Z :=
  let '(hm, ops, qs, ks) := c in
  let '(st, codes) := run_steps hm [] ops in
  codes ++ observe hm st qs ks.

(* the pre-repair loader on a single file loaded twice into an empty table *)
Definition run_load_v0_twice (c : hmap * list line) : list Z :=
  let '(hm, f) := c in
  let st := load_v0 hm (load_v0 hm [] f) f in
  Z.of_nat (length st) :: flat_map enc_entry st.
