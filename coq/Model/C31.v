(* C31 — model of SFTPServer.set_file_attr (paramiko/sftp_server.py) over a modelled
   local file.  Definitions only; proofs are in Proofs/C31_proofs.v.

   A served file is (bytes, permission bits, uid, gid, atime, mtime).  The os.* calls
   the helper makes are small re-implementations of their documented behaviour
   (section 5 of DESIGN.md); the correspondence run compares them, through the real
   client and server, with the real file system. *)
From PV Require Import Bytes C31_gen.
Open Scope Z_scope.

Record file := mkfile {
  f_data : list Z; f_mode : Z; f_uid : Z; f_gid : Z; f_atime : Z; f_mtime : Z }.

(* SFTPAttributes as received by the server: _flags plus the fields *)
Record attrs := mkattrs {
  a_flags : Z; a_size : Z; a_uid : Z; a_gid : Z; a_mode : Z; a_atime : Z; a_mtime : Z }.

(* the flag bits are regenerated from paramiko/sftp_attr.py on every run (Gen/C31_gen.v) *)
Definition FLAG_SIZE : Z := gen_FLAG_SIZE.
Definition FLAG_UIDGID : Z := gen_FLAG_UIDGID.
Definition FLAG_PERMISSIONS : Z := gen_FLAG_PERMISSIONS.
Definition FLAG_AMTIME : Z := gen_FLAG_AMTIME.

(* Python's `if attr._flags & attr.FLAG_X:` *)
Definition has (a : attrs) (flag : Z) : bool := negb (Z.land (a_flags a) flag =? 0).

(* ---- the local file system calls (specification side) ------------------- *)
(* os.chmod: the permission bits (incl. setuid/setgid/sticky) become mode & 07777 *)
Definition os_chmod (f : file) (mode : Z) : file :=
  mkfile (f_data f) (Z.land mode 4095) (f_uid f) (f_gid f) (f_atime f) (f_mtime f).

(* os.chown with both ids given *)
Definition os_chown (f : file) (uid gid : Z) : file :=
  mkfile (f_data f) (f_mode f) uid gid (f_atime f) (f_mtime f).

(* os.utime(path, (atime, mtime)) *)
Definition os_utime (f : file) (atime mtime : Z) : file :=
  mkfile (f_data f) (f_mode f) (f_uid f) (f_gid f) atime mtime.

(* the bytes of a file after truncate(n): leading bytes kept, zero padded *)
Definition resize (d : list Z) (n : Z) : list Z :=
  firstn (Z.to_nat n) d ++ repeat 0 (Z.to_nat n - length d).

(* os.truncate(path, n); the modification time becomes the current time `now`,
   an input of the step *)
Definition os_truncate (now : Z) (f : file) (n : Z) : file :=
  mkfile (resize (f_data f) n) (f_mode f) (f_uid f) (f_gid f) (f_atime f) now.

(* ---- Python file objects (what the size step is written with) ------------ *)
(* open(filename, "r+"): contents untouched *)
Definition py_open_rplus (f : file) : file := f.
(* open(filename, "w+"): O_TRUNC empties the file (and touches mtime) *)
Definition py_open_wplus (now : Z) (f : file) : file :=
  mkfile [] (f_mode f) (f_uid f) (f_gid f) (f_atime f) now.
(* f.truncate(n) on the open file *)
Definition py_ftruncate (now : Z) (f : file) (n : Z) : file := os_truncate now f n.

(* ---- SFTPServer.set_file_attr, statement by statement ---------------------- *)
Definition step_chmod (a : attrs) (f : file) : file :=
  if has a FLAG_PERMISSIONS then os_chmod f (a_mode a) else f.
Definition step_chown (a : attrs) (f : file) : file :=
  if has a FLAG_UIDGID then os_chown f (a_uid a) (a_gid a) else f.
Definition step_utime (a : attrs) (f : file) : file :=
  if has a FLAG_AMTIME then os_utime f (a_atime a) (a_mtime a) else f.
(* with open(filename, "r+") as f: f.truncate(attr.st_size) *)
Definition step_size (now : Z) (a : attrs) (f : file) : file :=
  if has a FLAG_SIZE then py_ftruncate now (py_open_rplus f) (a_size a) else f.

Definition set_file_attr (now : Z) (f : file) (a : attrs) : file :=
  step_size now a (step_utime a (step_chown a (step_chmod a f))).

(* the steps above, as (flag tested, action code of gen/c31.py) in the order they are applied;
   Proofs/C31_proofs.v shows this is the list regenerated from the source (gen_steps) *)
Definition modelled_steps : list (Z * Z) :=
  [(FLAG_PERMISSIONS, 1); (FLAG_UIDGID, 2); (FLAG_AMTIME, 3); (FLAG_SIZE, 4)].

(* the size step as it was before the repair (open "w+"), kept to state what the
   oracle of the harness guards against *)
Definition step_size_wplus (now : Z) (a : attrs) (f : file) : file :=
  if has a FLAG_SIZE then py_ftruncate now (py_open_wplus now f) (a_size a) else f.
Definition set_file_attr_wplus (now : Z) (f : file) (a : attrs) : file :=
  step_size_wplus now a (step_utime a (step_chown a (step_chmod a f))).

(* Both the by-path request (SETSTAT -> server.chattr(path, attr)) and the by-handle
   request (FSETSTAT -> handle.chattr(attr)) of the standard helper end in
   set_file_attr on the file's name. *)
Definition setstat (now : Z) (f : file) (a : attrs) : file := set_file_attr now f a.
Definition fsetstat (now : Z) (f : file) (a : attrs) : file := set_file_attr now f a.

(* SFTPAttributes._pack: the flags follow from which fields the client set *)
Definition flags_of (size : option Z) (ids : option (Z * Z)) (mode : option Z)
                    (times : option (Z * Z)) : Z :=
  (match size with Some _ => FLAG_SIZE | None => 0 end) +
  (match ids with Some _ => FLAG_UIDGID | None => 0 end) +
  (match mode with Some _ => FLAG_PERMISSIONS | None => 0 end) +
  (match times with Some _ => FLAG_AMTIME | None => 0 end).

Definition mk_attrs (size : option Z) (ids : option (Z * Z)) (mode : option Z)
                    (times : option (Z * Z)) : attrs :=
  mkattrs (flags_of size ids mode times)
          (match size with Some n => n | None => 0 end)
          (match ids with Some (u, _) => u | None => 0 end)
          (match ids with Some (_, g) => g | None => 0 end)
          (match mode with Some m => m | None => 0 end)
          (match times with Some (t, _) => t | None => 0 end)
          (match times with Some (_, t) => t | None => 0 end).

(* the four client calls (SFTPClient.chmod/chown/utime/truncate and the SFTPFile
   methods of the same names build exactly these attribute records) *)
Definition req_chmod (m : Z) : attrs := mk_attrs None None (Some m) None.
Definition req_chown (u g : Z) : attrs := mk_attrs None (Some (u, g)) None None.
Definition req_utime (t1 t2 : Z) : attrs := mk_attrs None None None (Some (t1, t2)).
Definition req_truncate (n : Z) : attrs := mk_attrs (Some n) None None None.

(* ---- sequences of requests on one file, with other writers in between --------- *)
(* each request is served on its own: the model of a sequence is the fold of the
   per-request semantics; what happens to the file between two requests (a write through
   the handle or by another process, an os.utime by somebody else) is an environment step *)

(* pwrite(off, b): holes are zero filled *)
Definition write_at (d : list Z) (off : Z) (b : list Z) : list Z :=
  match b with
  | [] => d
  | _ => let o := Z.to_nat off in
         firstn o d ++ repeat 0 (o - length d) ++ b ++ skipn (o + length b) d
  end.

(* a write at time `now`; `atime` is the access time observed afterwards *)
Definition env_write (atime now : Z) (f : file) (off : Z) (b : list Z) : file :=
  mkfile (write_at (f_data f) off b) (f_mode f) (f_uid f) (f_gid f) atime now.

Inductive step :=
  | SAttr (by_handle : bool) (now : Z) (size : option Z) (ids : option (Z * Z)) (mode : option Z)
          (times : option (Z * Z))
  | SWrite (atime now off : Z) (b : list Z)
  | STouch (atime mtime : Z).

Definition do_step (f : file) (s : step) : file :=
  match s with
  | SAttr h now size ids mode times =>
      if h then fsetstat now f (mk_attrs size ids mode times)
      else setstat now f (mk_attrs size ids mode times)
  | SWrite atime now off b => env_write atime now f off b
  | STouch t1 t2 => os_utime f t1 t2
  end.

(* the four single-purpose client calls and their os.* counterparts, for the sequence theorem *)
Inductive op := OChmod (m : Z) | OChown (u g : Z) | OUtime (t1 t2 : Z) | OTruncate (now n : Z).
Inductive event := EOp (by_handle : bool) (o : op) | EEnv (g : file -> file).

Definition sftp_op (h : bool) (f : file) (o : op) : file :=
  let send := if h then fsetstat else setstat in
  match o with
  | OChmod m => send 0 f (req_chmod m)
  | OChown u g => send 0 f (req_chown u g)
  | OUtime t1 t2 => send 0 f (req_utime t1 t2)
  | OTruncate now n => send now f (req_truncate n)
  end.
Definition os_op (f : file) (o : op) : file :=
  match o with
  | OChmod m => os_chmod f m
  | OChown u g => os_chown f u g
  | OUtime t1 t2 => os_utime f t1 t2
  | OTruncate now n => os_truncate now f n
  end.
Definition sftp_event (f : file) (e : event) : file :=
  match e with EOp h o => sftp_op h f o | EEnv g => g f end.
Definition os_event (f : file) (e : event) : file :=
  match e with EOp _ o => os_op f o | EEnv g => g f end.

(* ---- every kind of target ---------------------------------------------------------- *)
(* what the served name resolves to.  All four os.* calls follow symbolic links, so a name
   that is a link to X is the node X (the link itself is never touched); a dangling link, a
   name under a missing directory and a name removed since the handle was opened are NMissing.
   A directory carries the same metadata record (its f_data is not used). *)
Inductive node := NFile (f : file) | NDir (f : file) | NMissing.

Definition SFTP_OK : Z := 0.
Definition SFTP_NO_SUCH_FILE : Z := 2.     (* convert_errno ENOENT / ENOTDIR *)
Definition SFTP_FAILURE : Z := 4.          (* convert_errno of anything else, e.g. EISDIR *)

Definition any_step (a : attrs) : bool :=
  has a FLAG_PERMISSIONS || has a FLAG_UIDGID || has a FLAG_AMTIME || has a FLAG_SIZE.

(* set_file_attr on a node, with the status the stub's chattr answers: the first os.* call that
   raises ends the request (earlier steps stay applied) *)
Definition set_node_attr (now : Z) (n : node) (a : attrs) : node * Z :=
  match n with
  | NFile f => (NFile (set_file_attr now f a), SFTP_OK)
  | NDir f =>
      let f' := step_utime a (step_chown a (step_chmod a f)) in
      (* open(dirname, "r+") raises IsADirectoryError *)
      (NDir f', if has a FLAG_SIZE then SFTP_FAILURE else SFTP_OK)
  | NMissing => (NMissing, if any_step a then SFTP_NO_SUCH_FILE else SFTP_OK)
  end.

(* the os.* calls themselves on a node: Some errno-class status, or the new node *)
Definition os_chmod_node (n : node) (m : Z) : node * Z :=
  match n with NFile f => (NFile (os_chmod f m), SFTP_OK) | NDir f => (NDir (os_chmod f m), SFTP_OK)
             | NMissing => (NMissing, SFTP_NO_SUCH_FILE) end.
Definition os_chown_node (n : node) (u g : Z) : node * Z :=
  match n with NFile f => (NFile (os_chown f u g), SFTP_OK) | NDir f => (NDir (os_chown f u g), SFTP_OK)
             | NMissing => (NMissing, SFTP_NO_SUCH_FILE) end.
Definition os_utime_node (n : node) (t1 t2 : Z) : node * Z :=
  match n with NFile f => (NFile (os_utime f t1 t2), SFTP_OK) | NDir f => (NDir (os_utime f t1 t2), SFTP_OK)
             | NMissing => (NMissing, SFTP_NO_SUCH_FILE) end.
Definition os_truncate_node (now : Z) (n : node) (k : Z) : node * Z :=
  match n with NFile f => (NFile (os_truncate now f k), SFTP_OK) | NDir f => (NDir f, SFTP_FAILURE)
             | NMissing => (NMissing, SFTP_NO_SUCH_FILE) end.

(* ---- the handle table of one SFTPServer instance ------------------------------------- *)
(* _send_handle_response names a new handle "hx<next_handle>" and increments the counter;
   CLOSE deletes the entry; FSETSTAT looks the name up.  Each session (SFTPServer instance)
   has its own table, created in __init__. *)
Record htab := mkhtab { ht_next : Z; ht_entries : list (Z * Z) }.    (* handle number -> file id *)

Definition ht_new : htab := mkhtab 1 [].
Definition ht_open (t : htab) (fid : Z) : htab :=
  mkhtab (ht_next t + 1) ((ht_next t, fid) :: ht_entries t).
Definition ht_close (t : htab) (h : Z) : htab :=
  mkhtab (ht_next t) (filter (fun e => negb (fst e =? h)) (ht_entries t)).
Fixpoint ht_find (l : list (Z * Z)) (h : Z) : option Z :=
  match l with
  | [] => None
  | (k, v) :: r => if k =? h then Some v else ht_find r h
  end.
Definition ht_lookup (t : htab) (h : Z) : option Z := ht_find (ht_entries t) h.

Inductive hop := HOpen (fid : Z) | HClose (h : Z).
Definition ht_step (t : htab) (o : hop) : htab :=
  match o with HOpen fid => ht_open t fid | HClose h => ht_close t h end.

(* every live handle was handed out before the counter's present value *)
Definition ht_inv (t : htab) : Prop := forall k v, In (k, v) (ht_entries t) -> k < ht_next t.

(* ---- correspondence run -------------------------------------------------- *)
Definition canon_file (f : file) : list Z :=
  [f_mode f; f_uid f; f_gid f; f_atime f; f_mtime f; Z.of_nat (length (f_data f))] ++ f_data f.

(* case: (now, initial file, request fields) *)
Definition run_set_attr
  (c : Z * (list Z * Z * Z * Z * Z * Z) *
       (option Z * option (Z * Z) * option Z * option (Z * Z))) : list Z :=
  let '(now, (d, m, u, g, t1, t2), (size, ids, mode, times)) := c in
  canon_file (set_file_attr now (mkfile d m u g t1 t2) (mk_attrs size ids mode times)).

Definition canon_stat (f : file) : list Z :=
  [f_mode f; f_uid f; f_gid f; f_atime f; f_mtime f; Z.of_nat (length (f_data f))].

(* the stat after every step, then the final bytes *)
Fixpoint run_steps (f : file) (steps : list step) : list Z :=
  match steps with
  | [] => f_data f
  | s :: r => let f' := do_step f s in canon_stat f' ++ run_steps f' r
  end.

Definition run_seq (c : (list Z * Z * Z * Z * Z * Z) * list step) : list Z :=
  let '((d, m, u, g, t1, t2), steps) := c in run_steps (mkfile d m u g t1 t2) steps.

Definition canon_node (n : node) : list Z :=
  match n with
  | NFile f => 1 :: canon_file f
  | NDir f => [2; f_mode f; f_uid f; f_gid f; f_atime f; f_mtime f]
  | NMissing => [3]
  end.

(* case: (now, kind (1 file, 2 directory, 3 missing), record, request fields); output: status, node *)
Definition run_node
  (c : Z * Z * (list Z * Z * Z * Z * Z * Z) *
       (option Z * option (Z * Z) * option Z * option (Z * Z))) : list Z :=
  let '(now, kind, (d, m, u, g, t1, t2), (size, ids, mode, times)) := c in
  let f := mkfile d m u g t1 t2 in
  let n := if kind =? 1 then NFile f else if kind =? 2 then NDir f else NMissing in
  let '(n', st) := set_node_attr now n (mk_attrs size ids mode times) in
  st :: canon_node n'.
