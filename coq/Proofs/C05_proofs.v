(* C05 - lemmas about the negotiation model (coq/Model/C05.v). *)
From Coq Require Import ZArith List Bool Lia.
Import ListNotations.
From PV Require Import Bytes C05_gen C05.
Open Scope Z_scope.

(* ---- membership ------------------------------------------------------------------- *)

Lemma mem_In x l : mem x l = true <-> In x l.
Proof.
  unfold mem. rewrite existsb_exists. split.
  - intros [y [Hy He]]. apply zlist_eqb_eq in He. subst. exact Hy.
  - intros H. exists x. split; [exact H|]. apply zlist_eqb_eq. reflexivity.
Qed.

Lemma mem_false x l : mem x l = false <-> ~ In x l.
Proof.
  rewrite <- mem_In. destruct (mem x l); intuition congruence.
Qed.

Lemma strip_In x l : In x (strip_markers l) <-> In x l /\ is_marker x = false.
Proof. unfold strip_markers. rewrite filter_In, negb_true_iff. tauto. Qed.

Lemma mem_strip x l : mem x (strip_markers l) = mem x l && negb (is_marker x).
Proof.
  apply eq_iff_eq_true. rewrite andb_true_iff, negb_true_iff, !mem_In, strip_In. tauto.
Qed.

Lemma filter_alg_In x p d : In x (filter_alg p d) <-> In x p /\ ~ In x d.
Proof. unfold filter_alg. rewrite filter_In, negb_true_iff, mem_false. tauto. Qed.

Lemma filter_filter {A} (f g : A -> bool) l :
  filter f (filter g l) = filter (fun x => g x && f x) l.
Proof.
  induction l as [|a l IH]; cbn; [reflexivity|].
  destruct (g a); cbn; [destruct (f a)|]; rewrite IH; reflexivity.
Qed.

Lemma filter_nil_iff {A} (f : A -> bool) l :
  filter f l = [] <-> forall x, In x l -> f x = false.
Proof.
  induction l as [|a l IH]; cbn.
  - split; [intros _ x []|reflexivity].
  - destruct (f a) eqn:Fa.
    + split; [discriminate|]. intros H. specialize (H a (or_introl eq_refl)). congruence.
    + rewrite IH. split.
      * intros H x [<-|Hx]; auto.
      * intros H x Hx. apply H. right. exact Hx.
Qed.

Lemma hd_error_In {A} (l : list A) x : hd_error l = Some x -> In x l.
Proof. destruct l; cbn; [discriminate|]. intros [= ->]. left. reflexivity. Qed.

(* the declarative reading of "first element of l satisfying f" *)
Lemma hd_filter_spec {A} (f : A -> bool) l x :
  hd_error (filter f l) = Some x <->
  exists pre post, l = pre ++ x :: post /\ f x = true /\ forall y, In y pre -> f y = false.
Proof.
  induction l as [|a l IH]; cbn.
  - split; [discriminate|]. intros (pre & post & H & _). destruct pre; discriminate.
  - destruct (f a) eqn:Fa.
    + cbn. split.
      * intros [= <-]. exists [], l. repeat split; auto. intros y [].
      * intros (pre & post & H & Fx & Hp). destruct pre as [|p pre]; cbn in H.
        -- injection H as -> _. reflexivity.
        -- injection H as <- _. specialize (Hp a (or_introl eq_refl)). congruence.
    + rewrite IH. split.
      * intros (pre & post & -> & Fx & Hp). exists (a :: pre), post. repeat split; auto.
        intros y [<-|Hy]; auto.
      * intros (pre & post & H & Fx & Hp). destruct pre as [|p pre]; cbn in H.
        -- injection H as -> _. congruence.
        -- injection H as <- ->. exists pre, post. repeat split; auto.
           intros y Hy. apply Hp. right. exact Hy.
Qed.

Lemma first_common_spec cl sl x :
  first_common cl sl = Some x <->
  exists pre post, cl = pre ++ x :: post /\ In x sl /\ forall y, In y pre -> ~ In y sl.
Proof.
  unfold first_common. rewrite hd_filter_spec. split.
  - intros (pre & post & H & Hx & Hp). exists pre, post. repeat split; auto.
    + apply mem_In. exact Hx.
    + intros y Hy. apply mem_false. auto.
  - intros (pre & post & H & Hx & Hp). exists pre, post. repeat split; auto.
    + apply mem_In. exact Hx.
    + intros y Hy. apply mem_false. auto.
Qed.

Lemma first_common_none cl sl :
  first_common cl sl = None <-> forall x, In x cl -> ~ In x sl.
Proof.
  unfold first_common. split.
  - intros H x Hx. apply mem_false.
    destruct (filter (fun y => mem y sl) cl) eqn:E; [|discriminate].
    exact (proj1 (filter_nil_iff _ _) E x Hx).
  - intros H. assert (E : filter (fun y => mem y sl) cl = []).
    { apply filter_nil_iff. intros x Hx. apply mem_false. auto. }
    rewrite E. reflexivity.
Qed.

(* ---- markers and the advertised kex list ---------------------------------------------- *)

Lemma strip_markers_app a b : strip_markers (a ++ b) = strip_markers a ++ strip_markers b.
Proof. apply filter_app. Qed.

Lemma strip_kex_markers r c : strip_markers (kex_markers r c) = [].
Proof. unfold kex_markers. destruct r, (strict c); vm_compute; reflexivity. Qed.

Lemma offer_kex_adv r c : offer CKex (advertised r c) = strip_markers (kex_after_send r c).
Proof.
  cbn [offer advertised ki_kex]. rewrite strip_markers_app, strip_kex_markers, app_nil_r. reflexivity.
Qed.

Lemma filter_strip_r l q :
  filter (fun x => mem x (strip_markers l)) (strip_markers q) =
  filter (fun x => mem x (strip_markers l)) q.
Proof.
  change (strip_markers q) with (filter (fun x => negb (is_marker x)) q).
  rewrite filter_filter. apply filter_ext. intros x. rewrite mem_strip.
  destruct (is_marker x), (mem x l); reflexivity.
Qed.

Lemma filter_strip_l p q :
  filter (fun x => mem x p) (strip_markers q) =
  filter (fun x => mem x (strip_markers p)) (strip_markers q).
Proof.
  apply filter_ext_in. intros x Hx. apply strip_In in Hx as [_ Hm].
  rewrite mem_strip, Hm. cbn. rewrite andb_true_r. reflexivity.
Qed.

(* every agreed list of the source is: the client's offer filtered by the server's offer *)
Lemma agreed_spec r c peer cat :
  agreed r c peer cat =
  filter (fun x => mem x (offer cat (server_msg r c peer))) (offer cat (client_msg r c peer)).
Proof.
  unfold agreed, agree. destruct r; cbn [client_msg server_msg].
  - destruct cat; try reflexivity.
    cbn [mine]. rewrite offer_kex_adv. cbn [offer]. symmetry. apply filter_strip_r.
  - destruct cat; try reflexivity.
    cbn [mine]. rewrite offer_kex_adv. cbn [offer]. apply filter_strip_l.
Qed.

Lemma agreed_sym C S cat :
  agreed Server S (advertised Client C) cat = agreed Client C (advertised Server S) cat.
Proof. rewrite !agreed_spec. reflexivity. Qed.

Lemma agree_in_mine r m t x : In x (agree r m t) -> In x m.
Proof.
  destruct r; cbn; rewrite filter_In.
  - tauto.
  - intros [_ H]. apply mem_In. exact H.
Qed.

Lemma hk_available c peer hk t :
  agreed Server c peer CHostKey = hk :: t -> mem hk (server_keys c) = true.
Proof.
  intros H. assert (H0 : In hk (agreed Server c peer CHostKey)) by (rewrite H; left; reflexivity).
  unfold agreed, agree in H0. cbn [mine local_keys] in H0.
  apply filter_In in H0 as [_ H0]. apply mem_In in H0.
  unfold available_server_keys in H0. apply filter_In in H0 as [_ H0]. exact H0.
Qed.

Lemma kex_after_send_sub r c x :
  In x (kex_after_send r c) -> In x (p_kex c) /\ ~ In x (d_kex c).
Proof.
  destruct r; cbn [kex_after_send].
  - unfold preferred_kex. apply filter_alg_In.
  - destruct (negb (have_moduli c) && existsb is_gex (preferred_kex c)).
    + rewrite filter_alg_In, filter_In. tauto.
    + unfold preferred_kex. apply filter_alg_In.
Qed.

Lemma mine_allowed r c cat x : In x (mine r c cat) -> allowed c cat x.
Proof.
  destruct cat; cbn [mine allowed]; unfold enabled;
    try (unfold preferred_ciphers, preferred_macs, preferred_compression; apply filter_alg_In).
  - apply kex_after_send_sub.
  - intros H.
    assert (Hp : In x (preferred_keys c)).
    { destruct r; cbn [local_keys] in H; [exact H|].
      unfold available_server_keys in H. apply filter_In in H. tauto. }
    unfold preferred_keys in Hp. apply in_app_or in Hp as [Hp|Hp].
    + left. apply filter_alg_In. exact Hp.
    + right. apply in_map_iff in Hp as [b [Hb Hi]]. exists b. split; [|auto].
      apply filter_alg_In. exact Hi.
Qed.

(* ---- the three possible outcomes of _parse_kex_init -------------------------------------- *)

Arguments agreed : simpl never.

Ltac fail_at cat E := left; exists cat; split; [exact E | reflexivity].

Lemma negotiate_cases r c peer :
  (exists cat, agreed r c peer cat = [] /\ negotiate r c peer = Raise IncompatiblePeer) \/
  (exists a, negotiate r c peer = Ok a /\
             forall cat, hd_error (agreed r c peer cat) = Some (chosen r cat a)) \/
  (exists k, hd_error (agreed r c peer CKex) = Some k /\ mem k kex_info_keys = false /\
             negotiate r c peer = Raise KeyErr).
Proof.
  destruct r;
    cbv beta iota zeta delta [negotiate local_cat remote_cat c2s s2c server_key_missing].
  - destruct (agreed Client c peer CKex) as [|k tk] eqn:E1; [fail_at CKex E1|].
    cbn [first_or_fail bind].
    destruct (mem k kex_info_keys) eqn:Ek; cbn [negb];
      [|right; right; exists k; split; [reflexivity | split; [exact Ek | reflexivity]]].
    destruct (agreed Client c peer CHostKey) as [|hk th] eqn:E2; [fail_at CHostKey E2|].
    cbn [first_or_fail bind].
    destruct (agreed Client c peer CEncC2S) as [|e1 t1] eqn:E3; [fail_at CEncC2S E3|].
    destruct (agreed Client c peer CEncS2C) as [|e2 t2] eqn:E4; [fail_at CEncS2C E4|].
    cbn [both_or_fail bind].
    destruct (agreed Client c peer CMacC2S) as [|m1 u1] eqn:E5; [fail_at CMacC2S E5|].
    destruct (agreed Client c peer CMacS2C) as [|m2 u2] eqn:E6; [fail_at CMacS2C E6|].
    cbn [both_or_fail bind].
    destruct (agreed Client c peer CCompC2S) as [|z1 v1] eqn:E7; [fail_at CCompC2S E7|].
    destruct (agreed Client c peer CCompS2C) as [|z2 v2] eqn:E8; [fail_at CCompS2C E8|].
    cbn [both_or_fail bind fst snd].
    right; left. eexists. split; [reflexivity|].
    intros cat; destruct cat; cbn [chosen a_kex a_hostkey a_local_cipher a_remote_cipher
      a_local_mac a_remote_mac a_local_comp a_remote_comp];
      [rewrite E1|rewrite E2|rewrite E3|rewrite E4|rewrite E5|rewrite E6|rewrite E7|rewrite E8];
      reflexivity.
  - destruct (agreed Server c peer CKex) as [|k tk] eqn:E1; [fail_at CKex E1|].
    cbn [first_or_fail bind].
    destruct (mem k kex_info_keys) eqn:Ek; cbn [negb];
      [|right; right; exists k; split; [reflexivity | split; [exact Ek | reflexivity]]].
    destruct (agreed Server c peer CHostKey) as [|hk th] eqn:E2; [fail_at CHostKey E2|].
    cbn [first_or_fail bind].
    rewrite (hk_available c peer hk th E2). cbn [negb].
    destruct (agreed Server c peer CEncS2C) as [|e1 t1] eqn:E3; [fail_at CEncS2C E3|].
    destruct (agreed Server c peer CEncC2S) as [|e2 t2] eqn:E4; [fail_at CEncC2S E4|].
    cbn [both_or_fail bind].
    destruct (agreed Server c peer CMacS2C) as [|m1 u1] eqn:E5; [fail_at CMacS2C E5|].
    destruct (agreed Server c peer CMacC2S) as [|m2 u2] eqn:E6; [fail_at CMacC2S E6|].
    cbn [both_or_fail bind].
    destruct (agreed Server c peer CCompS2C) as [|z1 v1] eqn:E7; [fail_at CCompS2C E7|].
    destruct (agreed Server c peer CCompC2S) as [|z2 v2] eqn:E8; [fail_at CCompC2S E8|].
    cbn [both_or_fail bind fst snd].
    right; left. eexists. split; [reflexivity|].
    intros cat; destruct cat; cbn [chosen a_kex a_hostkey a_local_cipher a_remote_cipher
      a_local_mac a_remote_mac a_local_comp a_remote_comp];
      [rewrite E1|rewrite E2|rewrite E4|rewrite E3|rewrite E6|rewrite E5|rewrite E8|rewrite E7];
      reflexivity.
Qed.

Lemma negotiate_ok r c peer a :
  negotiate r c peer = Ok a ->
  forall cat, hd_error (agreed r c peer cat) = Some (chosen r cat a).
Proof.
  intros H.
  destruct (negotiate_cases r c peer) as [[cat' [_ E]]|[[a' [E Hc]]|[k [_ [_ E]]]]]; try congruence.
Qed.

(* ---- the property ---------------------------------------------------------------------- *)

Lemma first_common_thm r c peer a :
  negotiate r c peer = Ok a ->
  forall cat,
    first_common (offer cat (client_msg r c peer)) (offer cat (server_msg r c peer))
    = Some (chosen r cat a).
Proof.
  intros H cat. unfold first_common. rewrite <- agreed_spec. apply negotiate_ok. exact H.
Qed.

Lemma first_common_meaning r c peer a :
  negotiate r c peer = Ok a ->
  forall cat, exists pre post,
    offer cat (client_msg r c peer) = pre ++ chosen r cat a :: post /\
    In (chosen r cat a) (offer cat (server_msg r c peer)) /\
    forall y, In y pre -> ~ In y (offer cat (server_msg r c peer)).
Proof.
  intros H cat. apply first_common_spec. apply first_common_thm. exact H.
Qed.

Lemma symmetric C S :
  negotiate Server S (advertised Client C) = swap_result (negotiate Client C (advertised Server S)).
Proof.
  pose proof (agreed_sym C S) as Hs.
  cbv beta iota zeta delta [negotiate local_cat remote_cat c2s s2c server_key_missing].
  rewrite !Hs.
  destruct (agreed Client C (advertised Server S) CKex) as [|k tk] eqn:E1; [reflexivity|].
  cbn [first_or_fail bind swap_result].
  destruct (mem k kex_info_keys); cbn [negb swap_result]; [|reflexivity].
  destruct (agreed Client C (advertised Server S) CHostKey) as [|hk th] eqn:E2; [reflexivity|].
  cbn [first_or_fail bind swap_result].
  rewrite (hk_available S (advertised Client C) hk th) by (rewrite Hs; exact E2).
  cbn [negb].
  destruct (agreed Client C (advertised Server S) CEncC2S) as [|e1 t1];
    destruct (agreed Client C (advertised Server S) CEncS2C) as [|e2 t2]; try reflexivity.
  cbn [both_or_fail bind swap_result].
  destruct (agreed Client C (advertised Server S) CMacC2S) as [|m1 u1];
    destruct (agreed Client C (advertised Server S) CMacS2C) as [|m2 u2]; try reflexivity.
  cbn [both_or_fail bind swap_result].
  destruct (agreed Client C (advertised Server S) CCompC2S) as [|z1 v1];
    destruct (agreed Client C (advertised Server S) CCompS2C) as [|z2 v2]; reflexivity.
Qed.

Lemma not_disabled r c peer a :
  negotiate r c peer = Ok a -> forall cat, allowed c cat (chosen r cat a).
Proof.
  intros H cat. apply (mine_allowed r). apply (agree_in_mine r _ (offer cat peer)).
  apply hd_error_In. exact (negotiate_ok r c peer a H cat).
Qed.

Lemma server_has_key c peer a :
  negotiate Server c peer = Ok a -> In (a_hostkey a) (server_keys c).
Proof.
  intros H. pose proof (negotiate_ok Server c peer a H CHostKey) as Hh.
  cbn [chosen] in Hh.
  destruct (agreed Server c peer CHostKey) as [|hk th] eqn:E; [discriminate|].
  cbn in Hh. injection Hh as <-. apply mem_In. exact (hk_available c peer hk th E).
Qed.

Lemma subset_b_In l t x : subset_b l t = true -> In x l -> In x t.
Proof.
  unfold subset_b. rewrite forallb_forall. intros H Hx. apply mem_In. auto.
Qed.

Lemma outcomes r c peer :
  subset_b (p_kex c) kex_info_keys = true ->
  (exists a, negotiate r c peer = Ok a) \/ negotiate r c peer = Raise IncompatiblePeer.
Proof.
  intros Hk.
  destruct (negotiate_cases r c peer) as [[cat [_ E]]|[[a [E _]]|[k [Hh [Hm _]]]]].
  - right. exact E.
  - left. exists a. exact E.
  - exfalso. apply mem_false in Hm. apply Hm. apply (subset_b_In _ _ _ Hk).
    apply hd_error_In in Hh. apply agree_in_mine in Hh. cbn [mine] in Hh.
    apply kex_after_send_sub in Hh. tauto.
Qed.

Lemma fail_iff r c peer :
  subset_b (p_kex c) kex_info_keys = true ->
  (negotiate r c peer = Raise IncompatiblePeer <->
   exists cat, forall x, In x (offer cat (client_msg r c peer)) ->
                         ~ In x (offer cat (server_msg r c peer))).
Proof.
  intros Hk. split.
  - intros H.
    destruct (negotiate_cases r c peer) as [[cat [E _]]|[[a [E _]]|[k [_ [_ E]]]]]; try congruence.
    exists cat. rewrite agreed_spec in E. intros x Hx. apply mem_false.
    exact (proj1 (filter_nil_iff _ _) E x Hx).
  - intros [cat Hc].
    assert (E0 : agreed r c peer cat = []).
    { rewrite agreed_spec. apply filter_nil_iff. intros x Hx. apply mem_false. auto. }
    destruct (outcomes r c peer Hk) as [[a E]|E]; [|exact E].
    pose proof (negotiate_ok r c peer a E cat) as Hh. rewrite E0 in Hh. discriminate.
Qed.

(* ---- markers --------------------------------------------------------------------------- *)

Lemma no_marker_kex r c peer a : negotiate r c peer = Ok a -> is_marker (a_kex a) = false.
Proof.
  intros H. pose proof (first_common_thm r c peer a H CKex) as Hf.
  unfold first_common in Hf. apply hd_error_In in Hf. apply filter_In in Hf as [Hf _].
  cbn [chosen] in Hf.
  assert (Hs : exists l, In (a_kex a) (strip_markers l)).
  { destruct r; cbn [client_msg] in Hf.
    - rewrite offer_kex_adv in Hf. eexists. exact Hf.
    - cbn [offer] in Hf. eexists. exact Hf. }
  destruct Hs as [l Hl]. apply strip_In in Hl. tauto.
Qed.

Lemma tables_no_marker :
  forallb (fun b => negb (is_marker b)) kex_info_keys = true /\
  forallb (fun b => negb (is_marker b) && negb (is_marker (b ++ lit_cert_suffix))) key_info_keys = true /\
  forallb (fun b => negb (is_marker b)) cipher_info_keys = true /\
  forallb (fun b => negb (is_marker b)) mac_info_keys = true /\
  forallb (fun b => negb (is_marker b)) compression_info_keys = true.
Proof. repeat split; vm_compute; reflexivity. Qed.

Lemma table_member_no_marker l t x :
  forallb (fun b => negb (is_marker b)) t = true ->
  subset_b l t = true -> In x l -> is_marker x = false.
Proof.
  intros Ht Hs Hx. rewrite forallb_forall in Ht. apply negb_true_iff. apply Ht.
  exact (subset_b_In _ _ _ Hs Hx).
Qed.

Lemma no_marker r c peer a :
  cfg_in_tables c = true -> negotiate r c peer = Ok a ->
  forall cat, is_marker (chosen r cat a) = false.
Proof.
  intros Ht H cat. pose proof (not_disabled r c peer a H cat) as Ha.
  unfold cfg_in_tables in Ht.
  apply andb_true_iff in Ht as [Ht H5]. apply andb_true_iff in Ht as [Ht H4].
  apply andb_true_iff in Ht as [Ht H3]. apply andb_true_iff in Ht as [H1 H2].
  destruct tables_no_marker as (T1 & T2 & T3 & T4 & T5).
  destruct cat; cbn [allowed] in Ha; unfold enabled in Ha;
    try (destruct Ha as [Ha _];
         first [ exact (table_member_no_marker _ _ _ T1 H1 Ha)
               | exact (table_member_no_marker _ _ _ T3 H3 Ha)
               | exact (table_member_no_marker _ _ _ T4 H4 Ha)
               | exact (table_member_no_marker _ _ _ T5 H5 Ha) ]).
  rewrite forallb_forall in T2.
  destruct Ha as [[Ha _]|[b [[Hb _] ->]]].
  - specialize (T2 _ (subset_b_In _ _ _ H2 Ha)). apply andb_true_iff in T2 as [T2 _].
    apply negb_true_iff. exact T2.
  - specialize (T2 _ (subset_b_In _ _ _ H2 Hb)). apply andb_true_iff in T2 as [_ T2].
    apply negb_true_iff. exact T2.
Qed.

Lemma default_in_tables sk m s : cfg_in_tables (default_cfg sk m s) = true.
Proof. vm_compute. reflexivity. Qed.

(* ---- the index loop of the source removes exactly the markers --------------------------- *)

Fixpoint marker_idxs (i : nat) (l : list name) : list nat :=
  match l with
  | [] => []
  | x :: r => if is_marker x then i :: marker_idxs (S i) r else marker_idxs (S i) r
  end.

Lemma to_pop_loop_spec l : forall i acc, to_pop_loop i l acc = rev (marker_idxs i l) ++ acc.
Proof.
  induction l as [|x r IH]; intros i acc; cbn; [reflexivity|].
  rewrite IH. destruct (is_marker x); cbn; [|reflexivity].
  rewrite <- app_assoc. reflexivity.
Qed.

Lemma pop_all_app a : forall b l,
  pop_all (a ++ b) l = match pop_all a l with Some l' => pop_all b l' | None => None end.
Proof.
  induction a as [|i a IH]; intros b l; cbn; [reflexivity|].
  destruct (pop_at i l); [apply IH|reflexivity].
Qed.

Lemma pop_at_app pre x t : pop_at (length pre) (pre ++ x :: t) = Some (pre ++ t).
Proof. induction pre as [|p pre IH]; cbn; [reflexivity|]. rewrite IH. reflexivity. Qed.

Lemma pop_desc l : forall pre,
  pop_all (rev (marker_idxs (length pre) l)) (pre ++ l) = Some (pre ++ strip_markers l).
Proof.
  induction l as [|x r IH]; intros pre; [reflexivity|].
  assert (E : pre ++ x :: r = (pre ++ [x]) ++ r) by (rewrite <- app_assoc; reflexivity).
  assert (L : S (length pre) = length (pre ++ [x])) by (rewrite app_length; cbn; lia).
  cbn [marker_idxs strip_markers filter]. destruct (is_marker x) eqn:M; cbn [negb].
  - cbn [rev]. rewrite pop_all_app, E, L, IH. cbn [pop_all].
    rewrite <- app_assoc. cbn [app]. rewrite pop_at_app. reflexivity.
  - rewrite E, L, IH. rewrite <- app_assoc. reflexivity.
Qed.

Lemma strip_loop_eq l : strip_markers_loop l = Some (strip_markers l).
Proof.
  unfold strip_markers_loop. rewrite to_pop_loop_spec, app_nil_r. exact (pop_desc l []).
Qed.

Lemma gss_in_tables sk m s :
  cfg_in_tables (mkConfig (init_kex true) pref_keys pref_ciphers pref_macs pref_compression
                          [] [] [] [] [] sk m s) = true.
Proof. vm_compute. reflexivity. Qed.

(* ---- the behaviour before the repair, refuted --------------------------------------------- *)

(* a client that prefers the group-exchange methods *)
Definition gex_first : list name :=
  filter is_gex pref_kex ++ filter (fun k => negb (is_gex k)) pref_kex.
Definition wit_client : config :=
  mkConfig gex_first pref_keys pref_ciphers pref_macs pref_compression [] [] [] [] [] [] false true.
Definition wit_server : config := default_cfg pref_keys false true.

Lemma unrepaired_refuted :
  exists a b,
    cfg_in_tables wit_client = true /\ cfg_in_tables wit_server = true /\
    negotiate Server wit_server (advertised Client wit_client) = Ok a /\
    negotiate Client wit_client (advertised_unrepaired Server wit_server) = Ok b /\
    is_gex (a_kex b) = true /\ is_gex (a_kex a) = false.
Proof.
  eexists. eexists.
  split; [vm_compute; reflexivity|]. split; [vm_compute; reflexivity|].
  split; [vm_compute; reflexivity|]. split; [vm_compute; reflexivity|].
  split; vm_compute; reflexivity.
Qed.
