"""C25 — Channel.sendall / sendall_stderr deliver everything or raise; never spin.

Proof: coq/Props/C25_props.v over coq/Model/C25.v (sendall's loop, send, _send,
_wait_for_send_window, and the events other threads / the peer can apply).
Tie: the model's own definitions (vm_compute inside Coq) against a real paramiko Channel
driven directly: stub transport recording _send_user_message, the channel's condition
variable replaced by a scripted one (each wait applies the next scripted event through the
real handler and advances a pinned clock), every call under a watchdog.  A second set of
cases uses the real threading.Condition and a real second thread.
Oracle: stated over the real calls only — returned => every byte was handed over in order;
raised => what was handed over is a prefix; dead channel => socket.error, nothing sent; no
hang; no sleeping forever with a timeout set.
"""
import socket
import struct
import threading
import time as _realtime

from common import coq, Raw

PID = "C25"
LEVEL_TEXT = ("Machine-checked proof (Coq, closed under the global context) over an executable model of "
              "Channel.sendall/sendall_stderr, send, _send and _wait_for_send_window with an arbitrary environment "
              "(window adjusts, close, peer CLOSE, transport loss, shutdown_write, peer EOF, wake-ups and elapsed time "
              "between and during the calls): the bytes handed to the transport plus the unsent rest are exactly the "
              "data, return happens only when everything was handed over, len(data) iterations always suffice (no "
              "out-of-fuel: termination), the only outcomes are return / socket.error / socket.timeout / asleep in "
              "blocking mode, and a closed or shut-down channel raises at once; the model is tied to channel.py by a "
              "differential run of the model's own definitions (vm_compute) against a real Channel on scripted and "
              "live histories every run, and by gen/c25.py (message numbers, the 64-byte packet overhead, the shape of "
              "the sendall loops and of the deadline bookkeeping, read from the source, fail closed).")
LEVEL_NOTE = ("Trusted: Coq kernel + vm_compute; hand-written model coq/Model/C25.v validated by the correspondence "
              "run; atomicity of the critical sections (events are applied only while the sender is outside the lock "
              "or asleep in out_buffer_cv.wait — this is what the channel lock gives, it is not proved); the channel "
              "is active; 'Blocked' = asleep with no further wake-up is the environment's choice (liveness of the "
              "peer is not claimed).  Wake-up delivery to SEVERAL sleeping senders (notify_all) is outside the "
              "single-sender model: it is checked on the real code only (multi-sender live scenario, oracle "
              "blocked-sender-not-woken), as is the pinned-clock deadline oracle timed-send-outlives-timeout.  In the "
              "model 'handed to the transport' is Transport._send_user_message; what that function does with the data "
              "(re-key gate with clear_to_send_timeout, dying transport) is checked on a real Transport at the "
              "packetizer boundary only (transport-gate scenarios).  End to end (real Transport pair): transfers beyond the advertised window with non-default "
              "window settings, and a sendall placed inside the tear-down after the peer went away (must raise).  "
              "KNOWN FINDING (registered, key sendall-returned-during-own-transport-close): a sendall overlapping the "
              "application's own Transport.close() returns normally with its data dropped -- stop_thread sets "
              "active=False before close() unlinks the channels and _send_user_message silently drops user packets of "
              "an inactive transport; the model does not contain this step (its transport always accepts), so "
              "C25_total holds for the model's boundary (_send_user_message) only.")
TECHNIQUE = "Coq proof (induction on fuel / wake-up lists) + source translator + vm_compute differential correspondence + watchdog / multi-thread oracles"

MSG_DATA, MSG_EXT = 94, 95
EVENTS = ["EvAdjust", "EvClose", "EvPeerClose", "EvUnlink", "EvShutWrite", "EvPeerEof"]
WATCHDOG = 4.0


class BlockedForever(Exception):
    """Raised by the scripted condition variable when nothing would ever wake the sender."""


class StubTransport:
    def __init__(self):
        self.msgs = []          # every message: (type, raw bytes)
        self.data = []          # data messages: (type, payload)
        self.on_data = None
        self.bad_header = None

    def _send_user_message(self, m):
        raw = m.asbytes()
        t = raw[0]
        self.msgs.append((t, raw))
        if t in (MSG_DATA, MSG_EXT):
            off = 5
            if t == MSG_EXT:
                if raw[5:9] != b"\x00\x00\x00\x01":
                    self.bad_header = raw[:16]
                off = 9
            if raw[1:5] != struct.pack(">I", 7):
                self.bad_header = raw[:16]
            (n,) = struct.unpack(">I", raw[off:off + 4])
            payload = raw[off + 4:]
            if n != len(payload):
                self.bad_header = raw[:16]
            self.data.append((t, payload))
            if self.on_data is not None:
                self.on_data()

    def _sanitize_packet_size(self, n):
        return n

    def get_log_channel(self):
        return "paramiko.transport"

    def _unlink_channel(self, chanid):
        pass

    def get_exception(self):
        return None


class FakeClock:
    """Stands in for the `time` module inside paramiko.channel during scripted runs."""

    def __init__(self):
        self.now = 1000.0

    def time(self):
        return self.now

    def sleep(self, s):
        self.now += s


class ScriptedCV:
    """Replaces chan.out_buffer_cv: wait() = 'the sender sleeps; the next scripted thing happens'."""

    def __init__(self, chan, clock, script):
        self.chan = chan
        self.clock = clock
        self.script = script      # object with .next_wake() -> (ev|None, dt) | None

    def wait(self, timeout=None):
        """Returns what threading.Condition.wait returns: True when woken, False when timed out."""
        sc = self.script
        if sc.wpos == 0:
            sc.send_start = self.clock.now           # first sleep of this call of send
        t = self.chan.timeout
        if t is not None and t > 0 and self.clock.now - sc.send_start >= t and sc.overrun is None:
            # about to sleep again although this call of send has already slept for >= its timeout
            sc.overrun = {"round": sc.idx, "slept": self.clock.now - sc.send_start, "timeout": t,
                          "wakeups": sc.wpos}
        w = sc.next_wake()
        if w is None:
            if timeout is None:
                raise BlockedForever()
            self.clock.now += timeout
            return False
        ev, dt = w
        if ev is not None:
            self.chan.lock.release()          # a real Condition.wait releases the lock while asleep
            try:
                apply_event(self.chan, ev)
            finally:
                self.chan.lock.acquire()
        self.clock.now += dt
        return timeout is None or dt < timeout

    def notify_all(self):
        pass

    def notify(self, n=1):
        pass


def apply_event(chan, ev):
    """Apply one environment event through the real handler (takes the channel lock itself)."""
    from paramiko.message import Message
    name = ev[0]
    if name == "EvBoth":
        apply_event(chan, tuple(ev[1]))
        apply_event(chan, tuple(ev[2]))
    elif name == "EvAdjust":
        chan._window_adjust(Message(struct.pack(">I", ev[1])))
        chan._verif_adjusts = getattr(chan, "_verif_adjusts", 0) + ev[1]
    elif name == "EvClose":
        chan.close()
    elif name == "EvPeerClose":
        chan._handle_close(None)
    elif name == "EvUnlink":
        chan._unlink()
    elif name == "EvShutWrite":
        how = ev[1] if len(ev) > 1 else 0
        if how == 0:
            chan.shutdown_write()
        else:
            chan.shutdown(how)
    elif name == "EvPeerEof":
        chan._handle_eof(None)
    else:
        raise ValueError(name)


def new_channel(window, maxpkt, timeout):
    from paramiko.channel import Channel
    t = StubTransport()
    c = Channel(3)
    c._set_transport(t)
    c._set_window(1 << 20, 1 << 15)
    c._set_remote_channel(7, window, 4096)
    c.out_max_packet_size = maxpkt
    c.settimeout(timeout)
    return c, t


class Script:
    def __init__(self, rounds):
        self.rounds = rounds
        self.idx = 0
        self.wpos = 0
        self.send_start = 0.0
        self.overrun = None

    def cur(self):
        return self.rounds[self.idx] if self.idx < len(self.rounds) else ([], [])

    def next_wake(self):
        wakes = self.cur()[1]
        if self.wpos < len(wakes):
            w = wakes[self.wpos]
            self.wpos += 1
            return w
        return None

    def advance(self):
        self.idx += 1
        self.wpos = 0


def watchdog(fn, timeout):
    box = {}

    def target():
        try:
            box["v"] = fn()
        except BaseException as e:  # noqa
            box["e"] = e

    th = threading.Thread(target=target, daemon=True)
    th.start()
    th.join(timeout)
    if th.is_alive():
        return "hang", None, th
    if "e" in box:
        return "exc", box["e"], th
    return "ok", box.get("v"), th


def classify(kind, val):
    if kind == "hang":
        return 99
    if kind == "ok":
        return 0 if val is None else 101
    if isinstance(val, BlockedForever):
        return 98
    if isinstance(val, socket.timeout):
        return 5
    if isinstance(val, socket.error):
        return 6
    return 102


def strip_ev(ev):
    """Event as the model sees it (the shutdown variant is not part of the model)."""
    if ev[0] == "EvBoth":
        return ("EvBoth", strip_ev(tuple(ev[1])), strip_ev(tuple(ev[2])))
    return (ev[0], ev[1]) if ev[0] == "EvAdjust" else (ev[0],)


def coq_chan(case):
    tmo = "None" if case["timeout"] is None else "(Some %d)" % int(case["timeout"])
    return Raw("(mkChan false false %d %d %s)" % (case["window"], case["maxpkt"], tmo))


def coq_case(case):
    ch = coq_chan(case)
    rounds = []
    for pre, wakes in case["rounds"]:
        rounds.append(([strip_ev(e) for e in pre],
                       [((None if e is None else ("Some", strip_ev(e))), dt) for e, dt in wakes]))
    return coq(((case["stderr"], ch), (list(case["data"]), rounds)))


def make_arg(case):
    """The object handed to sendall: the data as bytes / bytearray / memoryview, or the text as str."""
    a = case.get("arg") or "bytes"
    data = bytes(case["data"])
    if a == "bytearray":
        return bytearray(data)
    if a == "memoryview":
        return memoryview(data)
    if a == "str":
        return case["text"]
    return data


def in_model(case):
    """the byte-level model applies when lengths are counted in bytes: everything but non-ASCII str"""
    return case.get("arg") != "str" or len(case["text"]) == len(case["data"])


def run_sendall_scripted(case):
    """Drive the real sendall / sendall_stderr on one scripted case.  Returns a dict of observables."""
    import paramiko.channel as pc
    data = bytes(case["data"])
    chan, tr = new_channel(case["window"], case["maxpkt"], case["timeout"])
    script = Script(case["rounds"])
    clock = FakeClock()
    chan.out_buffer_cv = ScriptedCV(chan, clock, script)
    if data:        # a round belongs to a call of send; with no data there is none
        for ev in script.cur()[0]:
            apply_event(chan, ev)
    pre_state = (bool(chan.closed), bool(chan.eof_sent), chan.out_window_size)
    before = len(tr.data)

    def on_data():
        script.advance()
        if sum(len(p) for _, p in tr.data[before:]) < len(data):
            for ev in script.cur()[0]:
                apply_event(chan, ev)

    tr.on_data = on_data
    arg = make_arg(case)
    fobj = None
    if case.get("entry") == "file":
        # the alternative entry point: ChannelFile / ChannelStderrFile .write + .flush -> sendall(_stderr)
        fobj = chan.makefile_stderr("wb") if case["stderr"] else chan.makefile("wb")

        def fn(a):
            fobj.write(a)
            return fobj.flush()
    else:
        fn = chan.sendall_stderr if case["stderr"] else chan.sendall
    saved = pc.time
    pc.time = clock
    try:
        kind, val, th = watchdog(lambda: fn(arg), WATCHDOG)
        if kind == "hang":
            # stop the spinning thread: a closed channel makes _send raise
            chan.closed = True
            th.join(2.0)
    finally:
        pc.time = saved
        tr.on_data = None
    msgs = list(tr.data[before:])
    if fobj is not None:
        import io
        fobj._wbuffer = io.BytesIO()      # cleanup only: nothing left for the file's __del__ to flush
    return {"code": classify(kind, val), "exc": None if kind != "exc" else type(val).__name__,
            "closed": bool(chan.closed), "eof": bool(chan.eof_sent), "window": chan.out_window_size,
            "msgs": msgs, "pre_state": pre_state, "bad_header": tr.bad_header, "chan": chan,
            "wire_types": [t for t, _ in tr.msgs], "adjusts": getattr(chan, "_verif_adjusts", 0),
            "initial_window": case["window"],
            "overrun": script.overrun}


def canon(obs, data):
    out = [obs["code"], int(obs["closed"]), int(obs["eof"]), obs["window"], len(obs["msgs"])]
    sent = 0
    for t, p in obs["msgs"]:
        out += [t, len(p)] + list(p)
        sent += len(p)
    out += [-1] + list(data[sent:])
    return out


def oracle(ctx, case, obs):
    """The property over the real call's observables only (no model)."""
    data = bytes(case["data"])
    sent = b"".join(p for _, p in obs["msgs"])
    code = obs["code"]
    pre_closed, pre_eof, pre_window = obs["pre_state"]
    rep = dict(case)
    if code == 99:
        ctx.fail("sendall-spins", "sendall does not return: send() returns 0 on a stream that is shut down for "
                 "writing (or closed while waiting) and the loop retries forever",
                 case=rep, expected="socket.error", observed="no return within %.0f s (busy loop)" % WATCHDOG)
        return
    if code == 0 and sent != data:
        ctx.fail("sendall-returned-with-data-unsent", "sendall returned although not every byte was handed to the "
                 "transport", case=rep, expected=data, observed=sent)
    if code != 0 and not data.startswith(sent):
        ctx.fail("sendall-sent-wrong-bytes", "bytes handed to the transport are not a prefix of the data",
                 case=rep, expected=data, observed=sent)
    if code not in (0, 5, 6, 98):
        ctx.fail("sendall-unexpected-outcome", "sendall ended with an unexpected exception / return value",
                 case=rep, expected="None, socket.error or socket.timeout", observed=obs["exc"])
    if data and (pre_closed or pre_eof) and (code != 6 or obs["msgs"]):
        ctx.fail("sendall-on-dead-channel", "sendall on a closed / shut-down channel must raise socket.error and "
                 "send nothing", case=rep, expected="socket.error, no data message",
                 observed={"outcome": code, "exc": obs["exc"], "messages": len(obs["msgs"])})
    if code == 98 and case["timeout"] is not None:
        ctx.fail("sendall-sleeps-with-timeout", "sendall stays asleep although a timeout is set", case=rep)
    if data and not (pre_closed or pre_eof) and pre_window == 0 and case["timeout"] == 0.0 and code != 5:
        ctx.fail("sendall-nonblocking-no-timeout", "non-blocking sendall with a closed window must raise "
                 "socket.timeout", case=rep, expected="socket.timeout", observed=obs["exc"] or code)
    if obs.get("overrun"):
        ctx.fail("timed-send-outlives-timeout", "a timed send went back to sleep although it had already waited "
                 "for its whole timeout without being able to send (wake-ups that open no window must not restart "
                 "the timer): socket.timeout was due", case=rep, expected="socket.timeout after %s s"
                 % obs["overrun"]["timeout"], observed=obs["overrun"])
    wt = obs.get("wire_types")
    if wt is not None:
        ends = [i for i, t in enumerate(wt) if t in (96, 97)]          # our CHANNEL_EOF / CHANNEL_CLOSE
        if ends and any(t in (MSG_DATA, MSG_EXT) for t in wt[ends[0] + 1:]):
            ctx.fail("data-after-eof", "a data message was handed to the transport after our EOF / CLOSE: a sender "
                     "woken by a window adjust did not notice that the stream had been shut down meanwhile",
                     case=rep, expected="socket.error, no data after EOF", observed=wt)
        framed = sum(len(p) for _, p in obs["msgs"])
        # (text arguments with multi-byte characters are debited per character by the current code -- a flow
        # control matter, C19/C20 -- so the account is checked for byte-counted arguments only)
        if in_model(case) and obs["window"] != obs["initial_window"] + obs["adjusts"] - framed:
            ctx.fail("window-account-leak", "out_window_size != initial window + window adjusts - bytes framed: the "
                     "window was debited by more (or less) than what was put into data messages", case=rep,
                     expected=obs["initial_window"] + obs["adjusts"] - framed, observed=obs["window"])
    want = MSG_EXT if case["stderr"] else MSG_DATA
    if any(t != want for t, _ in obs["msgs"]) or obs["bad_header"] is not None:
        ctx.fail("sendall-wrong-stream", "data message of the wrong type / header for this stream",
                 case=rep, expected=want, observed=[t for t, _ in obs["msgs"]])
    if any(len(p) == 0 for _, p in obs["msgs"]):
        ctx.fail("sendall-empty-chunk", "an empty data message was sent", case=rep)


# ---- generators ---------------------------------------------------------------------------

def gen_event(rng, closing=0.5, compound=0.12):
    if closing > 0 and rng.random() < compound:
        # two things within one sleep of the sender (or before one send): what another thread did meanwhile
        # (shutdown_write / close / peer EOF / peer CLOSE / loss) together with the window adjust that wakes it
        other = gen_event(rng, 1.0, 0.0)
        adj = ("EvAdjust", rng.choice([1, 2, 5, 40]))
        return ("EvBoth", other, adj) if rng.random() < 0.7 else ("EvBoth", adj, other)
    if rng.random() < 1 - closing:
        return ("EvAdjust", rng.choice([0, 1, 1, 2, 3, 5, 8, 40, rng.randrange(0, 20)]))
    name = rng.choice(EVENTS[1:])
    if name == "EvShutWrite":
        return (name, rng.choice([0, 0, 1, 2]))
    return (name,)


def gen_case(rng, flavour):
    n = rng.choice([0, 1, 2, 3, 5, 8, 13, 21, rng.randrange(1, 48)])
    if flavour == "empty":
        n = 0
    data = [rng.choice([0, 255, 10, rng.randrange(256)]) for _ in range(n)]
    maxpkt = 64 + rng.choice([1, 2, 3, 5, 8, 20, 4032])
    window = rng.choice([0, 0, 1, 2, 3, 5, 10, n, max(0, n - 1), 1000])
    timeout = rng.choice([None, None, 0.0, 0.0, 1.0, 3.0, 10.0])
    if flavour == "typed":
        # glue: the argument types sendall accepts (bytes-like objects and text) and the file-object entry points;
        # small windows / packet limits so that the data needs several chunks
        base = gen_case(rng, rng.choice(["plain", "mixed", "mixed", "closing"]))
        kind = rng.choice(["bytearray", "memoryview", "str", "str", "str", "bytes"])
        base["arg"] = kind
        base["entry"] = rng.choice(["sendall", "sendall", "file"])
        if kind == "str":
            alphabet = ["a", "Z", "0", "\n", "\u00e9", "\u00a7", "\u03bb", "\u20ac", "\u4e2d", "\U0001f600"]
            if rng.random() < 0.25:
                alphabet = alphabet[:4]          # pure ASCII text
            text = "".join(rng.choice(alphabet) for _ in range(rng.choice([1, 2, 3, 5, 8, 13, rng.randrange(1, 24)])))
            base["text"] = text
            base["data"] = list(text.encode("utf-8"))
            base["window"] = rng.choice([1, 2, 3, 5, 1000, base["window"]])
        return base
    if flavour == "stall":
        # timed mode, the window is (or soon gets) closed and the sender is woken repeatedly without progress:
        # zero-byte window adjusts, spurious wake-ups, peer EOF; the slept time adds up past the timeout
        n = max(n, 2)
        data = [rng.randrange(256) for _ in range(n)]
        timeout = rng.choice([2.0, 3.0, 5.0])
        window = rng.choice([0, 0, 1, 2])
        rounds = []
        for k in range(rng.randrange(1, 4)):
            wakes = [(rng.choice([None, ("EvAdjust", 0), ("EvAdjust", 0), ("EvPeerEof",)]), rng.choice([1, 1, 2]))
                     for _ in range(rng.randrange(2, 7))]
            if rng.random() < 0.5:
                wakes.append((("EvAdjust", rng.choice([1, 3, 40])), rng.choice([0, 1])))
            rounds.append(([], wakes))
        return {"data": data, "window": window, "maxpkt": maxpkt, "timeout": timeout,
                "stderr": rng.random() < 0.4, "rounds": rounds}
    closing = {"plain": 0.0, "mixed": 0.25, "closing": 0.6, "empty": 0.3}[flavour]
    rounds = []
    for k in range(rng.randrange(0, 7)):
        pre = [gen_event(rng, closing) for _ in range(rng.choice([0, 0, 0, 1, 1, 2]))]
        wakes = []
        for _ in range(rng.choice([0, 1, 1, 2, 3])):
            ev = gen_event(rng, closing * 0.7) if rng.random() < 0.75 else None
            wakes.append((ev, rng.choice([0, 0, 1, 1, 2, 5])))
        rounds.append((pre, wakes))
    if flavour == "closing" and rng.random() < 0.5:
        # the situations named by the property: the channel is already dead when sendall starts
        first = rng.choice([("EvShutWrite", rng.choice([0, 1, 2])), ("EvClose",), ("EvPeerClose",), ("EvUnlink",),
                            ("EvPeerEof",)])
        rounds = [([first] + (rounds[0][0] if rounds else []), rounds[0][1] if rounds else [])] + rounds[1:]
    return {"data": data, "window": window, "maxpkt": maxpkt, "timeout": timeout,
            "stderr": rng.random() < 0.4, "rounds": rounds}


def meanwhile_cases():
    """A sender asleep on a closed window, woken by a window adjust, while ANOTHER thread did something within the
    same sleep: every kind of 'something' x order x mode x stream x whether the sleep is in the first or a later
    call of send.  All-or-raise, and never data after our EOF."""
    out = []
    others = [("EvShutWrite", 0), ("EvShutWrite", 1), ("EvShutWrite", 2), ("EvClose",), ("EvPeerClose",),
              ("EvUnlink",), ("EvPeerEof",)]
    for other in others:
        for first in (True, False):
            for timeout in (None, 10.0):
                for stderr in (False, True):
                    for window in (0, 3):
                        adj = ("EvAdjust", 40)
                        both = ("EvBoth", other, adj) if first else ("EvBoth", adj, other)
                        rounds = [([], [(both, 1)])] if window == 0 else [([], []), ([], [(both, 1)])]
                        out.append({"data": list(range(1, 10)), "window": window, "maxpkt": 69, "timeout": timeout,
                                    "stderr": stderr, "rounds": rounds})
    return out


def case_key(case):
    return repr((case["data"], case["window"], case["maxpkt"], case["timeout"], case["stderr"], case["rounds"],
                 case.get("arg"), case.get("entry")))


def run_one(ctx, case, kind):
    obs = run_sendall_scripted(case)
    oracle(ctx, case, obs)
    data = case["data"]
    nontrivial = bool(data) and (len(obs["msgs"]) >= 2 or obs["code"] != 0 or
                                 any(pre or wakes for pre, wakes in case["rounds"]))
    ctx.count(case_key(case), nontrivial=nontrivial, kind=kind + "/" + {0: "returned", 5: "timeout", 6: "error",
                                                                        98: "asleep", 99: "hang"}.get(obs["code"], "other"))
    return obs


# ---- live cases: the real threading.Condition and a real second thread ------------------------

def live_cases():
    """(mode, prior event, stream, window) — the calls named by the property, on an unmodified Channel."""
    out = []
    for timeout in (None, 5.0, 0.0):
        for prior in (None, ("EvShutWrite", 0), ("EvShutWrite", 2), ("EvClose",), ("EvPeerEof",), ("EvPeerClose",),
                      ("EvUnlink",)):
            for stderr in (False, True):
                for window in (1000, 4, 0):
                    out.append((timeout, prior, stderr, window))
    return out


def run_live(ctx, timeout, prior, stderr, window, helper):
    """helper: None | event applied by a second thread once the sender is asleep (window 0)."""
    data = bytes(range(1, 12))
    chan, tr = new_channel(window, 64 + 5, timeout)
    if prior is not None:
        apply_event(chan, prior)
    pre_state = (bool(chan.closed), bool(chan.eof_sent), chan.out_window_size)
    before = len(tr.data)
    fn = chan.sendall_stderr if stderr else chan.sendall
    started = threading.Event()
    orig_wait = chan.out_buffer_cv.wait

    def wait(t=None):
        started.set()
        return orig_wait(t)

    chan.out_buffer_cv.wait = wait
    hth = None
    if helper is not None:
        def later():
            started.wait(WATCHDOG)
            apply_event(chan, helper)
        hth = threading.Thread(target=later, daemon=True)
        hth.start()
    kind, val, th = watchdog(lambda: fn(data), WATCHDOG)
    if kind == "hang":
        chan.lock.acquire()
        try:
            chan.closed = True
            chan.out_buffer_cv.notify_all()
        finally:
            chan.lock.release()
        th.join(2.0)
    if hth is not None:
        started.set()
        hth.join(2.0)
    obs = {"code": classify(kind, val), "exc": None if kind != "exc" else type(val).__name__,
           "closed": bool(chan.closed), "eof": bool(chan.eof_sent), "window": chan.out_window_size,
           "msgs": tr.data[before:], "pre_state": pre_state, "bad_header": tr.bad_header,
           "wire_types": [t_ for t_, _ in tr.msgs], "adjusts": getattr(chan, "_verif_adjusts", 0),
           "initial_window": window}
    wakes = [(helper, 0)] if helper is not None else []
    case = {"data": list(data), "window": window, "maxpkt": 69, "timeout": timeout, "stderr": stderr,
            "rounds": [([prior] if prior else [], [])], "live": True, "helper": helper}
    # where the sender falls asleep depends on the window: the helper's wake-up belongs to that round
    model_case = dict(case)
    model_case["rounds"] = [([prior] if prior else [], list(wakes))] + [([], list(wakes)) for _ in range(12)]
    return case, model_case, obs


def safe_mm(ctx, run_fn, case_type, cases):
    """model evaluation guarded: a model that cannot be evaluated is a disagreement, not an abort, so the
    implementation-level oracle keeps running"""
    try:
        return ctx.model_mismatches(run_fn, case_type, cases)
    except RuntimeError as e:
        ctx.disagree("the model could not be evaluated: %s" % str(e)[:300])
        return []


def multi_sender(ctx, nthreads, timeout, event, watchdog=5.0):
    """>= 2 real threads asleep in _wait_for_send_window on a closed window (sendall and sendall_stderr
    alternately), on an unmodified Channel with the real Condition.  Once every one of them is registered as a
    waiter of out_buffer_cv, ONE event is delivered: a window adjust large enough for all of them (every sender must
    then finish, having handed over all its data), or close / transport loss (every sender must raise socket.error).
    A sender still asleep (or timed out) afterwards is blocked although it could proceed."""
    chan, tr = new_channel(0, 4096, timeout)
    datas = [bytes([65 + i]) * (7 + 3 * i) for i in range(nthreads)]
    res = {}

    def sender(i):
        try:
            fn = chan.sendall_stderr if i % 2 else chan.sendall
            res[i] = ("ok", fn(datas[i]))
        except BaseException as e:  # noqa
            res[i] = ("exc", e)

    ths = [threading.Thread(target=sender, args=(i,), daemon=True) for i in range(nthreads)]
    for th in ths:
        th.start()
    waiters = getattr(chan.out_buffer_cv, "_waiters", None)
    deadline = _realtime.time() + 10.0
    while _realtime.time() < deadline:
        if waiters is not None and len(waiters) >= nthreads:
            break
        _realtime.sleep(0.005)
    if waiters is None:
        _realtime.sleep(0.5)
    asleep = len(waiters) if waiters is not None else nthreads
    apply_event(chan, event)
    t_end = _realtime.time() + watchdog
    for th in ths:
        th.join(max(0.0, t_end - _realtime.time()))
    stuck = [i for i, th in enumerate(ths) if th.is_alive()]
    # let stragglers go so that no thread outlives the check
    chan.lock.acquire()
    try:
        chan.closed = True
        chan.out_buffer_cv.notify_all()
    finally:
        chan.lock.release()
    for th in ths:
        th.join(2.0)
    case = {"multi": True, "threads": nthreads, "timeout": timeout, "event": list(event)}
    if asleep < nthreads:
        return "setup", case, "only %d of %d senders were asleep before the event" % (asleep, nthreads)
    codes = {i: (99 if i in stuck else classify(*res.get(i, ("exc", RuntimeError("no result"))))) for i in range(nthreads)}
    got = {MSG_DATA: b"".join(p for t, p in tr.data if t == MSG_DATA),
           MSG_EXT: b"".join(p for t, p in tr.data if t == MSG_EXT)}
    obs = {"outcome_per_sender": codes, "still_asleep": stuck, "bytes_handed_over": sum(len(v) for v in got.values())}
    if event[0] == "EvAdjust":
        if stuck or any(c != 0 for c in codes.values()):
            return "fail", case, ("blocked-sender-not-woken",
                                  "%d senders were asleep on a closed window; one window adjust of %d bytes (enough for "
                                  "all of them) arrived; not every sender woke up and finished" % (nthreads, event[1]),
                                  obs)
        # every byte of every sender handed over, per stream, each sender's bytes in order
        for i in range(nthreads):
            stream = got[MSG_EXT if i % 2 else MSG_DATA]
            if bytes(b for b in stream if b == datas[i][0]) != datas[i]:
                return "fail", case, ("sendall-returned-with-data-unsent", "a woken sender returned although not all "
                                      "of its bytes were handed to the transport", obs)
    else:
        if stuck or any(c != 6 for c in codes.values()) :
            return "fail", case, ("blocked-sender-not-released-by-close",
                                  "%d senders were asleep on a closed window; the channel was closed / lost; not every "
                                  "sender raised socket.error" % nthreads, obs)
    return "ok", case, obs


def multi_sender_runs(ctx):
    plan = [(2, None, ("EvAdjust", 1000)), (3, None, ("EvAdjust", 5000)), (2, 30.0, ("EvAdjust", 1000)),
            (4, 30.0, ("EvAdjust", 100000)), (2, None, ("EvClose",)), (3, 30.0, ("EvUnlink",)),
            (2, None, ("EvPeerClose",))]
    for nthreads, timeout, event in plan:
        kind, case, info = multi_sender(ctx, nthreads, timeout, event)
        if kind == "setup":
            kind, case, info = multi_sender(ctx, nthreads, timeout, event)
        ctx.count(("multi", nthreads, timeout, event), kind="multi-sender")
        if kind == "setup":
            ctx.notes.append(info)
        elif kind == "fail":
            ctx.fail(info[0], info[1], case=case, expected="every sender proceeds", observed=info[2])


GATE_TIMEOUT = 0.3


def gate_case(stderr, scenario, entry="sendall"):
    """sendall on a real Channel attached to a real (never started) Transport, observed at the packetizer boundary
    (Transport._send_message): Channel._send hands every chunk to Transport._send_user_message, which holds user data
    back while a key re-negotiation is in progress (clear_to_send cleared) for at most clear_to_send_timeout.
    Scenarios: open (no re-key), rekey-finishes (the gate re-opens in time), rekey-stalls (it never does),
    rekey-stalls-midway (the gate closes after the first chunk and never re-opens), transport-dies-midway (the
    transport's end-of-run sequence -- unlink every channel, then inactive -- after the first chunk).
    Delivered-or-raises: a normal return means every byte reached the packetizer."""
    from paramiko.transport import Transport
    from paramiko.channel import Channel
    from _loop import LoopSocket
    import logging
    logging.getLogger("paramiko").setLevel(logging.CRITICAL + 1)
    t = Transport(LoopSocket())
    t.active = True
    t.clear_to_send_timeout = GATE_TIMEOUT
    t.clear_to_send.set()
    got = []
    chan = Channel(5)
    chan._set_transport(t)
    chan._set_window(1 << 20, 1 << 15)
    chan._set_remote_channel(9, 1000, 4096)
    chan.out_max_packet_size = 64 + 6          # several chunks
    t._channels.put(5, chan)
    data = bytes(range(40, 40 + 20))

    def midway():
        if scenario == "rekey-stalls-midway":
            t.clear_to_send.clear()
        elif scenario == "transport-dies-midway":
            for c in list(t._channels.values()):
                c._unlink()
            t.active = False

    def send_message(m):
        raw = m.asbytes()
        if raw[0] in (MSG_DATA, MSG_EXT):
            off = 9 if raw[0] == MSG_EXT else 5
            got.append((raw[0], raw[off + 4:]))
            if len(got) == 1:
                midway()

    t._send_message = send_message
    helper = None
    if scenario in ("rekey-stalls", "rekey-finishes"):
        t.clear_to_send.clear()
    if scenario == "rekey-finishes":
        helper = threading.Timer(GATE_TIMEOUT / 4.0, t.clear_to_send.set)
        helper.daemon = True
        helper.start()
    fobj = None
    if entry == "file":
        fobj = chan.makefile_stderr("wb") if stderr else chan.makefile("wb")

        def fn(a):
            fobj.write(a)
            return fobj.flush()
    else:
        fn = chan.sendall_stderr if stderr else chan.sendall
    kind, val, th = watchdog(lambda: fn(data), WATCHDOG + 4 * GATE_TIMEOUT)
    if helper is not None:
        helper.join(2.0)
    if kind == "hang":
        chan.closed = True
        t.active = False
        t.clear_to_send.set()
        th.join(2.0)
    if fobj is not None:
        import io
        fobj._wbuffer = io.BytesIO()
    sent = b"".join(p for _, p in got)
    obs = {"outcome": "returned" if kind == "ok" else ("hang" if kind == "hang" else type(val).__name__),
           "bytes_at_packetizer": len(sent), "bytes_given": len(data), "chunks": len(got),
           "transport_active": bool(t.active), "channel_closed": bool(chan.closed)}
    case = {"gate": True, "scenario": scenario, "stderr": stderr, "entry": entry,
            "clear_to_send_timeout": GATE_TIMEOUT}
    chan.closed = True                                  # cleanup: nothing to do in __del__
    t.active = False
    prob = None
    want = MSG_EXT if stderr else MSG_DATA
    if kind == "hang":
        prob = ("sendall-hangs-behind-rekey", "sendall does not return although the re-key gate has a timeout")
    elif kind == "ok" and sent != data:
        prob = ("sendall-returned-but-transport-dropped-data", "sendall returned normally although not every byte "
                "was handed to the packetizer (the transport held the data back for a stalled key re-negotiation and "
                "dropped it)")
    elif not data.startswith(sent) or any(tp != want for tp, _ in got):
        prob = ("sendall-sent-wrong-bytes", "bytes at the packetizer are not a prefix of the data / wrong stream")
    elif scenario in ("open", "rekey-finishes") and kind != "ok":
        prob = ("sendall-raised-although-sendable", "sendall raised although the transport could send")
    elif scenario in ("rekey-stalls", "rekey-stalls-midway", "transport-dies-midway") and kind != "exc":
        prob = ("sendall-returned-but-transport-dropped-data", "sendall must raise when the transport cannot take "
                "the data")
    return case, obs, prob


def gate_runs(ctx):
    for scenario in ("open", "rekey-finishes", "rekey-stalls", "rekey-stalls-midway", "transport-dies-midway"):
        for stderr in (False, True):
            for entry in (("sendall", "file") if scenario in ("rekey-stalls", "open") else ("sendall",)):
                case, obs, prob = gate_case(stderr, scenario, entry)
                ctx.count(("gate", scenario, stderr, entry), kind="transport-gate")
                if prob:
                    ctx.fail(prob[0], prob[1], case=case, expected="delivered to the packetizer, or an exception",
                             observed=obs)
    ctx.sample({"transport-gate": {"case": case, "observed": obs}})


# ---- end to end: a real client / server Transport pair over an in-memory socket pair -------------------

E2E_WD = 6.0


def e2e_pair(server_kwargs=None, client_kwargs=None):
    """Real handshake over tests/_loop.LoopSocket; returns (tc, ts, client channel, server channel)."""
    import os
    import paramiko
    from paramiko import Transport, ServerInterface, Ed25519Key
    from paramiko.common import AUTH_SUCCESSFUL, OPEN_SUCCEEDED
    from _loop import LoopSocket
    import logging
    logging.getLogger("paramiko").setLevel(logging.CRITICAL + 1)

    class Server(ServerInterface):
        def get_allowed_auths(self, username):
            return "password"

        def check_auth_password(self, username, password):
            return AUTH_SUCCESSFUL

        def check_channel_request(self, kind, chanid):
            return OPEN_SUCCEEDED

        def check_channel_shell_request(self, channel):
            return True

    tests = os.path.join(os.path.dirname(os.path.dirname(os.path.abspath(paramiko.__file__))), "tests")
    key = Ed25519Key.from_private_key_file(os.path.join(tests, "_support", "ed25519.key"))
    socks, sockc = LoopSocket(), LoopSocket()
    sockc.link(socks)
    tc = Transport(sockc, **(client_kwargs or {}))
    ts = Transport(socks, **(server_kwargs or {}))
    ts.add_server_key(key)
    ev = threading.Event()
    ts.start_server(ev, Server())
    tc.connect(username="u", password="p")
    ev.wait(E2E_WD)
    chan = tc.open_session(timeout=E2E_WD)
    chan.invoke_shell()
    schan = ts.accept(E2E_WD)
    return tc, ts, chan, schan


def e2e_close(*ts):
    for t in ts:
        try:
            t.close()
        except Exception:  # noqa
            pass


def e2e_transfer(cfg):
    """sendall / sendall_stderr of more than the advertised window while the other side keeps reading: it must
    finish, and the reader must receive exactly the data (delivered end to end, through the real Packetizer)."""
    skw = {k: v for k, v in cfg.items() if k in ("default_window_size", "default_max_packet_size")}
    tc, ts, chan, schan = e2e_pair(server_kwargs=skw if cfg["configured"] == "server" else None,
                                   client_kwargs=skw if cfg["configured"] == "client" else None)
    try:
        if chan is None or schan is None:
            return {"outcome": "setup-failed"}, ("e2e-setup-failed", "could not open a session over the loopback pair")
        sender, reader = (chan, schan) if cfg["direction"] == "c2s" else (schan, chan)
        data = bytes((7 * i + 3) % 251 for i in range(cfg["size"]))
        stderr = cfg["stderr"]
        got = bytearray()
        stop = threading.Event()

        def read():
            reader.settimeout(0.2)
            rd = reader.recv_stderr if stderr else reader.recv
            while not stop.is_set() and len(got) < len(data):
                try:
                    b = rd(4096)
                except socket.timeout:
                    continue
                except Exception:  # noqa
                    break
                if not b:
                    break
                got.extend(b)

        rth = threading.Thread(target=read, daemon=True)
        rth.start()
        sender.settimeout(cfg["timeout"])
        fn = sender.sendall_stderr if stderr else sender.sendall
        wd = E2E_WD + cfg["size"] / 100000.0
        kind, val, th = watchdog(lambda: fn(data), wd)
        if kind == "ok":
            rth.join(wd)
        stop.set()
        obs = {"outcome": "returned" if kind == "ok" else ("still blocked after %.0f s" % wd if kind == "hang"
                                                           else type(val).__name__),
               "bytes_given": len(data), "bytes_received_by_peer": len(got),
               "sender_window": sender.out_window_size, "reader_in_window_threshold": reader.in_window_threshold,
               "reader_in_window_sofar": reader.in_window_sofar}
        prob = None
        if kind != "ok":
            prob = ("e2e-sendall-stalls", "sendall of more than the advertised window does not finish although the "
                    "peer application reads everything it receives (no window adjust arrives: the advertised and the "
                    "locally accounted receive window differ)")
        elif bytes(got) != data:
            prob = ("e2e-delivered-mismatch", "sendall returned but the peer did not receive exactly the data")
        return obs, prob
    finally:
        e2e_close(tc, ts)


def e2e_loss():
    """Peer-initiated transport loss: the server goes away, the client's Transport.run ends by itself.  A second
    thread calls sendall on a still-referenced open channel at the moment the dying transport closes its packetizer
    (just after it marked itself inactive).  Nothing can be delivered any more, so sendall must raise; returning
    normally means the data was silently dropped."""
    tc, ts, chan, schan = e2e_pair()
    res = {}
    try:
        if chan is None or schan is None:
            return {"outcome": "setup-failed"}, ("e2e-setup-failed", "could not open a session over the loopback pair")
        orig_close = tc.packetizer.close
        fired = threading.Event()

        def hooked_close():
            if not fired.is_set():
                fired.set()

                def snd():
                    try:
                        res["during"] = ("ok", chan.sendall(b"D" * 100))
                    except BaseException as e:  # noqa
                        res["during"] = ("exc", e)
                th = threading.Thread(target=snd, daemon=True)
                th.start()
                th.join(E2E_WD)
                if th.is_alive():
                    res["during"] = ("hang", None)
            return orig_close()

        tc.packetizer.close = hooked_close
        chan.settimeout(2.0)
        ts.close()                       # the peer goes away
        fired.wait(E2E_WD)
        tc.join(E2E_WD)
        try:
            res["after"] = ("ok", chan.sendall(b"A" * 10))
        except BaseException as e:  # noqa
            res["after"] = ("exc", e)

        def show(r):
            return "not run" if r is None else ("returned normally" if r[0] == "ok" else
                                                ("hang" if r[0] == "hang" else type(r[1]).__name__))
        obs = {"sendall_while_transport_dies": show(res.get("during")), "sendall_after_loss": show(res.get("after")),
               "packetizer_close_seen": fired.is_set(), "transport_active": bool(tc.active),
               "channel_closed": bool(chan.closed)}
        prob = None
        if not fired.is_set():
            prob = ("e2e-setup-failed", "the client transport did not shut down after the server went away")
        elif res.get("during", ("hang",))[0] != "exc":
            prob = ("sendall-returned-on-dying-transport", "a sendall that runs while the transport is being torn "
                    "down after the peer went away returned normally (or hung): its data was silently dropped -- the "
                    "channels must be closed before the transport stops accepting user data")
        elif res["after"][0] != "exc":
            prob = ("sendall-returned-after-transport-loss", "sendall after transport loss must raise")
        return obs, prob
    finally:
        e2e_close(tc, ts)


def e2e_own_close():
    """The application closes its own transport (Transport.close() -> stop_thread: active = False, then
    packetizer.close(), ... and only afterwards are the channels unlinked).  A second thread's sendall on an open
    channel is run to completion at the packetizer.close() call, i.e. right after the transport marked itself
    inactive: Transport._send_user_message drops the chunk ('connection is dead') and sendall returns normally
    although nothing was sent.  KNOWN FINDING on the current code (key sendall-returned-during-own-transport-close)."""
    tc, ts, chan, schan = e2e_pair()
    res = {}
    try:
        if chan is None or schan is None:
            return {"outcome": "setup-failed"}, ("e2e-setup-failed", "could not open a session over the loopback pair")
        orig_close = tc.packetizer.close
        fired = threading.Event()
        got_before = [0]

        def hooked_close():
            if not fired.is_set():
                fired.set()

                def snd():
                    try:
                        res["during"] = ("ok", chan.sendall(b"D" * 100))
                    except BaseException as e:  # noqa
                        res["during"] = ("exc", e)
                th = threading.Thread(target=snd, daemon=True)
                th.start()
                th.join(E2E_WD)
                if th.is_alive():
                    res["during"] = ("hang", None)
            return orig_close()

        tc.packetizer.close = hooked_close
        chan.settimeout(2.0)
        tc.close()                       # the application's own close
        try:
            res["after"] = ("ok", chan.sendall(b"A" * 10))
        except BaseException as e:  # noqa
            res["after"] = ("exc", e)
        # what the peer got before it noticed the loss
        try:
            schan.settimeout(0.3)
            while True:
                b = schan.recv(4096)
                if not b:
                    break
                got_before[0] += len(b)
        except Exception:  # noqa
            pass

        def show(r):
            return "not run" if r is None else ("returned normally" if r[0] == "ok" else
                                                ("hang" if r[0] == "hang" else type(r[1]).__name__))
        obs = {"sendall_during_own_close": show(res.get("during")), "sendall_after_close": show(res.get("after")),
               "bytes_received_by_peer": got_before[0], "bytes_given": 100,
               "packetizer_close_seen": fired.is_set(), "channel_closed": bool(chan.closed)}
        prob = None
        if not fired.is_set():
            prob = ("e2e-setup-failed", "Transport.close() did not reach packetizer.close()")
        elif res.get("during", ("hang",))[0] == "hang":
            prob = ("sendall-hangs-during-own-transport-close", "sendall hangs while the application closes the "
                    "transport")
        elif res["during"][0] == "ok" and got_before[0] < 100:
            prob = ("sendall-returned-during-own-transport-close",
                    "Channel.sendall overlapping the application's own Transport.close() returns normally with the "
                    "data dropped: stop_thread sets active=False before close() unlinks the channels, and "
                    "Transport._send_user_message silently drops user packets of an inactive transport")
        elif res["after"][0] != "exc":
            prob = ("sendall-returned-after-transport-loss", "sendall after Transport.close() must raise")
        return obs, prob
    finally:
        e2e_close(tc, ts)


def e2e_configs(seed, thorough):
    grid = []
    for configured in ("server", "client"):
        for dws in (2048, 3276, 40000, None):
            for direction in ("c2s", "s2c"):
                grid.append({"configured": configured, "default_window_size": dws, "direction": direction})
    out = []
    picks = range(len(grid)) if thorough else [(seed * 3 + k * 5) % len(grid) for k in range(3)]
    for n, i in enumerate(picks):
        c = dict(grid[i])
        if c["default_window_size"] is None:
            del c["default_window_size"]
        else:
            c["default_max_packet_size"] = [4096, 32768, 1024][(i + n) % 3]
        c["stderr"] = (c["direction"] == "s2c") and (i % 2 == 0)
        c["size"] = [9000, 70000, 5000][(i + n) % 3]
        c["timeout"] = [None, 30.0][(i + n) % 2]
        out.append(c)
    # far above the default window AND the default max packet size, everything at its default
    out.append({"configured": "server", "direction": "c2s", "stderr": False, "size": (1 << 20) + 1, "timeout": None})
    if thorough:
        out.append({"configured": "client", "direction": "s2c", "stderr": True, "size": (1 << 21) + 3, "timeout": 60.0})
    # the smallest documented-legal window on the receiving server, always
    out.append({"configured": "server", "default_window_size": 2048, "default_max_packet_size": 32768,
                "direction": "c2s", "stderr": False, "size": 7000, "timeout": None})
    return out


def e2e_runs(ctx):
    for cfg in e2e_configs(ctx.seed, ctx.thorough):
        case = {"e2e": "transfer", "cfg": cfg}
        try:
            obs, prob = e2e_transfer(cfg)
        except Exception as e:  # noqa
            obs, prob = {"exception": repr(e)}, ("e2e-setup-failed", "the loopback pair could not be set up")
        ctx.count(("e2e", repr(cfg)), kind="e2e-transfer")
        if prob and prob[0] == "e2e-setup-failed":
            ctx.notes.append("e2e setup failed once: %r" % (obs,))
        elif prob:
            ctx.fail(prob[0], prob[1], case=case, expected="sendall finishes and the peer receives the data",
                     observed=obs)
    try:
        obs, prob = e2e_loss()
    except Exception as e:  # noqa
        obs, prob = {"exception": repr(e)}, ("e2e-setup-failed", "")
    ctx.count(("e2e-loss",), kind="e2e-loss")
    if prob and prob[0] == "e2e-setup-failed":
        ctx.notes.append("e2e loss scenario could not be set up: %r" % (obs,))
    elif prob:
        ctx.fail(prob[0], prob[1], case={"e2e": "loss"}, expected="socket.error / an exception", observed=obs)
    ctx.sample({"e2e-loss": obs})
    try:
        obs, prob = e2e_own_close()
    except Exception as e:  # noqa
        obs, prob = {"exception": repr(e)}, ("e2e-setup-failed", "")
    ctx.count(("e2e-own-close",), kind="e2e-own-close")
    if prob and prob[0] == "e2e-setup-failed":
        ctx.notes.append("e2e own-close scenario could not be set up: %r" % (obs,))
    elif prob:
        ctx.fail(prob[0], prob[1], case={"e2e": "own-close"}, expected="socket.error / an exception", observed=obs)


def run(ctx):
    rng = ctx.rng
    scale = 8 if ctx.thorough else 1
    ctx.rule = ("seeded generator (random.Random('C25-<seed>')): data 0..47 bytes, windows 0..1000 and packet limits "
                "65..84 (several chunks), blocking / timed / non-blocking, up to 6 rounds of events before each send "
                "and wake-ups during its wait (window adjust incl. 0, close, peer CLOSE, transport loss, "
                "shutdown_write/shutdown(1|2), peer EOF, spurious wake-ups, elapsed time); plus the fixed live matrix "
                "mode x prior event x stream x window on an unmodified Channel with a real second thread; the argument as "
                "bytes / bytearray / memoryview / str (ASCII and multi-byte text; non-ASCII text is judged by the oracle "
                "only: bytes handed over == text.encode()), through sendall(_stderr) or ChannelFile/ChannelStderrFile "
                "write+flush; several senders asleep on one channel; sendall behind the transport's re-key gate (open, "
                "finishing, stalled, stalling midway) and across the transport's death, observed at the packetizer; end to "
                "end over a real client/server Transport pair (in-memory sockets, real handshake and Packetizer): "
                "transfers larger than the advertised window in both directions and streams with non-default "
                "default_window_size / default_max_packet_size on either side (rotating by seed, all in thorough), and "
                "a sendall placed inside the tear-down of a transport whose peer went away; compound events (what another "
                "thread did within the same sleep x the window adjust that wakes the sender, both orders), a 1 MiB "
                "transfer at default window / packet sizes; oracles also on the wire order (no data after our EOF) "
                "and the window account (window == initial + adjusts - bytes framed); "
                "a case is "
                "non-trivial when the data is non-empty and it needs >= 2 chunks, or raises, or has events")
    ctx.trusted += ["model coq/Model/C25.v is hand-written; tied to paramiko/channel.py (sendall, sendall_stderr, "
                    "send, send_stderr, _send, _wait_for_send_window, _window_adjust, close, _handle_close, _unlink, "
                    "shutdown, _handle_eof) by this differential run (vm_compute of the model's own definitions)",
                    "scripted runs replace chan.out_buffer_cv and pin paramiko.channel.time in the harness process; "
                    "the live matrix uses the real Condition and clock"]
    ctx.assumptions += ["events of other threads take effect only while the sender is outside the channel lock or "
                        "asleep in out_buffer_cv.wait (atomicity of the critical sections)",
                        "out_max_packet_size > 64 (Transport._sanitize_packet_size yields >= 4096) and window "
                        "adjustments are uint32: needed by C25_terminates",
                        "a blocking sendall whose window never re-opens and whose channel is never closed stays "
                        "asleep (outcome Blocked); liveness of the peer is not claimed"]
    ctx.prove()

    # ---- 1. scripted histories: sendall / sendall_stderr --------------------------------------
    cases, hangs = [], 0
    plan = [("plain", 100), ("mixed", 200), ("closing", 200), ("stall", 60), ("typed", 120), ("empty", 10)]
    for flavour, n in plan:
        for _ in range(n * scale):
            case = gen_case(rng, flavour)
            obs = run_one(ctx, case, flavour)
            cases.append((case, canon(obs, case["data"])))
            if obs["code"] == 99:
                hangs += 1
            if hangs >= 3:
                break
        if hangs >= 3:
            ctx.notes.append("stopped generating after 3 hangs (each costs the watchdog time)")
            break
    if hangs < 3:
        for case in meanwhile_cases():
            obs = run_one(ctx, case, "meanwhile")
            cases.append((case, canon(obs, case["data"])))
    cases = [(c, exp) for c, exp in cases if in_model(c)]      # non-ASCII text: oracle only (lengths in characters)
    bad = safe_mm(ctx, "run_sendall", "((bool * chan) * (list Z * list round))",
                               [(coq_case(c), exp) for c, exp in cases])
    for i in bad[:3]:
        ctx.disagree("sendall differs from the model", case=cases[i][0], impl=cases[i][1])
    for c, exp in cases:
        if len(c["data"]) > 5 and exp[4] >= 2:
            ctx.sample({"sendall": {"case": c, "impl": exp}})
            break
    for c, exp in cases:
        if exp[0] == 6 and c["data"]:
            ctx.sample({"sendall-raises": {"case": c, "impl": exp}})
            break

    # ---- 2. single send / send_stderr calls (documented: returns 0 on a closed stream) ----------
    import paramiko.channel as pc
    scases = []
    for _ in range(150 * scale):
        case = gen_case(rng, rng.choice(["mixed", "closing"]))
        case["rounds"] = case["rounds"][:1] or [([], [])]
        data = bytes(case["data"])
        chan, tr = new_channel(case["window"], case["maxpkt"], case["timeout"])
        script = Script(case["rounds"])
        clock = FakeClock()
        chan.out_buffer_cv = ScriptedCV(chan, clock, script)
        for ev in script.cur()[0]:
            apply_event(chan, ev)
        fn = chan.send_stderr if case["stderr"] else chan.send
        saved = pc.time
        pc.time = clock
        try:
            kind, val, th = watchdog(lambda: fn(data), WATCHDOG)
        finally:
            pc.time = saved
        st = [int(bool(chan.closed)), int(bool(chan.eof_sent)), chan.out_window_size]
        if script.overrun:
            ctx.fail("timed-send-outlives-timeout", "a timed send went back to sleep although it had already waited "
                     "for its whole timeout without being able to send", case=case,
                     expected="socket.timeout after %s s" % script.overrun["timeout"], observed=script.overrun)
        if kind == "ok" and isinstance(val, int):
            exp = [0, val] + st
            for t, p in tr.data:
                exp += [t, len(p)] + list(p)
            if val < 0 or val > len(data) or b"".join(p for _, p in tr.data) != data[:val]:
                ctx.fail("send-result", "send returned a count that does not match what it handed to the transport",
                         case=case, expected=val, observed=[len(p) for _, p in tr.data])
        else:
            exp = [classify(kind, val)] + st
            if kind == "hang":
                ctx.fail("send-hang", "send does not return", case=case)
        wt = [t_ for t_, _ in tr.msgs]
        ends = [i for i, t_ in enumerate(wt) if t_ in (96, 97)]
        if ends and any(t_ in (MSG_DATA, MSG_EXT) for t_ in wt[ends[0] + 1:]):
            ctx.fail("data-after-eof", "send handed a data message to the transport after our EOF / CLOSE: a sender "
                     "woken by a window adjust did not notice that the stream had been shut down meanwhile",
                     case=case, expected="0 / socket.error, no data after EOF", observed=wt)
        scases.append((case, exp))
        ctx.count(("send", case_key(case)), nontrivial=bool(data), kind="send")
    bad = safe_mm(ctx, "run_send", "((bool * chan) * (list Z * round))",
                               [(coq(((c["stderr"], coq_chan(c)),
                                      (list(c["data"]),
                                       ([strip_ev(e) for e in c["rounds"][0][0]],
                                        [((None if e is None else ("Some", strip_ev(e))), dt)
                                         for e, dt in c["rounds"][0][1]])))), exp) for c, exp in scases])
    for i in bad[:3]:
        ctx.disagree("send differs from the model", case=scases[i][0], impl=scases[i][1])

    # ---- 3. live matrix: real Condition, real clock, real second thread --------------------------
    lcases = []
    if hangs < 3:
        lhangs = 0
        for timeout, prior, stderr, window in live_cases():
            dead = prior is not None and prior[0] in ("EvShutWrite", "EvClose", "EvPeerClose", "EvUnlink")
            helpers = [None]
            if window == 0 and not dead and timeout != 0.0:
                # the sender falls asleep: wake it by a window adjust / close / shutdown from another thread
                helpers = [("EvAdjust", 50), ("EvClose",), ("EvUnlink",),
                           ("EvBoth", ("EvShutWrite", 0), ("EvAdjust", 50))]
            elif window == 4 and not dead and timeout != 0.0:
                helpers = [("EvAdjust", 50)]
            for helper in helpers:
                case, model_case, obs = run_live(ctx, timeout, prior, stderr, window, helper)
                oracle(ctx, case, obs)
                lcases.append((case, model_case, canon(obs, case["data"])))
                ctx.count(("live", repr(case)), nontrivial=True, kind="live")
                if obs["code"] == 99:
                    lhangs += 1
            if lhangs >= 3:
                break
        multi_sender_runs(ctx)
        gate_runs(ctx)
        e2e_runs(ctx)
        # one real timed wait that runs out (0.2 s)
        chan, tr = new_channel(0, 69, 0.2)
        kind, val, th = watchdog(lambda: chan.sendall(b"abc"), WATCHDOG)
        ctx.count(("live-timeout",), kind="live")
        if classify(kind, val) != 5 or tr.data:
            ctx.fail("sendall-timed-no-timeout", "timed sendall with a closed window must raise socket.timeout",
                     case={"timeout": 0.2, "window": 0}, expected="socket.timeout",
                     observed=None if kind != "exc" else type(val).__name__)
        if kind == "hang":
            chan._unlink()
        bad = safe_mm(ctx, "run_sendall", "((bool * chan) * (list Z * list round))",
                                   [(coq_case(m), exp) for _, m, exp in lcases])
        for i in bad[:3]:
            ctx.disagree("live sendall differs from the model", case=lcases[i][0], impl=lcases[i][2])
        if lcases:
            ctx.sample({"live": {"case": lcases[-1][0], "impl": lcases[-1][2]}})


def replay(ctx, rep):
    case = rep.get("case") or {}
    if isinstance(case, dict) and case.get("e2e"):
        if ctx.proof is None:
            ctx.prove()
        obs, prob = (e2e_loss() if case["e2e"] == "loss" else e2e_own_close() if case["e2e"] == "own-close"
                     else e2e_transfer(case["cfg"]))
        ctx.count(("replay", repr(case)))
        ctx.count(("replay2", repr(case)))
        if prob:
            ctx.fail(prob[0], prob[1], case=case, observed=obs)
        return
    if isinstance(case, dict) and case.get("gate"):
        if ctx.proof is None:
            ctx.prove()
        c, obs, prob = gate_case(case["stderr"], case["scenario"], case.get("entry", "sendall"))
        ctx.count(("replay", repr(c)))
        ctx.count(("replay2", repr(c)))
        if prob:
            ctx.fail(prob[0], prob[1], case=c, expected="delivered to the packetizer, or an exception", observed=obs)
        return
    if isinstance(case, dict) and case.get("multi"):
        if ctx.proof is None:
            ctx.prove()
        kind, c, info = multi_sender(ctx, case["threads"], case["timeout"], tuple(case["event"]))
        ctx.count(("replay", repr(c)))
        ctx.count(("replay2", repr(c)))
        if kind == "fail":
            ctx.fail(info[0], info[1], case=c, expected="every sender proceeds", observed=info[2])
        return
    if not isinstance(case, dict) or "data" not in case or case.get("live"):
        run(ctx)
        return

    def fix_ev(e):
        return None if e is None else tuple(e)

    case = dict(case)
    case["rounds"] = [([fix_ev(e) for e in pre], [(fix_ev(e), dt) for e, dt in wakes]) for pre, wakes in case["rounds"]]
    if ctx.proof is None:
        ctx.prove()
    obs = run_one(ctx, case, "replay")
    ctx.count(("replay2", case_key(case)))
    bad = safe_mm(ctx, "run_sendall", "((bool * chan) * (list Z * list round))",
                  [(coq_case(case), canon(obs, case["data"]))]) if in_model(case) else []
    if bad:
        ctx.disagree("sendall differs from the model", case=case, impl=canon(obs, case["data"]))
