(* C34 — model of paramiko/sftp_si.py SFTPServerInterface.canonicalize (POSIX branch) and of
   the library function it relies on, posixpath.normpath.  Definitions only.
   Paths are lists of code points (Z); '/' = 47, '.' = 46.  The win32 branch of canonicalize
   (backslash replacement) is outside the model. *)
From PV Require Import Bytes C34_gen.
Open Scope Z_scope.

(* the separator literal of canonicalize, regenerated from paramiko/sftp_si.py on every run (Gen/C34_gen.v);
   gen/c34.py also pins by AST the shape of canonicalize that this file mirrors *)
Definition SLASH : Z := G_SEP.
Definition DOT : Z := 46.
Definition comp := list Z.

(* ---- str.split('/') and '/'.join ------------------------------------------- *)
Fixpoint split_aux (cur : list Z) (s : list Z) : list comp :=
  match s with
  | [] => [rev cur]
  | c :: r => if c =? SLASH then rev cur :: split_aux [] r else split_aux (c :: cur) r
  end.
Definition split_slash (s : list Z) : list comp := split_aux [] s.

Fixpoint join_slash (l : list comp) : list Z :=
  match l with
  | [] => []
  | [x] => x
  | x :: r => x ++ SLASH :: join_slash r
  end.

Definition is_empty {A} (c : list A) : bool := match c with [] => true | _ => false end.
Definition is_dot (c : comp) : bool := zlist_eqb c [DOT].
Definition is_dotdot (c : comp) : bool := zlist_eqb c [DOT; DOT].

(* ---- posixpath.normpath ----------------------------------------------------- *)
(* for comp in comps:
     if comp in ('', '.'): continue
     if (comp != '..' or (not initial_slashes and not new_comps) or
             (new_comps and new_comps[-1] == '..')):
         new_comps.append(comp)
     elif new_comps:
         new_comps.pop()
   `stk` is new_comps reversed (head = last element) *)
Fixpoint norm_loop (initial : bool) (comps : list comp) (stk : list comp) : list comp :=
  match comps with
  | [] => stk
  | c :: r =>
      if is_empty c || is_dot c then norm_loop initial r stk
      else if negb (is_dotdot c)
              || (negb initial && is_empty stk)
              || (negb (is_empty stk) && is_dotdot (hd [] stk))
           then norm_loop initial r (c :: stk)
           else norm_loop initial r (tl stk)
  end.

(* initial_slashes: 0, 1, or 2 (exactly two leading slashes are kept, three or more are one) *)
Fixpoint starts_with (pre s : list Z) : bool :=
  match pre, s with
  | [], _ => true
  | a :: p, b :: t => (a =? b) && starts_with p t
  | _ :: _, [] => false
  end.

(* initial_slashes = path.startswith('/'); if it and path.startswith('//') and not
   path.startswith('///'): initial_slashes = 2 *)
Definition initial_slashes (path : list Z) : nat :=
  if starts_with [SLASH] path then
    if starts_with [SLASH; SLASH] path && negb (starts_with [SLASH; SLASH; SLASH] path)
    then 2%nat else 1%nat
  else 0%nat.

Definition normpath (path : list Z) : list Z :=
  match path with
  | [] => [DOT]
  | _ =>
      let k := initial_slashes path in
      let comps := rev (norm_loop (negb (Nat.eqb k 0)) (split_slash path) []) in
      let p := repeat SLASH k ++ join_slash comps in
      match p with [] => [DOT] | _ => p end
  end.

(* ---- SFTPServerInterface.canonicalize --------------------------------------- *)
(* if os.path.isabs(path): out = os.path.normpath(path) else: out = os.path.normpath("/" + path) *)
Definition isabs (path : list Z) : bool :=
  match path with c :: _ => c =? SLASH | [] => false end.

Definition canonicalize (path : list Z) : list Z :=
  if isabs path then normpath path else normpath (SLASH :: path).

(* ---- SFTPServer._process, CMD_REALPATH branch -------------------------------- *)
(* rpath = self.server.canonicalize(path): the reply is a function of the session's own interface and the
   requested path; `history` = every REALPATH request any session of the process handled before (gen/c34.py
   checks on each run that the branch has exactly this shape: G_REALPATH_STATELESS) *)
Definition realpath_reply (canon : list Z -> list Z) (history : list (list Z * list Z)) (path : list Z) : list Z :=
  if G_REALPATH_STATELESS then canon path else canon path.

(* ---- what the theorems talk about ------------------------------------------- *)
(* the components a path names: split on '/', empty ones (repeated / leading / trailing
   separators) carry no meaning *)
Definition comps (s : list Z) : list comp := filter (fun c => negb (is_empty c)) (split_slash s).

(* path resolution as the operating system performs it on the string (symbolic links aside):
   '.' stays, '..' goes up (the root's parent is the root), a name goes down.
   `stk` = current directory, innermost first *)
Fixpoint walk (stk : list comp) (cs : list comp) : list comp :=
  match cs with
  | [] => stk
  | c :: r => if is_dot c then walk stk r
              else if is_dotdot c then walk (tl stk) r
              else walk (c :: stk) r
  end.
Definition resolve (s : list Z) : list comp := rev (walk [] (comps s)).

Definition no_slash (c : comp) : bool := forallb (fun x => negb (x =? SLASH)) c.
(* an ordinary name: non-empty, not '.', not '..', no separator inside *)
Definition clean (c : comp) : bool :=
  negb (is_empty c) && negb (is_dot c) && negb (is_dotdot c) && no_slash c.

(* ---- correspondence runs ------------------------------------------------------ *)
Definition run_canon (p : list Z) : list Z := canonicalize p.
Definition run_normpath (p : list Z) : list Z := normpath p.
(* many short paths per case: results separated by -1 *)
Definition run_canon_many (ps : list (list Z)) : list Z := flat_map (fun p => canonicalize p ++ [-1]) ps.

(* exhaustive sweeps without large case files: the idx-th string of length len over the alphabet
   {'/', '.', 'a', 'b'} (base-4 digits of idx, most significant first), results packed into one
   number in base 5 (0 = separator, 1..4 = the four symbols; canonicalize only returns symbols
   of its input and '/') *)
Definition sym (d : Z) : Z := if d =? 0 then 47 else if d =? 1 then 46 else if d =? 2 then 97 else 98.
Fixpoint nth_string (len : nat) (idx : Z) (acc : list Z) : list Z :=
  match len with
  | O => acc
  | S k => nth_string k (idx / 4) (sym (idx mod 4) :: acc)
  end.
Definition code (c : Z) : Z :=
  if c =? 47 then 1 else if c =? 46 then 2 else if c =? 97 then 3 else if c =? 98 then 4 else 0.
Definition pack5 (acc : Z) (s : list Z) : Z := fold_left (fun a c => a * 5 + code c) s (acc * 5).
Fixpoint range_fold (n : nat) (len : nat) (idx : Z) (acc : Z) : Z :=
  match n with
  | O => acc
  | S m => range_fold m len (idx + 1) (pack5 acc (canonicalize (nth_string len idx [])))
  end.
(* c = (len, start, count): strings start .. start+count-1 of length len *)
Definition run_canon_range (c : Z * Z * Z) : list Z :=
  let '(len, start, count) := c in
  [range_fold (Z.to_nat (Z.min count 4096)) (Z.to_nat (Z.min len 16)) start 1].
