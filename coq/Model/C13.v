(* C13 -- blocking calls return once the connection ends.  Definitions only.

   1. The wake graph.  Gen/C13_gen.v (regenerated from the source on every run by gen/c13.py) gives,
      statement by statement, the wake actions of Transport.run()'s epilogue, Transport.close /
      stop_thread, Channel._unlink / _set_closed, BufferedPipe.close, AuthHandler.abort
      ([fn_body]) and one row per blocking API ([api_rows]: wait primitive, poll period, whether the
      exit condition is tested before the first wait, whether it loops, which facts make it exit).
      Here: the interpreter that turns an ending of the connection into its list of atomic
      actions, a small-step semantics of one blocked caller racing with that list under an
      arbitrary schedule, and the decidable criterion [ok] that Proofs/C13_proofs.v shows sufficient
      for "the caller always gets out".
   2. The polling loop "wait <= period; if not active: raise" over an environment trace with
      explicit time.
   3. The EOF-detection loops Packetizer.read_all and ProxyCommand.recv over an oracle stream of
      socket / pipe results (the stream is the fuel).

   Outside the model: that the OS really delivers notify/set/timeouts, real time, the GIL. *)
From Coq Require Import ZArith List Bool Lia.
From PV Require Import Bytes WakeGraph C13_gen.
Import ListNotations.
Open Scope Z_scope.

(* ---------------------------------------------------------------------------------------- *)
(* 1. wake graph                                                                             *)

Definition state := list fact.
Definition holds (st : state) (f : fact) : bool := existsb (fact_eqb f) st.

Definition apply_action (a : action) (st : state) : state :=
  match a with Establish f => f :: st | _ => st end.
Definition state_after (acts : list action) (st : state) : state :=
  fold_left (fun s a => apply_action a s) acts st.

(* interpreter of the translated statements: the actions an ending performs, in order, from
   state [st].  Running out of fuel truncates the list (fewer wake-ups: fail-closed). *)
Fixpoint exec (fuel : nat) (body : fn -> list stmt) (st : state) (ss : list stmt) : list action :=
  match fuel with
  | O => []
  | S f =>
      match ss with
      | [] => []
      | SDo a :: r => a :: exec f body (apply_action a st) r
      | SCall g :: r =>
          let acts := exec f body st (body g) in
          acts ++ exec f body (state_after acts st) r
      | SSkipUnlessActive n :: r =>
          if holds st FInactive then exec f body st (skipn n r) else exec f body st r
      | SReturnIfInactive :: r => if holds st FInactive then [] else exec f body st r
      | SReturnIfChanClosed :: r => if holds st FChanClosed then [] else exec f body st r
      end
  end.

(* the ways a connection ends *)
Inductive ending := PeerClose | SocketEOF | ProxyExit | ProtocolError | LocalClose.
Definition ending_code (e : ending) : Z :=
  match e with PeerClose => 1 | SocketEOF => 2 | ProxyExit => 3 | ProtocolError => 4 | LocalClose => 5 end.
Definition endings : list ending := [PeerClose; SocketEOF; ProxyExit; ProtocolError; LocalClose].

(* MSG_DISCONNECT breaks out of the loop; EOF (see section 3), a dead proxy process and a protocol
   error raise inside it: every one of them reaches the epilogue of run() (gen/c13.py checks the
   handlers).  A local close() runs Transport.close on the caller's thread. *)
Definition ending_stmts (e : ending) : list stmt :=
  match e with
  | LocalClose => [SCall FnClose]
  | _ => [SCall FnRunEpilogue]
  end.
Definition actions_with (body : fn -> list stmt) (e : ending) : list action :=
  exec 200 body [] (ending_stmts e).
Definition ending_actions (e : ending) : list action := actions_with fn_body e.

(* one caller *)
Inductive wstate := WPre | WWait (tok : bool) | WDone.

Definition cond (r : api_row) (st : state) : bool := existsb (holds st) (a_exit_on r).

(* notify() wakes one waiter, maybe another one: in the worst case not this caller *)
Definition delivers (r : api_row) (a : action) : bool :=
  match a with NotifyAll o => obj_eqb o (a_prim r) | _ => false end.
Definition deliver (r : api_row) (a : action) (w : wstate) : wstate :=
  match w with WWait _ => if delivers r a then WWait true else w | _ => w end.

Definition bounded (r : api_row) : bool := match a_period r with Some _ => true | None => false end.
Definition enabled (r : api_row) (st : state) (tok : bool) : bool :=
  tok || bounded r || (is_event (a_prim r) && holds st (FEv (a_prim r))).

(* one step of the caller: test-and-wait is atomic (the condition variables are used under their
   lock; Event.wait on a set event returns at once) *)
Definition wstep (r : api_row) (st : state) (w : wstate) : wstate :=
  match w with
  | WPre => if a_has_pre r && cond r st then WDone else WWait false
  | WWait tok =>
      if enabled r st tok then (if negb (a_loop r) || cond r st then WDone else WWait false) else w
  | WDone => WDone
  end.

(* a schedule: true = the ending thread performs its next action, false = the caller tries a step *)
Fixpoint run (r : api_row) (sched : list bool) (acts : list action) (st : state) (w : wstate)
  : list action * state * wstate :=
  match sched with
  | [] => (acts, st, w)
  | true :: s =>
      match acts with
      | [] => run r s [] st w
      | a :: rest => run r s rest (apply_action a st) (deliver r a w)
      end
  | false :: s => run r s acts st (wstep r st w)
  end.

(* once the ending thread is done the caller needs at most two more steps of its own *)
Definition settle (r : api_row) (st : state) (w : wstate) : wstate := wstep r st (wstep r st w).

(* a delivering notify_all that happens when the exit condition already holds *)
Fixpoint notify_after_cond (r : api_row) (acts : list action) (st : state) : bool :=
  match acts with
  | [] => false
  | a :: rest => (delivers r a && cond r st) || notify_after_cond r rest (apply_action a st)
  end.

Definition ok (r : api_row) (acts : list action) (st0 : state) : bool :=
  cond r (state_after acts st0) &&
  (bounded r
   || (if is_event (a_prim r) then holds (state_after acts st0) (FEv (a_prim r))
       else a_has_pre r && notify_after_cond r acts st0)).

(* the caller's own timeout (Channel.settimeout, accept(t)) bounds every wait *)
Definition with_timeout (r : api_row) (t : Z) : api_row :=
  mk_api (a_api r) (a_prim r) (Some t) (a_user_timeout r) (a_has_pre r) (a_loop r) (a_exit_on r).

Definition all_ok (rows : list api_row) (body : fn -> list stmt) : bool :=
  forallb (fun r => forallb (fun e => ok r (actions_with body e) []) endings) rows.

(* the table as it was before the repair (accept: no active test, notify() of one waiter, no
   wake-up in close()) -- kept to show what the criterion rejects *)
Definition accept_row_v0 : api_row := mk_api ApiAccept CvAccept None true false false [].
Definition fn_body_v0 (f : fn) : list stmt :=
  match f with
  | FnRunEpilogue =>
      [SCall FnUnlink; SSkipUnlessActive 6; SDo (Establish FInactive); SDo (Establish FPktClosed);
       SDo (Establish (FEv EvCompletion)); SCall FnAuthAbort; SDo (Establish (FEv EvChanOpen));
       SDo (NotifyOne CvAccept); SDo (Establish FSockClosed)]
  | FnClose => [SReturnIfInactive; SCall FnStopThread; SCall FnUnlink; SDo (Establish FSockClosed)]
  | _ => fn_body f
  end.

(* correspondence entry point: (api code, ending code, timeout?, phase k).  Phase: the caller makes
   its call (first step) after the ending thread has performed k of its actions (k = 0: blocked
   before the loss; k >= number of actions: called afterwards), tries a step after every further
   action, and finally settles.  Output [1] = returned/raised, [0] = still blocked. *)
Definition phase_sched (k : nat) (n : nat) : list bool :=
  let k' := Nat.min k n in
  repeat true k' ++ [false] ++ flat_map (fun _ => [true; false]) (seq 0 (n - k')).

Definition find_row (c : Z) : option api_row := find (fun r => api_code (a_api r) =? c) api_rows.
Definition find_ending (c : Z) : option ending := find (fun e => ending_code e =? c) endings.

Definition run_cell (x : Z * Z * bool * Z) : list Z :=
  let '(ac, ec, tmo, k) := x in
  match find_row ac, find_ending ec with
  | Some r0, Some e =>
      let r := if tmo && a_user_timeout r0 then with_timeout r0 200 else r0 in
      let acts := ending_actions e in
      let kk := Z.to_nat (Z.min (Z.max k 0) 64) in
      let '(_, st, w) := run r (phase_sched kk (length acts)) acts [] WPre in
      match settle r (state_after acts []) w with
      | WDone => [1; if ok r acts [] then 1 else 0]
      | _ => [0; if ok r acts [] then 1 else 0]
      end
  | _, _ => [-1]
  end.

(* ---------------------------------------------------------------------------------------- *)
(* 2. the polling loop                                                                       *)

(* what the loop sees in one iteration: how long the wait lasted (ms), and the values of
   `self.active` and of the awaited event read after the wait *)
Record tick := mk_tick { t_dur : Z; t_active : bool; t_event : bool }.

Inductive poll_out := PollRaised (iterations : nat) (at_ms : Z)     (* if not self.active: raise *)
                    | PollBroke (iterations : nat) (at_ms : Z)      (* if event.is_set(): break *)
                    | PollRunning (at_ms : Z).                      (* trace exhausted: still looping *)

(* while True: event.wait(period); if not self.active: raise ...; if event.is_set(): break *)
Fixpoint poll (trace : list tick) (i : nat) (now : Z) : poll_out :=
  match trace with
  | [] => PollRunning now
  | t :: rest =>
      let now' := now + t_dur t in
      if negb (t_active t) then PollRaised i now'
      else if t_event t then PollBroke i now'
      else poll rest (S i) now'
  end.

Fixpoint time_after (trace : list tick) (now : Z) : Z :=
  match trace with [] => now | t :: rest => time_after rest (now + t_dur t) end.

(* ---------------------------------------------------------------------------------------- *)
(* 3. EOF detection                                                                          *)

(* Packetizer.read_all: one environment record per loop iteration *)
Inductive sockres := RData (x : list Z) | RTimeout | RErr (eagain : bool).
Record rd_env := mk_rd { r_res : sockres; r_hs_timed_out : bool; r_closed : bool; r_need_rekey : bool }.

Definition NeedRekeyExc : exn := LibExc 1.
Definition ProxyFailure : exn := LibExc 2.

Fixpoint read_loop (envs : list rd_env) (n : Z) (out : list Z) (check_rekey : bool) : result (list Z) :=
  if n <=? 0 then Ok out
  else match envs with
       | [] => Raise OutOfFuel
       | e :: rest =>
           if r_hs_timed_out e then Raise EOFErr
           else
             let on_timeout :=
               if r_closed e then Raise EOFErr
               else if check_rekey && (Nat.eqb (length out) 0) && r_need_rekey e then Raise NeedRekeyExc
               else read_loop rest n out check_rekey in
             match r_res e with
             | RData x =>
                 if Nat.eqb (length x) 0 then Raise EOFErr
                 else read_loop rest (n - Z.of_nat (length x)) (out ++ x) check_rekey
             | RTimeout => on_timeout
             | RErr true => on_timeout
             | RErr false => if r_closed e then Raise EOFErr else Raise SocketErr
             end
       end.

(* out = remainder[:n]; n -= len(out); then the loop *)
Definition read_all (remainder : list Z) (envs : list rd_env) (n : Z) (check_rekey : bool) : result (list Z) :=
  let out := firstn (Z.to_nat (Z.min (Z.max n 0) (Z.of_nat (length remainder)))) remainder in
  read_loop envs (n - Z.of_nat (length out)) out check_rekey.

(* ProxyCommand.recv: one record per loop iteration *)
Inductive pstep :=
  | PElapsed                 (* elapsed >= self.timeout *)
  | PNotReady                (* select returned nothing readable *)
  | PRead (x : list Z)       (* os.read result; [] = the process closed its stdout *)
  | PIOError.

(* the repaired loop: an empty read ends it *)
Fixpoint proxy_recv (steps : list pstep) (size : Z) (buf : list Z) : result (list Z) :=
  if size <=? Z.of_nat (length buf) then Ok buf
  else match steps with
       | [] => Raise OutOfFuel
       | PElapsed :: _ => if Nat.eqb (length buf) 0 then Raise SocketTimeout else Ok buf
       | PNotReady :: rest => proxy_recv rest size buf
       | PRead x :: rest => if Nat.eqb (length x) 0 then Ok buf else proxy_recv rest size (buf ++ x)
       | PIOError :: _ => Raise ProxyFailure
       end.

(* the loop before the repair: buffer += os.read(...) unconditionally *)
Fixpoint proxy_recv_v0 (steps : list pstep) (size : Z) (buf : list Z) : result (list Z) :=
  if size <=? Z.of_nat (length buf) then Ok buf
  else match steps with
       | [] => Raise OutOfFuel
       | PElapsed :: _ => if Nat.eqb (length buf) 0 then Raise SocketTimeout else Ok buf
       | PNotReady :: rest => proxy_recv_v0 rest size buf
       | PRead x :: rest => proxy_recv_v0 rest size (buf ++ x)
       | PIOError :: _ => Raise ProxyFailure
       end.

(* correspondence entry points *)
Definition enc_result (r : result (list Z)) : list Z :=
  match r with Ok b => 0 :: b | Raise e => [exn_code e] end.

Definition dec_rd (x : Z * list Z * bool * bool * bool) : rd_env :=
  let '(k, data, hs, cl, nr) := x in
  mk_rd (if k =? 0 then RData data else if k =? 1 then RTimeout else if k =? 2 then RErr true else RErr false)
        hs cl nr.

Definition run_read_all (x : list Z * list (Z * list Z * bool * bool * bool) * Z * bool) : list Z :=
  let '(rem, envs, n, cr) := x in enc_result (read_all rem (map dec_rd envs) n cr).

Definition dec_ps (x : Z * list Z) : pstep :=
  let '(k, data) := x in
  if k =? 0 then PRead data else if k =? 1 then PNotReady else if k =? 2 then PElapsed else PIOError.

Definition run_proxy_recv (x : list (Z * list Z) * Z) : list Z :=
  let '(steps, size) := x in enc_result (proxy_recv (map dec_ps steps) size []).
