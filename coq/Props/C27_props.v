(* C27 — remote SFTP files behave like local Python binary files.
   Property statements only; every proof is `exact <lemma from Proofs/C27_proofs.v>`.

   The unrestricted statement -- for every mode in {r, r+, w, w+, a, a+, x}, buffer size, initial
   file and op sequence over read / readline / readlines / write / seek / tell / truncate / flush,
       fst (sf_run fuel f0 ops) = fst (ref_run r0 ops)  /\
       final_content fuel (snd (sf_run fuel f0 ops)) = r_content (snd (ref_run r0 ops))
   -- is FALSE for the code as it is: the seven _refuted theorems below are witnesses, one per
   registered known finding.  What is proved instead is the exact complement:
     C27_refines_outside_findings  the statement above for EVERY program that shows none of the
                                   seven finding shapes (boolean predicate no_finding_shape, Model/C27.v),
     C27_shape_partition           every program either satisfies no_finding_shape or has a first
                                   finding shape, one of the seven,
     C27_refuted_shapes            each _refuted witness shows exactly the shape it is named after.
   The only further hypothesis is fuel_suffices: `fuel` bounds the loops of the executable model
   and must be large enough (a model artefact; the differential run evaluates it on every generated
   program).  sf_* is the model of SFTPFile over BufferedFile (C42) over the server handle with its
   __tell cache; ref_* is Lib/FileSpec.v. *)
From PV Require Import Bytes C42 C42_gen C42_proofs FileSpec C27 C27_gen C27_proofs.
Open Scope Z_scope.

(* refinement for every program outside the seven known-finding shapes: all eight op kinds (read(n),
   read(), readline(size), readlines, write, seek with the three whences incl. refused negative
   targets, tell, truncate, flush), every mode (r, r+, w, w+, a, a+, x = paramiko "wx"), every
   buffer size (unbuffered, line-buffered, block-buffered), existing or missing file *)
Theorem C27_refines_outside_findings :
  forall (m : fmode) (bufsz : Z) (file : option (list Z)) (ops : list fop) (fuel : nat)
         (f0 : sfile) (r0 : rfile),
    sf_open m bufsz file = Some f0 -> ref_open m file = Some r0 ->
    no_finding_shape m fuel f0 ops = true -> fuel_suffices fuel f0 ops = true ->
    fst (sf_run fuel f0 ops) = fst (ref_run r0 ops) /\
    final_content fuel (snd (sf_run fuel f0 ops)) = r_content (snd (ref_run r0 ops)).
Proof. exact refines_outside_findings. Qed.
Print Assumptions C27_refines_outside_findings.

(* the shapes partition the programs *)
Theorem C27_shape_partition :
  forall (m : fmode) (fuel : nat) (f : sfile) (ops : list fop),
    no_finding_shape m fuel f ops = true \/
    exists k, first_finding m fuel f ops = Some k /\ no_finding_shape m fuel f ops = false.
Proof. exact shape_partition. Qed.
Print Assumptions C27_shape_partition.

(* each _refuted witness below shows exactly the finding shape it is named after *)
Theorem C27_refuted_shapes :
  shape_of Mrp 8 (Some [10;10;121;10;121]) [FWrite [97;10;97;97]; FReadline None] = Some KReadPending /\
  shape_of Mw 65536 (Some []) [FWrite [97;98;99]; FTell] = Some KTellPending /\
  shape_of Mrp 0 (Some [97;10;98;10;99]) [FReadline None; FWrite [88]] = Some KWriteAfterRead /\
  shape_of Mw 64 (Some []) [FWrite [97;98]; FTruncate 0] = Some KTruncPending /\
  shape_of Mr 0 (Some [97;98;99]) [FTruncate 1] = Some KTruncReadOnly /\
  shape_of Ma 0 (Some []) [FWrite [97;98]; FTruncate 0; FWrite [99]; FTell] = Some KStaleAfterTrunc /\
  shape_of Mxbare 0 None [FWrite [97]] = Some KBareX.
Proof. exact refuted_shapes. Qed.
Print Assumptions C27_refuted_shapes.

(* the read / seek / tell fragment under a purely static condition on the program *)
Theorem C27_refines_read_fragment :
  forall (m : fmode) (bufsz : Z) (file : option (list Z)) (ops : list fop) (fuel : nat)
         (f0 : sfile) (r0 : rfile),
    sf_open m bufsz file = Some f0 -> ref_open m file = Some r0 ->
    m_read m = true -> forallb read_only_op ops = true ->
    (length (r_content r0) < fuel)%nat ->
    fst (sf_run fuel f0 ops) = fst (ref_run r0 ops) /\
    final_content fuel (snd (sf_run fuel f0 ops)) = r_content (snd (ref_run r0 ops)).
Proof. exact refines_read_fragment. Qed.
Print Assumptions C27_refines_read_fragment.

(* _write_all over the server handle: the whole data lands contiguously at _realpos (or at the end
   in append mode), whatever the 32768-byte request splitting *)
Theorem C27_write_all_lands :
  forall (fuel : nat) (f : sfile) (data : list Z),
    (length data < fuel)%nat -> srv_ok (strm f) -> s_app (strm f) = fl_append f -> 0 <= realpos f ->
    (fl_append f = true -> fsize f = zlen (s_content (strm f))) ->
    exists f', write_all s_write fuel f data = Some f' /\
      s_content (strm f') = wa_content (fl_append f) (s_content (strm f)) (realpos f) data.
Proof. exact write_all_lands. Qed.
Print Assumptions C27_write_all_lands.

(* open() succeeds remotely exactly when it succeeds locally: every mode, missing or existing file *)
Theorem C27_open_agrees :
  forall (m : fmode) (bufsz : Z) (file : option (list Z)),
    sf_open m bufsz file = None <-> ref_open m file = None.
Proof. exact open_agrees. Qed.
Print Assumptions C27_open_agrees.

(* the server handle (after the repair of the append-mode __tell cache) serves exactly the bytes
   at the requested offset, whatever requests came before: it is a prefix reader *)
Theorem C27_server_read_exact :
  forall (c : list Z) (s : srv) (rp n : Z) (d : list Z) (s' : srv),
    sInv c s rp -> 0 < n -> s_read s rp n = (d, s') ->
    sRem s rp = d ++ sRem s' (rp + zlen d) /\ zlen d <= n /\ (d = [] -> sRem s rp = []) /\
    sInv c s' (rp + zlen d).
Proof. exact s_read_spec. Qed.
Print Assumptions C27_server_read_exact.

(* a refused seek (negative target via SEEK_SET / SEEK_CUR / SEEK_END) leaves read-ahead buffer,
   positions and server handle untouched (C27_refines_partial already covers refused seeks anywhere in
   a disciplined program, e.g. after a buffered readline) *)
Theorem C27_refused_seek_keeps_state :
  forall (fuel : nat) (f : sfile) (off whence : Z),
    wbuf f = [] ->
    (if whence =? 0 then off else if whence =? 1 then pos f + off
     else zlen (s_content (strm f)) + off) < 0 ->
    exists f', sf_seek fuel f off whence = (FExn, f') /\
      rbuf f' = rbuf f /\ wbuf f' = [] /\ pos f' = pos f /\ realpos f' = realpos f /\ strm f' = strm f.
Proof. exact refused_seek_keeps_state. Qed.
Print Assumptions C27_refused_seek_keeps_state.

(* the model's MAX_REQUEST_SIZE and its table of modes -- wire flags put out by the real
   SFTPClient.open, their translation by the real _convert_pflags (access mode, O_APPEND, O_CREAT,
   O_TRUNC, O_EXCL) and the FLAG_* bits of the SFTPFile returned -- are those of the source
   (regenerated on every run by gen/c27.py), for the 8 mode strings r, r+, w, w+, a, a+, wx, x *)
Theorem C27_source_tables :
  MAX_REQUEST_SIZE = G_MAX_REQUEST_SIZE /\
  forallb open_row_ok G_open_table = true /\ map fst G_open_table = [0; 1; 2; 3; 4; 5; 6; 7].
Proof. exact source_tables. Qed.
Print Assumptions C27_source_tables.

(* ---- divergences of the code as it is (known findings), each a concrete witness ---- *)
Theorem C27_read_with_pending_write_refuted :
  diverges Mrp 8 [10;10;121;10;121] [FWrite [97;10;97;97]; FReadline None].
Proof. exact refuted_read_pending. Qed.
Print Assumptions C27_read_with_pending_write_refuted.

Theorem C27_tell_with_pending_write_refuted : diverges Mw 65536 [] [FWrite [97;98;99]; FTell].
Proof. exact refuted_tell_pending. Qed.
Print Assumptions C27_tell_with_pending_write_refuted.

Theorem C27_write_after_readline_refuted :
  diverges Mrp 0 [97;10;98;10;99] [FReadline None; FWrite [88]].
Proof. exact refuted_write_after_readline. Qed.
Print Assumptions C27_write_after_readline_refuted.

Theorem C27_truncate_with_pending_write_refuted : diverges Mw 64 [] [FWrite [97;98]; FTruncate 0].
Proof. exact refuted_truncate_pending. Qed.
Print Assumptions C27_truncate_with_pending_write_refuted.

Theorem C27_truncate_read_only_refuted : diverges Mr 0 [97;98;99] [FTruncate 1].
Proof. exact refuted_truncate_readonly. Qed.
Print Assumptions C27_truncate_read_only_refuted.

Theorem C27_stale_after_truncate_refuted :
  diverges Ma 0 [] [FWrite [97;98]; FTruncate 0; FWrite [99]; FTell].
Proof. exact refuted_stale_after_truncate. Qed.
Print Assumptions C27_stale_after_truncate_refuted.

Theorem C27_bare_x_refuted :
  exists f0 r0, sf_open Mxbare 0 None = Some f0 /\ ref_open Mxbare None = Some r0 /\
    fst (sf_run 100 f0 [FWrite [97]]) <> fst (ref_run r0 [FWrite [97]]).
Proof. exact refuted_bare_x. Qed.
Print Assumptions C27_bare_x_refuted.

(* non-vacuity of C27_refines_read_fragment: an "a+" file with bufsize 3, mixed reads and seeks incl.
   a rejected negative seek, meets the hypotheses; the results are the reference's *)
Example C27_example :
  let file := Some [97;98;10;99;100;10;101] in
  let ops := [FTell; FSeek 0 0; FReadline None; FRead (Some 2); FSeek (-9) 1; FSeek (-3) 2; FRead None; FTell] in
  exists f0 r0, sf_open Map 3 file = Some f0 /\ ref_open Map file = Some r0 /\
    m_read Map = true /\ forallb read_only_op ops = true /\
    fst (sf_run 20 f0 ops) =
      [FInt 7; FNone; FBytes [97;98;10]; FBytes [99;100]; FExn; FNone; FBytes [100;10;101]; FInt 7].
Proof. eexists _, _. repeat split. Qed.

(* (the disciplined fragment is contained in the theorem above) a block-buffered (bufsize 4) "r+" program mixing reads,
   seeks, buffered writes crossing the buffer size, flush and a final truncate is guarded *)
Example C27_example_disciplined :
  let file := Some [97;98;10;99;100;10;101] in
  let ops := [FReadline None; FSeek 0 1; FWrite [120;121]; FWrite [122;10;119]; FFlush; FTell;
              FSeek 1 0; FRead (Some 3); FSeek (-2) 2; FWrite [113]; FSeek 0 1; FTruncate 9] in
  exists f0 r0, sf_open Mrp 4 file = Some f0 /\ ref_open Mrp file = Some r0 /\
    guarded 40 f0 ops = true /\
    final_content 40 (snd (sf_run 40 f0 ops)) = [97;98;10;120;121;122;113;119;0].
Proof. eexists _, _. repeat split. Qed.

(* non-vacuity of C27_refines_outside_findings: a long mixed program on a line-buffered "a+" file --
   readlines, sized and unsized readline, reads, appending writes with and without newline, seeks
   through the three whences incl. a refused one, flush, tell, and a final truncate -- shows no
   finding shape, has enough fuel, and ends with the stated contents *)
Example C27_example_outside_findings :
  let file := Some [97;98;10;99;100;10;101] in
  let ops := [FTell; FSeek 0 0; FReadline (Some 2); FReadline None; FSeek 0 1; FWrite [120;10;121];
              FSeek (-4) 2; FReadlines; FTell; FSeek (-50) 1; FRead (Some 3); FSeek 1 0; FWrite [122];
              FFlush; FTell; FSeek 3 0; FRead None; FSeek 0 1; FWrite [10]; FSeek 0 2; FTell;
              FTruncate 11] in
  exists f0 r0, sf_open Map 1 file = Some f0 /\ ref_open Map file = Some r0 /\
    no_finding_shape Map 60 f0 ops = true /\ fuel_suffices 60 f0 ops = true /\
    final_content 60 (snd (sf_run 60 f0 ops)) = [97;98;10;99;100;10;101;120;10;121;122].
Proof. eexists _, _. repeat split. Qed.
