(* C29 - SFTP bulk transfers are exact or fail loudly.  Definitions only.

   The upload path of paramiko/sftp_client.py (putfo / put, _transfer_with_callback) over the write
   path of paramiko/file.py (BufferedFile.write / flush / close / _write_all) and
   paramiko/sftp_file.py (SFTPFile._write / _close), on top of the request / reply bookkeeping of
   Model/C30.v (request, write_op - the code as repaired there).  The remote file is a byte list to
   which the server applies every write it answers with SFTP_OK (and no other). *)
From PV Require Import Bytes C30_gen C30.
Open Scope Z_scope.

Definition zlen (l : list Z) : Z := Z.of_nat (length l).

(* the server stores `data` at offset `off` (sparse: a gap is zero filled) *)
Definition apply_write (file : list Z) (off : Z) (data : list Z) : list Z :=
  let o := Z.to_nat off in
  firstn o (file ++ repeat 0 (o - length file)) ++ data ++ skipn (o + length data) file.

Section Put.
  (* SFTPFile.MAX_REQUEST_SIZE (Gen: 32768).  putfo opens the remote file with self.file(path, "wb"):
     bufsize = -1, which BufferedFile._set_mode turns into 0 = UNBUFFERED (gen/c30.py checks both), so
     every write() goes straight to _write_all and the write buffer stays empty. *)
  Variable (mrs : Z).

  (* f (C30: pipelined, _reqs, _closed), client, _realpos, _wbuffer, the remote file, and the
     environment's answer to each successive _write: (recv_ready(), status code) *)
  Record pst := mkP { p_f : fst_; p_c : cst; p_pos : Z; p_wbuf : list Z; p_file : list Z;
                      p_env : list (bool * Z) }.

  Definition next_env (env : list (bool * Z)) : (bool * Z) * list (bool * Z) :=
    match env with [] => ((false, g_SFTP_OK), []) | x :: r => (x, r) end.

  (* one SFTPFile._write(data): request for at most MAX_REQUEST_SIZE bytes at _realpos *)
  Definition fwrite1 (s : pst) (data : list Z) : ores * Z * pst :=
    let chunk := firstn (Z.to_nat (Z.min (zlen data) mrs)) data in
    let '((ready, code), env') := next_env (p_env s) in
    let file' := if code =? g_SFTP_OK then apply_write (p_file s) (p_pos s) chunk else p_file s in
    let '(r, f', c') := write_op true ready (g_CMD_STATUS, code) (p_f s) (p_c s) in
    (r, zlen chunk, mkP f' c' (p_pos s) (p_wbuf s) file' env').

  (* BufferedFile._write_all: while len(data) > 0: count = _write(data); data = data[count:]; _realpos += count *)
  Fixpoint write_all (fuel : nat) (s : pst) (data : list Z) : ores * pst :=
    match data with
    | [] => (ORet, s)
    | _ =>
        match fuel with
        | O => (ORaise OutOfFuel, s)
        | S k =>
            let '(r, n, s1) := fwrite1 s data in
            match r with
            | ORet => write_all k (mkP (p_f s1) (p_c s1) (p_pos s1 + n) (p_wbuf s1) (p_file s1) (p_env s1))
                                (skipn (Z.to_nat n) data)
            | _ => (r, s1)
            end
        end
    end.

  (* flush: _write_all(wbuffer); wbuffer = BytesIO() *)
  Definition flush (s : pst) : ores * pst :=
    let '(r, s1) := write_all (length (p_wbuf s)) s (p_wbuf s) in
    match r with
    | ORet => (ORet, mkP (p_f s1) (p_c s1) (p_pos s1) [] (p_file s1) (p_env s1))
    | _ => (r, s1)
    end.

  (* BufferedFile.write on an unbuffered file: _write_all(data) *)
  Definition bwrite (s : pst) (data : list Z) : ores * pst :=
    if f_closed (p_f s) then (ORaise IOErr, s) else write_all (length data) s data.

  (* _transfer_with_callback: chunks = the non-empty results of reader.read(32768); then b"" *)
  Fixpoint transfer (s : pst) (chunks : list (list Z)) (size : Z) : ores * Z * pst :=
    match chunks with
    | [] => let '(r, s1) := bwrite s [] in (r, size, s1)
    | ch :: rest =>
        let '(r, s1) := bwrite s ch in
        match r with
        | ORet => transfer s1 rest (size + zlen ch)
        | _ => (r, size, s1)
        end
    end.

  (* SFTPFile._close: (_finish_responses: no-op) BufferedFile.close = flush, _closed = True;
     _request(CMD_CLOSE) with EOFError / IOError swallowed *)
  Definition pclose (s : pst) (close_rp : reply) : ores * pst :=
    if f_closed (p_f s) then (ORet, s) else
    let '(r, s1) := flush s in
    match r with
    | ORet =>
        let f2 := mkF (f_pipe (p_f s1)) (f_reqs (p_f s1)) true in
        let '(r2, _, _, c2) := request (p_c s1) close_rp in
        let s2 := mkP f2 c2 (p_pos s1) (p_wbuf s1) (p_file s1) (p_env s1) in
        match r2 with
        | ORaise EOFErr | ORaise IOErr => (ORet, s2)
        | _ => (r2, s2)
        end
    | _ => (r, s1)
    end.

  (* putfo(fl, remotepath, confirm): open "wb" (truncates), set_pipelined(True), transfer, close on
     leaving the with block (also after an exception), optional stat + size comparison.
     stat_rp = None: the server reports the true size; Some rp: it answers rp (a STATUS error, or
     ATTRS carrying the size rp claims).  Result: outcome and the remote file. *)
  Definition putfo (chunks : list (list Z)) (confirm : bool) (env : list (bool * Z))
             (open_rp close_rp : reply) (stat_rp : option reply) : ores * list Z :=
    let '(r0, t0, _, c1) := request c_init open_rp in
    match r0 with
    | ORet =>
        if negb (t0 =? g_CMD_HANDLE) then (ORaise SFTPErr, []) else
        let s0 := mkP (mkF true [] false) c1 0 [] [] env in
        let '(r1, size, s1) := transfer s0 chunks 0 in
        let '(r2, s2) := pclose s1 close_rp in
        match r1, r2 with
        | OBlocked, _ => (OBlocked, p_file s1)
        | _, OBlocked => (OBlocked, p_file s2)
        | ORaise e, _ => (ORaise e, p_file s2)
        | ORet, ORaise e => (ORaise e, p_file s2)
        | ORet, ORet =>
            if confirm then
              let rp := match stat_rp with Some rp => rp | None => (g_CMD_ATTRS, zlen (p_file s2)) end in
              let '(r3, t3, sz, _) := request (p_c s2) rp in
              match r3 with
              | ORet =>
                  if negb (t3 =? g_CMD_ATTRS) then (ORaise SFTPErr, p_file s2)
                  else if sz =? size then (ORet, p_file s2) else (ORaise IOErr, p_file s2)
              | r => (r, p_file s2)
              end
            else (ORet, p_file s2)
        end
    | r => (r, [])
    end.
End Put.

Definition accepted (env : list (bool * Z)) : Prop := Forall (fun p => snd p = g_SFTP_OK) env.

(* ---- correspondence entry point ---- *)
Definition opt_reply (l : list Z) : option reply :=
  match l with [t; k] => Some (t, k) | _ => None end.
(* input: ((mrs, confirm), chunks, env, (open_t, open_k, close_t, close_k), stat) *)
Definition run_putfo (x : (Z * bool) * list (list Z) * list (bool * Z) * (Z * Z * Z * Z) * list Z) : list Z :=
  let '(cfg, chunks, env, rps, st) := x in
  let '(m, confirm) := cfg in
  let '(ot, ok, ct, ck) := rps in
  let '(r, dest) := putfo m chunks confirm env (ot, ok) (ct, ck) (opt_reply st) in
  (match r with ORet => 0 | ORaise _ => 1 | OBlocked => 98 end) :: zlen dest :: dest.
