(* C36 — keys survive serialisation; new key files are private to the owner; equality and hashing depend
   only on the public key material.  Statements only.  PARTIAL by nature: the private-key round trip through
   the file (PEM encryption, passphrases) is entirely the cryptography library's and is tested, not proved;
   library validations and UTF-8 decoding are universally quantified oracles. *)
From PV Require Import Bytes C39 C35 C36 C36_proofs.
Open Scope Z_scope.

(* asbytes() parsed by the same class's data= / msg= constructor gives back exactly the public material
   (no certificate), for every key the library accepts; hence asbytes, and so every fingerprint (a hash of
   asbytes), are equal too *)
Theorem C36_pub_roundtrip :
  forall utf8_ok rsa_numbers_ok on_curve,
    (forall s, ascii s = true -> utf8_ok s = true) ->
    forall p bs,
      pub_wf rsa_numbers_ok on_curve p -> asbytes p = Ok bs ->
      from_blob utf8_ok rsa_numbers_ok on_curve (cls_of p) bs = Ok (p, false).
Proof. exact pub_roundtrip. Qed.
Print Assumptions C36_pub_roundtrip.

(* __eq__ holds exactly when the public material is equal (so never across classes or curves); equal public
   material gives equal __hash__ for every hash function; and neither depends on the private half, the
   certificate (public_blob) or a comment *)
Theorem C36_eq_hash_public_only :
  forall k1 k2,
    curve_ok (k_pub k1) -> curve_ok (k_pub k2) ->
    (key_eq k1 k2 = true <-> k_pub k1 = k_pub k2) /\
    (k_pub k1 = k_pub k2 -> forall h, key_hash h k1 = key_hash h k2) /\
    (forall priv cert comment,
        key_eq (mk_key (k_pub k1) priv cert comment) k2 = key_eq k1 k2 /\
        forall h, key_hash h (mk_key (k_pub k1) priv cert comment) = key_hash h k1).
Proof. exact eq_hash_public_only. Qed.
Print Assumptions C36_eq_hash_public_only.

(* a key file that did not exist is created with mode 0600 & ~umask: never any group / other bit, never a
   bit outside 0600, for EVERY umask; exactly 0600 whenever the umask leaves the owner's rw bits alone *)
Theorem C36_new_file_0600 :
  forall fs umask path content,
    fs_get fs path = None ->
    exists m, fs_get (write_private_key_file fs umask path content) path = Some (m, content) /\
              m = Z.land o600 (Z.lnot umask) /\
              Z.land m 63 = 0 /\ Z.land m (Z.lnot o600) = 0 /\
              (Z.land umask o600 = 0 -> m = o600).
Proof. exact new_file_0600. Qed.
Print Assumptions C36_new_file_0600.

(* a PRE-EXISTING target keeps its permission bits whatever they were (a 0644 file stays 0644 and now holds
   the private key): os.open's mode argument only applies on creation.  This does not contradict "a newly
   created key file is readable and writable only by its owner" - the file is not newly created - but the
   key is then as exposed as the old file was; no other file is touched *)
Theorem C36_existing_file_mode :
  forall fs umask path content m old,
    fs_get fs path = Some (m, old) ->
    fs_get (write_private_key_file fs umask path content) path = Some (m, content) /\
    forall q, q <> path -> fs_get (write_private_key_file fs umask path content) q = fs_get fs q.
Proof. exact existing_file_mode_full. Qed.
Print Assumptions C36_existing_file_mode.

(* non-vacuity and the concrete 0644 case *)
Example C36_example :
  fs_get (write_private_key_file [(1, (420, [1; 2]))] 18 1 [9]) 1 = Some (420, [9]) /\       (* 0644 stays 0644 *)
  fs_get (write_private_key_file [] 18 1 [9]) 1 = Some (384, [9]) /\                          (* umask 022: 0600 *)
  fs_get (write_private_key_file [] 0 1 [9]) 1 = Some (384, [9]) /\                           (* umask 000: 0600 *)
  fs_get (write_private_key_file [] 191 1 [9]) 1 = Some (256, [9]) /\                         (* umask 0277: 0400 *)
  exists bs, asbytes (PEc 0 5 7) = Ok bs /\
             from_blob (fun _ => true) (fun _ _ => true) (fun _ _ _ => true) 1 bs = Ok (PEc 0 5 7, false).
Proof. do 4 (split; [vm_compute; reflexivity|]). eexists. split; [vm_compute; reflexivity|]. vm_compute. reflexivity. Qed.
