#!/bin/bash
# Build the Coq development from clean, from files on disk only (offline).
set -e
cd "$(dirname "$0")"
export PYTHONHASHSEED=0
/venv/bin/python - <<'PY'
import sys, os
sys.path.insert(0, "harness")
import common
common.setup_paths()
with common.Lock(os.path.join(common.COQ, ".lock")):
    res = common.run_gens(common.all_gen_names())
    for g, e in res.items():
        if e:
            print("translator", g, "failed:\n", e); sys.exit(1)
    common.ensure_makefile()
PY
cd coq
timeout 3400 make -j16 2>&1 | tail -40
test "${PIPESTATUS[0]}" = 0
echo "setup ok"
