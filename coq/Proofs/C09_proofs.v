From PV Require Import Bytes C09.
Open Scope Z_scope.
Lemma c09_stub : True. Proof. exact I. Qed.
