(* C30 - every SFTP request completes with exactly one well-formed response; a client whose server
   answers every request never blocks forever.  Property statements only. *)
From PV Require Import Bytes C30_gen C30 C30_proofs.
Open Scope Z_scope.

(* SERVER.  For every server state, every request (any packet type 0..255 and beyond, any id, any
   handle, any extended name, any callback result including exceptions and non-sense objects,
   undecodable text), one loop iteration of start_subsystem sends exactly one packet, carrying the
   request's id, of a type valid for the request type.  check-file included: every exit path of
   _check_file (invalid handle, no algorithm, stat failure, small block, a read that fails at any
   position, end of file, range done) is modelled, for every script of handle.read results. *)
Theorem C30_server_once :
  forall (s : sst) (q : req),
    exists r, snd (serve s q) = [r] /\ r_id r = q_id q /\ valid_for (q_t q) (r_type r) = true.
Proof. exact server_once. Qed.
Print Assumptions C30_server_once.

(* the server never stops answering: over any request stream, the i-th batch of packets is one
   packet with the i-th request's id *)
Theorem C30_server_stream :
  forall (qs : list req) (s : sst),
    length (serve_all s qs) = length qs /\
    map (fun l => map r_id l) (serve_all s qs) = map (fun q => [q_id q]) qs.
Proof. exact server_stream_ids. Qed.
Print Assumptions C30_server_stream.

(* failures are STATUS packets: a handle that is in neither table, for every request type that names one *)
Theorem C30_invalid_handle_status :
  forall s q, handle_kind (kind_of (q_t q)) = true ->
    memz (q_h q) (s_files s) = false -> lookup (q_h q) (s_folders s) = None ->
    serve s q = (s, [status (q_id q) g_SFTP_BAD_MESSAGE]).
Proof. exact invalid_handle_status. Qed.
Print Assumptions C30_invalid_handle_status.

(* ... packet types outside CMD_NAMES (the KeyError fall-back), named but unhandled types, and
   unknown extended requests *)
Theorem C30_unsupported_status :
  forall s q,
    (memz (q_t q) g_cmd_names = false -> serve s q = (s, [status (q_id q) g_SFTP_FAILURE])) /\
    (kind_of (q_t q) = KUnhandled -> serve s q = (s, [status (q_id q) g_SFTP_OP_UNSUPPORTED])) /\
    (kind_of (q_t q) = KExtended -> q_text_ok q = true -> q_tag q <> 0 -> q_tag q <> 1 ->
       serve s q = (s, [status (q_id q) g_SFTP_OP_UNSUPPORTED])).
Proof.
  intros s q. split; [intros H; apply unnamed_status, kind_unnamed, H|].
  split; [apply unhandled_status | apply unknown_extended_status].
Qed.
Print Assumptions C30_unsupported_status.

(* ... and the error code a callback returns is the code the client is told *)
Theorem C30_callback_code_forwarded :
  forall s q k,
    In (kind_of (q_t q)) [KRemove; KRename; KMkdir; KRmdir; KSetstat; KSymlink; KStat; KLstat; KReadlink; KOpen; KOpendir] ->
    q_text_ok q = true -> q_cb q = CbCode k -> 0 <= k < 4294967296 ->
    serve s q = (s, [status (q_id q) k]).
Proof. exact callback_code_forwarded. Qed.
Print Assumptions C30_callback_code_forwarded.

(* CLIENT.  Whatever the application does on a session with an open file - pipelined or plain writes
   (recv_ready() true or false), synchronous requests, set_pipelined, close with buffered chunks - and
   whatever the server's replies contain, no call waits for a packet once the server has replied to
   every request made (run = the code as repaired: the drain loop of SFTPFile._write skips requests
   whose reply was already consumed). *)
Theorem C30_client_terminates :
  forall prog : list op, ~ In OBlocked (run true prog f_init c_init).
Proof. exact client_terminates. Qed.
Print Assumptions C30_client_terminates.

(* so every operation of the program completes (returns or raises) *)
Theorem C30_client_completes :
  forall prog : list op, length (run true prog f_init c_init) = length prog.
Proof. intros prog. apply run_length, client_terminates. Qed.
Print Assumptions C30_client_completes.

(* waiting for an expected request whose reply is unread always ends; it is only ever done then *)
Theorem C30_read_response_ends :
  forall w inp exp r i e,
    In w exp -> In w (map p_num inp) -> read_response (Some w) inp exp = (r, i, e) -> r <> RBlocked.
Proof. exact rr_found. Qed.
Print Assumptions C30_read_response_ends.

(* the drain loop as it was before the repair: 60 pipelined writes, a stat, 41 more writes - the
   drain waits for the reply to the first write, which the stat has consumed: blocked forever.
   The repaired loop returns from all 103 operations. *)
Theorem C30_client_terminates_v0_refuted :
  In OBlocked (run false hang_prog f_init c_init) /\ run true hang_prog f_init c_init = repeat ORet 103.
Proof. split; [exact v0_blocks | exact v1_hang_prog_returns]. Qed.
Print Assumptions C30_client_terminates_v0_refuted.

(* check-file: exactly one packet on every exit path, for every read script *)
Theorem C30_check_file_once :
  forall s id h a,
    check_file s id h a = Exc [] \/
    exists rt d, check_file s id h a = Done [(rt, id, d)] /\ (rt = g_CMD_STATUS \/ rt = g_CMD_EXTENDED_REPLY).
Proof. exact check_file_shape. Qed.
Print Assumptions C30_check_file_once.

(* a request stream that reaches handles, failures, and a check-file whose third read fails *)
Definition C30_example_reqs : list req :=
  [mkReq 3 7 true (-1) 2 CbHandle cf_none; mkReq 10 8 true 5 2 (CbCode 0) cf_none;
   mkReq 99 9 true 1 2 CbOther cf_none;
   mkReq 200 10 true 1 0 CbOther (mkCf true true 0 1024 256 CbOther 0 [RdBytes 256; RdBytes 256; RdCode 3; RdBytes 256]);
   mkReq 200 11 true 1 0 CbOther (mkCf true true 0 0 0 CbAttr 600 [RdBytes 600; RdBytes 0])].
Example C30_example :
  run_server C30_example_reqs =
    [1; 102; 7; 1; 1; 101; 8; 5; 1; 101; 9; 4; 1; 101; 10; 3; 1; 201; 11; 0].
Proof. vm_compute; reflexivity. Qed.
