(* C24 -- proofs.  v1: the invariant inv_b is preserved by every atomic action (checked by
   evaluation over the finite state space, lifted to all states because inv_b pins the byte
   counter to the _set flag), hence holds in every reachable state; at quiescent states it
   gives readable = wanted.  v0: refutation witnesses by evaluation. *)
From PV Require Import Bytes C24 C24_gen.
Open Scope Z_scope.

Lemma fb_ok (P : bool -> bool) : fb P = true -> forall b, P b = true.
Proof. unfold fb. intros H b. apply andb_true_iff in H as [H1 H2]. destruct b; assumption. Qed.

Lemma all_fl_ok (P : option (pop * bool) -> bool) : all_fl P = true -> forall x, P x = true.
Proof.
  unfold all_fl. intros H x.
  apply andb_true_iff in H as [H H3]. apply andb_true_iff in H as [H1 H2].
  destruct x as [[[|] o]|]; [apply (fb_ok _ H2)|apply (fb_ok _ H3)|exact H1].
Qed.

Lemma all_cp_ok (P : cpc -> bool) : all_cp P = true -> forall x, P x = true.
Proof.
  unfold all_cp. intros H x. repeat (apply andb_true_iff in H as [H ?]). destruct x; assumption.
Qed.

Local Opaque fb.
Lemma all_label_ok (P : label -> bool) : all_label P = true -> forall l, P l = true.
Proof.
  unfold all_label. intros H l.
  repeat (apply andb_true_iff in H as [H ?]).
  destruct l as [i e|i|i| | | | |]; try assumption.
  - match goal with h : fb (fun i => fb (fun e => P (Feed i e))) = true |- _ => exact (fb_ok _ (fb_ok _ h i) e) end.
  - match goal with h : fb (fun i => P (ReadAll i)) = true |- _ => exact (fb_ok _ h i) end.
  - match goal with h : fb (fun i => P (Empty i)) = true |- _ => exact (fb_ok _ h i) end.
Qed.
Local Transparent fb.

Lemma all_states_ok (P : st -> bool) :
  all_states P = true -> forall a b c d e f g h k x y, P (canon a b c d e f g h k x y) = true.
Proof.
  unfold all_states. intros H a b c d e f g h k x y.
  pose proof (fb_ok _ H a) as H1; cbv beta in H1.
  pose proof (fb_ok _ H1 b) as H2; cbv beta in H2.
  pose proof (fb_ok _ H2 c) as H3; cbv beta in H3.
  pose proof (fb_ok _ H3 d) as H4; cbv beta in H4.
  pose proof (fb_ok _ H4 e) as H5; cbv beta in H5.
  pose proof (fb_ok _ H5 f) as H6; cbv beta in H6.
  pose proof (fb_ok _ H6 g) as H7; cbv beta in H7.
  pose proof (fb_ok _ H7 h) as H8; cbv beta in H8.
  pose proof (fb_ok _ H8 k) as H9; cbv beta in H9.
  pose proof (all_fl_ok _ H9 x) as H10; cbv beta in H10.
  exact (all_cp_ok _ H10 y).
Qed.

(* a state satisfying the invariant is one of the enumerated canonical states *)
Lemma inv_canon s : inv_b s = true ->
  s = canon (s1 s) (s2 s) (ps s) (fv s) (ne1 s) (cl1 s) (ne2 s) (cl2 s) (ch s) (fl s) (cp s).
Proof.
  destruct s as [a b c d m e f g h k x y]. unfold inv_b, canon; cbn [n ps s1 s2 fv ne1 cl1 ne2 cl2 ch fl cp].
  intros H. repeat (apply andb_true_iff in H as [H ?]).
  apply Nat.eqb_eq in H. subst m. reflexivity.
Qed.

Lemma check_step : all_states (fun s => all_label (fun l => step_keeps_inv s l)) = true.
Proof. vm_compute. reflexivity. Qed.

Lemma check_quiescent : all_states quiescent_ok = true.
Proof. vm_compute. reflexivity. Qed.

Lemma check_progress : all_states can_move = true.
Proof. vm_compute. reflexivity. Qed.

Lemma inv_step s l s' : inv_b s = true -> step s l = Some s' -> inv_b s' = true.
Proof.
  intros HI HS. pose proof (inv_canon s HI) as E.
  pose proof (all_states_ok _ check_step (s1 s) (s2 s) (ps s) (fv s) (ne1 s) (cl1 s) (ne2 s) (cl2 s)
                (ch s) (fl s) (cp s)) as H.
  cbv beta in H. rewrite <- E in H. pose proof (all_label_ok _ H l) as H1. cbv beta in H1.
  unfold step_keeps_inv in H1. rewrite HI, HS in H1. exact H1.
Qed.

Lemma inv_reachable s0 s : inv_b s0 = true -> reachable s0 s -> inv_b s = true.
Proof. intros H0 R. induction R as [|s l s' R IH HS]; [assumption|]. exact (inv_step s l s' IH HS). Qed.

Lemma inv_quiescent s : inv_b s = true -> quiescent s = true -> readable s = wanted s.
Proof.
  intros HI HQ. pose proof (inv_canon s HI) as E.
  pose proof (all_states_ok _ check_quiescent (s1 s) (s2 s) (ps s) (fv s) (ne1 s) (cl1 s) (ne2 s) (cl2 s)
                (ch s) (fl s) (cp s)) as H.
  rewrite <- E in H. unfold quiescent_ok in H. rewrite HI, HQ in H. cbn in H. apply eqb_prop in H. exact H.
Qed.

Lemma fileno_inv d1 d2 c : inv_b (fileno_state d1 d2 c) = true.
Proof. destruct d1, d2, c; reflexivity. Qed.

Lemma fileno_quiescent d1 d2 c : quiescent (fileno_state d1 d2 c) = true.
Proof. reflexivity. Qed.

(* main statement: from the state fileno() leaves (any buffer contents, EOF/closed or not),
   after any interleaving of any number of atomic actions, at every quiescent state the
   descriptor is readable iff stdout is non-empty or stderr is non-empty or EOF/closed *)
Lemma quiescent_iff d1 d2 c s :
  reachable (fileno_state d1 d2 c) s -> quiescent s = true ->
  (readable s = true <-> ne1 s = true \/ ne2 s = true \/ ch s = true).
Proof.
  intros R Q. pose proof (inv_quiescent s (inv_reachable _ _ (fileno_inv d1 d2 c) R) Q) as E.
  rewrite E. unfold wanted. rewrite !orb_true_iff. tauto.
Qed.

(* the same from any state satisfying the invariant *)
Lemma quiescent_iff_inv s0 s :
  inv_b s0 = true -> reachable s0 s -> quiescent s = true ->
  (readable s = true <-> ne1 s = true \/ ne2 s = true \/ ch s = true).
Proof.
  intros I R Q. pose proof (inv_quiescent s (inv_reachable _ _ I R) Q) as E.
  rewrite E. unfold wanted. rewrite !orb_true_iff. tauto.
Qed.

(* no reachable deadlock: whenever a call is in progress some action is enabled; in particular
   the os.read inside PosixPipe.clear never blocks *)
Lemma progress d1 d2 c s :
  reachable (fileno_state d1 d2 c) s -> quiescent s = false -> exists l s', step s l = Some s'.
Proof.
  intros R Q. pose proof (inv_reachable _ _ (fileno_inv d1 d2 c) R) as HI.
  pose proof (inv_canon s HI) as E.
  pose proof (all_states_ok _ check_progress (s1 s) (s2 s) (ps s) (fv s) (ne1 s) (cl1 s) (ne2 s) (cl2 s)
                (ch s) (fl s) (cp s)) as H.
  rewrite <- E in H. unfold can_move in H. rewrite HI, Q in H.
  destruct (step s Finish) eqn:E1; [eauto|].
  destruct (step s ChanFinish) eqn:E2; [eauto|].
  destruct (step s ChanClose) eqn:E3; [eauto|].
  destruct (step s ChanForever) eqn:E4; [eauto|discriminate H].
Qed.

Lemma clear_never_blocks d1 d2 c s o :
  reachable (fileno_state d1 d2 c) s -> fl s = Some (PClear, o) -> pipe_clear s <> None.
Proof.
  intros R F. pose proof (inv_reachable _ _ (fileno_inv d1 d2 c) R) as HI.
  unfold inv_b in HI. repeat (apply andb_true_iff in HI as [HI ?]). apply Nat.eqb_eq in HI.
  unfold pipe_clear. destruct (negb (ps s) || fv s) eqn:G; [discriminate|].
  apply orb_false_iff in G as [G _]. apply negb_false_iff in G. rewrite G in HI. rewrite HI. discriminate.
Qed.

(* run_labels only produces reachable states (links the executable runs to the relation) *)
Lemma run_labels_reachable s0 ls : forall s s', reachable s0 s -> run_labels s ls = Some s' -> reachable s0 s'.
Proof.
  induction ls as [|l r IH]; intros s s' R H; cbn in H.
  - injection H as <-. exact R.
  - destruct (step s l) as [t|] eqn:E; [|discriminate]. exact (IH t s' (r_step s0 s l t R E) H).
Qed.

(* the source has the shape the model assumes (gen_shape is regenerated from the AST on every run) *)
Lemma shape_ok : gen_shape = assumed_shape.
Proof. reflexivity. Qed.

(* ---- v0: the unsynchronised code ---------------------------------------------------------- *)

(* stdout half set while the stderr half is cleared: p2.clear (thread 0) against p1.set
   (thread 1) from the state after p2.set(); all calls complete, stdout is set, descriptor
   not readable *)
Lemma v0_race_set_clear :
  exists s pcs,
    exec0 (start0 false true false) [Start 3; Start 0] [0;0;0;1;1;1;1;1;1;0;0;0;0]%nat = Some (s, pcs) /\
    forallb is_done pcs = true /\ readable0 s = false /\ wanted0 s = true.
Proof. eexists. eexists. vm_compute. repeat split; reflexivity. Qed.

(* p1.clear (thread 0) overlapping set_forever (thread 1): EOF/closed, descriptor not readable *)
Lemma v0_race_clear_forever :
  exists s pcs,
    exec0 (start0 true false false) [Start 1; Start 4] [0;0;0;0;0;1;1;1;1;1;0;0]%nat = Some (s, pcs) /\
    forallb is_done pcs = true /\ readable0 s = false /\ fvr s = true.
Proof. eexists. eexists. vm_compute. repeat split; reflexivity. Qed.

(* two clears: both pass the `_set` test, the second os.read blocks for ever while its caller
   holds the stderr buffer's lock *)
Lemma v0_double_clear_blocks :
  exists s pcs p,
    exec0 (start0 true true false) [Start 1; Start 3] [0;0;1;1;0;0;0;1;1;1;0;0]%nat = Some (s, pcs) /\
    nth_error pcs 1%nat = Some p /\ stuck0 s p = true /\ nth_error pcs 0%nat = Some Done.
Proof. eexists. eexists. eexists. vm_compute. repeat split; reflexivity. Qed.

Lemma v0_refuted :
  ~ (forall a b f calls sched s pcs,
       exec0 (start0 a b f) (map Start calls) sched = Some (s, pcs) ->
       forallb is_done pcs = true -> readable0 s = wanted0 s).
Proof.
  intros H. destruct v0_race_set_clear as (s & pcs & E & D & R & W).
  specialize (H false true false [3; 0] _ s pcs E D). rewrite R, W in H. discriminate.
Qed.

(* single-threaded use of the unrepaired code is correct: each call run alone from a
   consistent state ends in a consistent state *)
Definition consistent0 (s : st0) : bool :=
  Nat.eqb (nb s) (if pset s then 1 else 0) && implb (fvr s) (pset s)
  && implb (negb (fvr s)) (eqb (pset s) (a1 s || a2 s)).

Fixpoint run_alone (fuel : nat) (s : st0) (p : pc0) : option st0 :=
  match fuel with
  | O => None
  | S k => if is_done p then Some s
           else match step0 s p with Some (s', p') => run_alone k s' p' | None => None end
  end.

Lemma v0_sequential_ok :
  forall a b c d (call : Z),
    let s := mk0 a b c d (if c then 1 else 0)%nat in
    consistent0 s = true ->
    exists s', run_alone 10 s (Start call) = Some s' /\ consistent0 s' = true /\ readable0 s' = wanted0 s'.
Proof.
  intros a b c d call s H.
  assert (C : call = 0 \/ call = 1 \/ call = 2 \/ call = 3 \/
              ((call =? 0) = false /\ (call =? 1) = false /\ (call =? 2) = false /\ (call =? 3) = false)).
  { destruct (call =? 0) eqn:E0; [left; lia|]. destruct (call =? 1) eqn:E1; [right; left; lia|].
    destruct (call =? 2) eqn:E2; [right; right; left; lia|].
    destruct (call =? 3) eqn:E3; [right; right; right; left; lia|]. right; right; right; right. auto. }
  subst s.
  destruct C as [->|[->|[->|[->|(E0 & E1 & E2 & E3)]]]];
    destruct a, b, c, d; try discriminate H;
    try (eexists; vm_compute; repeat split; reflexivity);
    (eexists; cbn [run_alone is_done step0]; rewrite E0, E1, E2, E3; vm_compute; repeat split; reflexivity).
Qed.
