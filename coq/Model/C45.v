(* C45 -- model of paramiko/agent.py: AgentKey.sign_ssh_data, AgentKey.asbytes,
   AgentSSH._send_message / _read_all, over the generated ALGORITHM_FLAG_MAP and message
   numbers (Gen/C45_gen.v) and C39's Message encoders / decoders.  Definitions only. *)
From PV Require Import Bytes C39 C45_gen.
Open Scope Z_scope.

(* ALGORITHM_FLAG_MAP.get(algorithm, 0); algorithm is a str (its UTF-8 bytes here) or None *)
Fixpoint map_get (m : list (list Z * Z)) (k : list Z) (default : Z) : Z :=
  match m with
  | [] => default
  | (k', v) :: r => if zlist_eqb k k' then v else map_get r k default
  end.

Definition sign_flags (algorithm : option (list Z)) : Z :=
  match algorithm with
  | None => 0
  | Some a => map_get flag_map a 0
  end.

(* AgentKey.asbytes: inner_key.asbytes() when an inner key could be derived from the blob the
   agent listed (its value is an input: PKey subclasses are outside this property), else the blob *)
Definition key_asbytes (blob : list Z) (inner : option (list Z)) : list Z :=
  match inner with Some b => b | None => blob end.

(* the Message built by sign_ssh_data *)
Definition sign_request (blob : list Z) (inner : option (list Z)) (data : list Z)
           (algorithm : option (list Z)) : result (list Z) :=
  bind (add_string (key_asbytes blob inner)) (fun a =>
  bind (add_string data) (fun b =>
  bind (pack_u32 (sign_flags algorithm)) (fun c =>
  Ok (c_sign_request ++ a ++ b ++ c)))).

(* _read_all(wanted) over the bytes the agent will still deliver before closing: however recv
   chunks them, fewer than `wanted` bytes in total means "lost ssh-agent" *)
Definition read_all (stream : list Z) (wanted : Z) : result (list Z * list Z) :=
  if Z.of_nat (length stream) <? wanted then Raise SSHExc
  else Ok (firstn (Z.to_nat wanted) stream, skipn (Z.to_nat wanted) stream).

(* what sign_ssh_data does with the reply body: ptype = ord(msg.get_byte()) ... get_binary() *)
Definition parse_reply (body : list Z) : result (list Z) :=
  let '(b, p) := get_bytes body 0 1 in
  if hd 0 b =? sign_response then Ok (fst (get_string body p)) else Raise SSHExc.

(* _send_message: frame and send, then read the length-prefixed reply.
   Returns the bytes written to the connection and the outcome. *)
Definition sign_ssh_data (blob : list Z) (inner : option (list Z)) (data : list Z)
           (algorithm : option (list Z)) (stream : list Z) : list Z * result (list Z) :=
  match sign_request blob inner data algorithm with
  | Raise e => ([], Raise e)
  | Ok msg =>
      match pack_u32 (Z.of_nat (length msg)) with
      | Raise e => ([], Raise e)
      | Ok h =>
          let sent := h ++ msg in
          (sent,
           bind (read_all stream 4) (fun '(d, rest) =>
           bind (read_all rest (be_decode d)) (fun '(body, _) => parse_reply body)))
      end
  end.

(* the frame a well-behaved agent sends for a reply body *)
Definition frame (body : list Z) : list Z := be_encode 4 (Z.of_nat (length body)) ++ body.

(* the four names of the statement *)
Definition n_rsa_sha2_256 : list Z := [114;115;97;45;115;104;97;50;45;50;53;54].
Definition n_rsa_sha2_512 : list Z := [114;115;97;45;115;104;97;50;45;53;49;50].
Definition cert_suffix : list Z :=
  [45;99;101;114;116;45;118;48;49;64;111;112;101;110;115;115;104;46;99;111;109].  (* -cert-v01@openssh.com *)

(* the statement's flag rule, written independently of the generated map *)
Definition spec_flags (algorithm : option (list Z)) : Z :=
  match algorithm with
  | None => 0
  | Some a =>
      if zlist_eqb a n_rsa_sha2_256 || zlist_eqb a (n_rsa_sha2_256 ++ cert_suffix) then 2
      else if zlist_eqb a n_rsa_sha2_512 || zlist_eqb a (n_rsa_sha2_512 ++ cert_suffix) then 4
      else 0
  end.

(* ---- canonical output for the correspondence run -------------------------- *)
Definition canon_res (r : result (list Z)) : list Z :=
  match r with Ok s => 0 :: s | Raise e => [exn_code e] end.

(* (blob, inner, data, algorithm, stream) -> bytes sent, -1, outcome *)
Definition run_sign (c : list Z * option (list Z) * list Z * option (list Z) * list Z) : list Z :=
  let '(blob, inner, data, alg, stream) := c in
  let '(sent, r) := sign_ssh_data blob inner data alg stream in
  sent ++ [-1] ++ canon_res r.

Definition run_flags (alg : option (list Z)) : list Z := [sign_flags alg].
