#!/usr/bin/env python3
"""Round-4 prompt: like seedprompt.py; asks for changes in rarely exercised variants and on repaired code."""
import subprocess, sys
t = subprocess.check_output(["python3", "/verif/tools/seedprompt.py"] + sys.argv[1:], text=True)
t = t.replace("produce TWO different, independent, realistic code changes",
              "produce TWO different, independent, realistic code changes OF THE KINDS DESCRIBED BELOW")
t = t.replace("Prefer changes that need something specific to manifest",
              "This is the fourth round: three earlier rounds took the obvious edits, cooperating-site edits and interleaving edits listed above. "
              "Each change now must be one of: (a) a change that affects only a RARELY EXERCISED VARIANT of the behaviour the property covers "
              "- one particular cipher / MAC / key type / kex family / compression setting, one direction (client vs server, inbound vs outbound), "
              "one API variant (recv_stderr, recv_ready, sendall, send_stderr, makefile, putfo/getfo, readv, prefetch with a size limit, "
              "readline with a size, from_private_key vs from_private_key_file, connect(passphrase=, key_filename=list), "
              "lookup with canonicalisation or Match blocks), one boundary value (exactly the window size, exactly 2**32-1, a zero-length payload, "
              "the last element of a table); (b) a PARTIAL REVERT or weakening of a guard, lock, bound or reset that the code takes care to have "
              "(look at `git log --oneline | head -60` in the worktree: many recent commits start with `fix:` and each added such a guard - "
              "undo one in a way that keeps the rest of that commit, or re-introduce the old behaviour on one branch only); "
              "(c) a STATE LEAK between two uses - a value cached, memoised, or kept on the object / class / module that is right for the first "
              "use and wrong for a later one (second channel, second transport in the process, second file on the same SFTP session, "
              "second authentication attempt, re-key); (d) an ERROR-PATH change - what happens after an exception, a timeout, a refused "
              "request or a close in the middle, where the normal path stays intact. Prefer changes that need something specific to manifest")
print(t)
