(* C28 — proofs over Model/C28.v *)
From Coq Require Import ZArith List Bool Lia ZifyBool.
From PV Require Import Bytes C28 C28_gen.
Import ListNotations.
Open Scope Z_scope.

Definition same_file (s s' : state) : Prop :=
  realpos s' = realpos s /\ pos s' = pos s /\ rbuffer s' = rbuffer s.

Ltac ssplit := unfold same_file in |- *; repeat match goal with |- _ /\ _ => split end.

(* ---- ztake / zdrop / slice ------------------------------------------------------------- *)
Lemma zlen_nonneg {A} (l : list A) : 0 <= zlen l.
Proof. unfold zlen. lia. Qed.

Lemma zlen_app {A} (a b : list A) : zlen (a ++ b) = zlen a + zlen b.
Proof. unfold zlen. rewrite app_length. lia. Qed.

Lemma zlen_nil_iff {A} (l : list A) : zlen l = 0 <-> l = [].
Proof. unfold zlen. destruct l; cbn; split; intros; try reflexivity; try discriminate; lia. Qed.

Lemma ztake_drop {A} n (l : list A) : ztake n l ++ zdrop n l = l.
Proof. unfold ztake, zdrop. apply firstn_skipn. Qed.

Lemma zlen_ztake {A} n (l : list A) : 0 <= n -> zlen (ztake n l) = Z.min n (zlen l).
Proof.
  intros Hn. unfold ztake, zlen. rewrite firstn_length. unfold zlen. lia.
Qed.

Lemma zlen_zdrop {A} n (l : list A) : 0 <= n -> zlen (zdrop n l) = zlen l - Z.min n (zlen l).
Proof.
  intros Hn. unfold zdrop, zlen. rewrite skipn_length. unfold zlen. lia.
Qed.

Lemma ztake_zero {A} (l : list A) : ztake 0 l = [].
Proof. unfold ztake. pose proof (zlen_nonneg l). replace (Z.min 0 (zlen l)) with 0 by lia. reflexivity. Qed.

Lemma ztake_nil {A} n : @ztake A n [] = [].
Proof. unfold ztake. now rewrite firstn_nil. Qed.
Lemma zdrop_nil {A} n : @zdrop A n [] = [].
Proof. unfold zdrop. now rewrite skipn_nil. Qed.

Lemma app_len_inj {A} (a b x y : list A) :
  length a = length b -> a ++ x = b ++ y -> a = b /\ x = y.
Proof.
  revert b. induction a as [|h a IH]; intros [|h' b] Hl He; cbn in *; try discriminate.
  - now split.
  - injection He as -> He. injection Hl as Hl. destruct (IH b Hl He) as [-> ->]. now split.
Qed.

Lemma zdrop_app_exact {A} (pre x : list A) : zdrop (zlen pre) (pre ++ x) = x.
Proof.
  unfold zdrop. rewrite zlen_app. pose proof (zlen_nonneg x).
  replace (Z.min (zlen pre) (zlen pre + zlen x)) with (zlen pre) by lia.
  unfold zlen. rewrite Nat2Z.id. rewrite skipn_app, skipn_all, Nat.sub_diag. reflexivity.
Qed.

Lemma ztake_app_le {A} n (d post : list A) : n <= zlen d -> ztake n (d ++ post) = ztake n d.
Proof.
  intros Hn. unfold ztake. rewrite zlen_app. pose proof (zlen_nonneg post).
  replace (Z.min n (zlen d + zlen post)) with (Z.min n (zlen d)) by lia.
  rewrite firstn_app.
  replace (Z.to_nat (Z.min n (zlen d)) - length d)%nat with 0%nat by (unfold zlen in *; lia).
  cbn. apply app_nil_r.
Qed.

Lemma ztake_all {A} n (d : list A) : zlen d <= n -> ztake n d = d.
Proof.
  intros Hn. unfold ztake. replace (Z.min n (zlen d)) with (zlen d) by lia.
  unfold zlen. rewrite Nat2Z.id. apply firstn_all.
Qed.

(* ---- valid buffers ----------------------------------------------------------------------------- *)
Section WithFile.
Variable file : list Z.

(* d is what the file holds at offset o *)
Definition valid (o : Z) (d : list Z) : Prop :=
  d = [] \/ exists pre post, file = pre ++ d ++ post /\ zlen pre = o.

Definition buf_ok (dd : dict (list Z)) : Prop := Forall (fun kv => valid (fst kv) (snd kv)) dd.

Lemma valid_is_slice o d : valid o d -> d = slice file o (zlen d).
Proof.
  intros [-> | (pre & post & Hf & Hl)].
  - unfold slice. change (zlen (@nil Z)) with 0. now rewrite ztake_zero.
  - unfold slice. subst o. rewrite Hf, zdrop_app_exact.
    rewrite ztake_app_le by lia. symmetry. apply ztake_all. lia.
Qed.

Lemma valid_slice o n : 0 <= o -> o <= zlen file -> valid o (slice file o n).
Proof.
  intros Ho Hf. right. exists (ztake o file), (zdrop n (zdrop o file)). split.
  - unfold slice. rewrite ztake_drop. symmetry. apply ztake_drop.
  - rewrite zlen_ztake by lia. lia.
Qed.

Lemma valid_take o d n : valid o d -> valid o (ztake n d).
Proof.
  intros [-> | (pre & post & Hf & Hl)].
  - left. apply ztake_nil.
  - right. exists pre, (zdrop n d ++ post). split; [|assumption].
    rewrite (app_assoc (ztake n d)). now rewrite ztake_drop.
Qed.

Lemma valid_drop o d n : valid o d -> 0 <= n -> valid (o + Z.min n (zlen d)) (zdrop n d).
Proof.
  intros [-> | (pre & post & Hf & Hl)] Hn.
  - left. apply zdrop_nil.
  - right. exists (pre ++ ztake n d), post. split.
    + rewrite <- app_assoc. rewrite (app_assoc (ztake n d)). now rewrite ztake_drop.
    + rewrite zlen_app, zlen_ztake by lia. lia.
Qed.

Lemma valid_app o a b : valid o a -> valid (o + zlen a) b -> valid o (a ++ b).
Proof.
  intros Ha Hb.
  destruct Ha as [-> | (p1 & q1 & Hf1 & Hl1)].
  { cbn in *. unfold zlen in Hb. cbn in Hb. now rewrite Z.add_0_r in Hb. }
  destruct Hb as [-> | (p2 & q2 & Hf2 & Hl2)].
  { rewrite app_nil_r. right. now exists p1, q1. }
  right. exists p1, q2. split; [|assumption].
  assert (E : (p1 ++ a) ++ q1 = p2 ++ b ++ q2) by (rewrite <- app_assoc; congruence).
  apply app_len_inj in E as [E1 E2].
  - rewrite Hf2, <- E1. now rewrite <- !app_assoc.
  - apply Nat2Z.inj. fold (zlen (p1 ++ a)). fold (zlen p2). rewrite zlen_app. lia.
Qed.

(* ---- dicts ------------------------------------------------------------------------------------- *)
Lemma dget_in {V} (d : dict V) k v : dget d k = Some v -> In (k, v) d.
Proof.
  induction d as [|[k' v'] r IH]; cbn; [discriminate|].
  destruct (k' =? k) eqn:E; intros H.
  - injection H as ->. left. f_equal. lia.
  - right. now apply IH.
Qed.

Lemma buf_ok_get dd k v : buf_ok dd -> dget dd k = Some v -> valid k v.
Proof.
  intros Hb Hg. apply dget_in in Hg. unfold buf_ok in Hb. rewrite Forall_forall in Hb.
  exact (Hb _ Hg).
Qed.

Lemma buf_ok_set dd k v : buf_ok dd -> valid k v -> buf_ok (dset dd k v).
Proof.
  intros Hb Hv. induction dd as [|[k' v'] r IH]; cbn.
  - constructor; [exact Hv|constructor].
  - inversion Hb as [|? ? H1 H2]; subst. destruct (k' =? k).
    + constructor; [exact Hv|exact H2].
    + constructor; [exact H1|exact (IH H2)].
Qed.

Lemma buf_ok_del dd k : buf_ok dd -> buf_ok (ddel dd k).
Proof.
  intros Hb. induction dd as [|[k' v'] r IH]; cbn; [constructor|].
  inversion Hb as [|? ? H1 H2]; subst. destruct (k' =? k); [exact (IH H2)|constructor; [exact H1|exact (IH H2)]].
Qed.

Lemma dget_del_other {V} (d : dict V) k x v : dget (ddel d k) x = Some v -> dget d x = Some v /\ x <> k.
Proof.
  induction d as [|[k' v'] r IH]; cbn; [discriminate|].
  destruct (k' =? k) eqn:E.
  - intros H. destruct (IH H) as [H1 H2]. split; [|assumption].
    destruct (k' =? x) eqn:E2; [lia|assumption].
  - cbn. destruct (k' =? x) eqn:E2; intros H.
    + split; [assumption|lia].
    + now apply IH.
Qed.

Lemma dget_set {V} (d : dict V) k v x :
  dget (dset d k v) x = if x =? k then Some v else dget d x.
Proof.
  induction d as [|[k' v'] r IH]; cbn.
  - destruct (k =? x) eqn:E, (x =? k) eqn:E2; try reflexivity; lia.
  - destruct (k' =? k) eqn:E; cbn.
    + destruct (k =? x) eqn:E2, (x =? k) eqn:E3; try lia; try reflexivity.
      destruct (k' =? x) eqn:E4; [lia|reflexivity].
    + destruct (k' =? x) eqn:E2.
      * destruct (x =? k) eqn:E3; [lia|reflexivity].
      * apply IH.
Qed.

(* ---- _data_in_prefetch_buffers ------------------------------------------------------------------ *)
Lemma max_key_le_bound {V} (d : dict V) off best r :
  max_key_le d off best = Some r -> (forall b, best = Some b -> b <= off) -> r <= off.
Proof.
  revert best. induction d as [|[k v] t IH]; cbn; intros best H Hb.
  - now apply Hb.
  - destruct (k <=? off) eqn:E.
    + apply (IH _ H). intros b Hb'. destruct best as [b0|]; injection Hb' as <-; [|lia].
      specialize (Hb b0 eq_refl). lia.
    + exact (IH _ H Hb).
Qed.

Lemma data_in_buffers_spec dd off idx :
  data_in_buffers dd off = Some idx ->
  exists buf, dget dd idx = Some buf /\ idx <= off /\ off - idx < zlen buf.
Proof.
  unfold data_in_buffers. destruct (max_key_le dd off None) as [i|] eqn:Em; [|discriminate].
  destruct (dget dd i) as [buf|] eqn:Eg; [|discriminate].
  destruct (zlen buf <=? off - i) eqn:El; [discriminate|]. intros H. injection H as <-.
  exists buf. split; [assumption|]. split; [|lia].
  apply (max_key_le_bound _ _ _ _ Em). intros b Hb. discriminate.
Qed.

(* ---- invariants ---------------------------------------------------------------------------------- *)
Record wire_ok (s : state) : Prop := {
  w_inf_lt : forall num c, In (num, c) (inflight s) -> num < nextnum s;
  w_ext_lt : forall num c, dget (extents s) num = Some c -> num < nextnum s;
  w_pend_lt : forall num c, In (num, c) (pending s) -> num < nextnum s;
  w_pend : forall num c c', In (num, c) (pending s) -> In (num, c') (inflight s) -> c = c';
  w_ext : forall num c c', dget (extents s) num = Some c -> In (num, c') (inflight s) -> c = c';
  w_pos : forall num o n, In (num, (o, n)) (inflight s) -> 0 <= o /\ 1 <= n;
  w_unsent : forall o n cap, In (o, n, cap) (unsent s) -> 0 <= o /\ 1 <= n
}.

Definition inv (s : state) : Prop := buf_ok (data s) /\ wire_ok s.

(* the server answers, and no error status is pending *)
Definition lab_ok (l : label) : Prop :=
  match l with LDeliver _ k f => 1 <= k /\ f = false | _ => True end.

Lemma remove_nth_in {A} i (l : list A) x : In x (remove_nth i l) -> In x l.
Proof.
  revert i. induction l as [|h t IH]; intros [|i]; cbn; auto.
  intros [->|H]; [now left|right; eauto].
Qed.

Lemma deliver_wire s i num d' dn' sv' :
  wire_ok s -> wire_ok (set_client (set_inflight s (remove_nth i (inflight s))) d' (ddel (extents s) num) dn' sv').
Proof.
  intros Hw. constructor; cbn.
  - intros x c H. apply remove_nth_in in H. exact (w_inf_lt s Hw _ _ H).
  - intros x c H. apply dget_del_other in H as [H _]. exact (w_ext_lt s Hw _ _ H).
  - exact (w_pend_lt s Hw).
  - intros x c1 c2 H1 H2. apply remove_nth_in in H2. exact (w_pend s Hw _ _ _ H1 H2).
  - intros x c1 c2 H1 H2. apply dget_del_other in H1 as [H1 _]. apply remove_nth_in in H2.
    exact (w_ext s Hw _ _ _ H1 H2).
  - intros x o' n' H. apply remove_nth_in in H. exact (w_pos s Hw _ _ _ H).
  - exact (w_unsent s Hw).
Qed.

Lemma server_data_valid o n k d :
  0 <= o -> server_read file o n k false = RData d -> valid o d.
Proof.
  intros Ho. unfold server_read. destruct (zlen file <=? o) eqn:E; [discriminate|].
  intros H. injection H as <-. apply valid_slice; lia.
Qed.

Lemma env_step_inv s l s' :
  inv s -> lab_ok l -> env_step file s l = Some s' ->
  inv s' /\ same_file s s' /\ prefetching s' = prefetching s /\ (saved s = false -> saved s' = false).
Proof.
  intros [Hb Hw] Hl Hs. destruct l as [i|i|i k fail]; cbn [env_step] in Hs.
  - (* send *)
    destruct (nth_error (unsent s) i) as [[[o n] cap]|] eqn:En; [|discriminate].
    destruct ((cap =? 0) || (zlen (extents s) <? cap)); [|discriminate].
    injection Hs as <-. apply nth_error_In in En.
    destruct (w_unsent s Hw _ _ _ En) as [Ho Hn].
    split; [|ssplit; auto]. split; [exact Hb|].
    constructor; cbn.
    + intros num c H. apply in_app_or in H as [H|[H|[]]].
      * pose proof (w_inf_lt s Hw _ _ H). lia.
      * injection H as <- <-. lia.
    + intros num c H. pose proof (w_ext_lt s Hw _ _ H). lia.
    + intros num c H. apply in_app_or in H as [H|[H|[]]].
      * pose proof (w_pend_lt s Hw _ _ H). lia.
      * injection H as <- <-. lia.
    + intros num c c' H1 H2. apply in_app_or in H1 as [H1|[H1|[]]]; apply in_app_or in H2 as [H2|[H2|[]]].
      * exact (w_pend s Hw _ _ _ H1 H2).
      * injection H2 as <- <-. pose proof (w_pend_lt s Hw _ _ H1). lia.
      * injection H1 as <- <-. pose proof (w_inf_lt s Hw _ _ H2). lia.
      * congruence.
    + intros num c c' H1 H2. apply in_app_or in H2 as [H2|[H2|[]]].
      * exact (w_ext s Hw _ _ _ H1 H2).
      * injection H2 as <- <-. pose proof (w_ext_lt s Hw _ _ H1). lia.
    + intros num o' n' H. apply in_app_or in H as [H|[H|[]]].
      * exact (w_pos s Hw _ _ _ H).
      * injection H as <- <- <-. lia.
    + intros o' n' cap' H. apply remove_nth_in in H. exact (w_unsent s Hw _ _ _ H).
  - (* register *)
    destruct (nth_error (pending s) i) as [[num c]|] eqn:En; [|discriminate].
    injection Hs as <-. apply nth_error_In in En.
    split; [|ssplit; auto]. split; [exact Hb|].
    constructor; cbn.
    + exact (w_inf_lt s Hw).
    + intros x c'. rewrite dget_set. destruct (x =? num) eqn:E.
      * intros _. pose proof (w_pend_lt s Hw _ _ En). lia.
      * apply (w_ext_lt s Hw).
    + intros x c' H. apply remove_nth_in in H. exact (w_pend_lt s Hw _ _ H).
    + intros x c1 c2 H1 H2. apply remove_nth_in in H1. exact (w_pend s Hw _ _ _ H1 H2).
    + intros x c1 c2. rewrite dget_set. destruct (x =? num) eqn:E.
      * intros H1 H2. injection H1 as <-. assert (x = num) by lia. subst x.
        exact (w_pend s Hw _ _ _ En H2).
      * apply (w_ext s Hw).
    + exact (w_pos s Hw).
    + exact (w_unsent s Hw).
  - (* deliver *)
    destruct Hl as [Hk ->].
    destruct (nth_error (inflight s) i) as [[num [o n]]|] eqn:En; [|discriminate].
    apply nth_error_In in En.
    unfold async_response in Hs.
    destruct (dget (extents s) num) as [[eo el]|] eqn:Ee; [|discriminate].
    injection Hs as <-.
    pose proof (w_ext s Hw _ _ _ Ee En) as Hc. injection Hc as -> ->.
    destruct (w_pos s Hw _ _ _ En) as [Ho Hn].
    assert (Hnf : server_read file o n k false <> RFail)
      by (unfold server_read; cbn; destruct (zlen file <=? o); discriminate).
    split; [split|].
    + unfold server_read; cbn. destruct (zlen file <=? o) eqn:El; [exact Hb|].
      apply buf_ok_set; [exact Hb|]. apply valid_slice; lia.
    + apply deliver_wire. exact Hw.
    + unfold server_read; cbn. destruct (zlen file <=? o); ssplit; cbn; auto.
Qed.

Lemma same_file_refl s : same_file s s.
Proof. unfold same_file. auto. Qed.
Lemma same_file_trans a b c : same_file a b -> same_file b c -> same_file a c.
Proof. unfold same_file. intuition congruence. Qed.

Lemma run_env_inv sched : forall s,
  inv s -> Forall lab_ok sched ->
  inv (run_env file sched s) /\ same_file s (run_env file sched s) /\
  prefetching (run_env file sched s) = prefetching s /\
  (saved s = false -> saved (run_env file sched s) = false).
Proof.
  induction sched as [|l r IH]; intros s Hi Hl; cbn.
  - ssplit; auto.
  - inversion Hl as [|? ? Hl1 Hl2]; subst.
    destruct (env_step file s l) as [s'|] eqn:E; [|now apply IH].
    destruct (env_step_inv _ _ _ Hi Hl1 E) as (Hi' & Hsf & Hp & Hsv).
    destruct (IH s' Hi' Hl2) as (A & B & C & D).
    ssplit; auto; try (destruct Hsf as (? & ? & ?); destruct B as (? & ? & ?); congruence).
Qed.

(* ---- the wait loop ------------------------------------------------------------------------------ *)
Lemma wait_loop_inv sched : forall s s1 w,
  inv s -> saved s = false -> Forall lab_ok sched ->
  wait_loop file sched s = (s1, w) ->
  inv s1 /\ same_file s s1 /\ saved s1 = false /\ prefetching s1 = prefetching s /\
  w <> WRaise /\
  (forall idx, w = WFound idx -> data_in_buffers (data s1) (realpos s1) = Some idx).
Proof.
  induction sched as [|l r IH]; intros s s1 w Hi Hsv Hl; cbn.
  - destruct (data_in_buffers (data s) (realpos s)) as [idx|] eqn:Ed.
    + intros H. injection H as <- <-. ssplit; auto; try discriminate.
      intros i H. injection H as <-. exact Ed.
    + destruct (pdone s); intros H; injection H as <- <-; ssplit; auto; discriminate.
  - inversion Hl as [|? ? Hl1 Hl2]; subst.
    destruct (data_in_buffers (data s) (realpos s)) as [idx|] eqn:Ed.
    + intros H. injection H as <- <-. ssplit; auto; try discriminate.
      intros i H. injection H as <-. exact Ed.
    + destruct (pdone s).
      * intros H; injection H as <- <-; ssplit; auto; discriminate.
      * destruct (env_step file s l) as [s'|] eqn:E; [|now apply IH].
        destruct (env_step_inv _ _ _ Hi Hl1 E) as (Hi' & Hsf & Hp & Hsv').
        rewrite (Hsv' Hsv), andb_false_r. intros H.
        destruct (IH _ _ _ Hi' (Hsv' Hsv) Hl2 H) as (A & B & C & D & F & G).
        ssplit; auto; try congruence.
        all: destruct Hsf as (? & ? & ?); destruct B as (? & ? & ?); congruence.
Qed.

(* ---- _read_prefetch / _read ------------------------------------------------------------------- *)
Definition orc_ok (o : oracle) : Prop :=
  Forall lab_ok (o_wait o) /\ Forall lab_ok (o_sync o) /\ 1 <= o_k o /\ o_fail o = false.

Lemma set_data_wire s d : wire_ok s -> wire_ok (set_data s d).
Proof. intros [A B C D E F G]. constructor; cbn; assumption. Qed.
Lemma set_prefetching_wire s b : wire_ok s -> wire_ok (set_prefetching s b).
Proof. intros [A B C D E F G]. constructor; cbn; assumption. Qed.
Lemma set_file_wire s a b c : wire_ok s -> wire_ok (set_file s a b c).
Proof. intros [A B C D E F G]. constructor; cbn; assumption. Qed.

Lemma bump_inv s : inv s -> inv (bump s).
Proof.
  intros [A [B1 B2 B3 B4 B5 B6 B7]]. split; [exact A|]. constructor; cbn; auto.
  - intros num c H. specialize (B1 _ _ H). lia.
  - intros num c H. specialize (B2 _ _ H). lia.
  - intros num c H. specialize (B3 _ _ H). lia.
Qed.

Lemma read_prefetch_ok sched s size s1 r :
  inv s -> saved s = false -> Forall lab_ok sched -> 1 <= size ->
  read_prefetch file sched s size = (s1, r) ->
  inv s1 /\ same_file s s1 /\ saved s1 = false /\
  match r with
  | RdData d => d <> [] /\ valid (realpos s) d /\ zlen d <= size
  | RdNone | RdBlocked => True
  | RdEof | RdRaise => False
  end.
Proof.
  intros Hi Hsv Hl Hsz. unfold read_prefetch.
  destruct (wait_loop file sched s) as [s0 w] eqn:Ew.
  destruct (wait_loop_inv _ _ _ _ Hi Hsv Hl Ew) as ([Hb Hw] & Hsf & Hsv0 & Hp & Hnr & Hf).
  destruct w as [offset| | |].
  - specialize (Hf _ eq_refl). apply data_in_buffers_spec in Hf as (buf & Hg & Hle & Hlt).
    rewrite Hg. intros H. injection H as <- <-.
    pose proof (buf_ok_get _ _ _ Hb Hg) as Hv.
    destruct Hsf as (Hrp & Hps & Hrb).
    set (bo := realpos s0 - offset) in *.
    assert (Hv2 : valid (realpos s0) (if 0 <? bo then zdrop bo buf else buf)).
    { destruct (0 <? bo) eqn:E.
      - replace (realpos s0) with (offset + Z.min bo (zlen buf)) by lia. apply valid_drop; [assumption|lia].
      - replace (realpos s0) with offset by lia. assumption. }
    assert (Hlen2 : zlen (if 0 <? bo then zdrop bo buf else buf) = zlen buf - bo).
    { destruct (0 <? bo) eqn:E; [rewrite zlen_zdrop by lia|]; lia. }
    set (p2 := if 0 <? bo then zdrop bo buf else buf) in *.
    split; [|split; [|split]].
    + split; [|cbn; now apply set_data_wire]. cbn.
      assert (Hb2 : buf_ok (if 0 <? bo then dset (ddel (data s0) offset) offset (ztake bo buf)
                            else ddel (data s0) offset)).
      { destruct (0 <? bo); [apply buf_ok_set; [now apply buf_ok_del|now apply valid_take]|now apply buf_ok_del]. }
      destruct (size <? zlen p2) eqn:E; [|exact Hb2].
      apply buf_ok_set; [exact Hb2|].
      replace (realpos s0 + size) with (realpos s0 + Z.min size (zlen p2)) by lia.
      apply valid_drop; [assumption|lia].
    + ssplit; cbn; congruence.
    + cbn. assumption.
    + rewrite <- Hrp. destruct (size <? zlen p2) eqn:E.
      * split; [|split].
        -- intros Hn. apply zlen_nil_iff in Hn. rewrite zlen_ztake in Hn by lia. lia.
        -- now apply valid_take.
        -- rewrite zlen_ztake by lia. lia.
      * split; [|split; [assumption|lia]].
        intros Hn. apply zlen_nil_iff in Hn. lia.
  - intros H. injection H as <- <-. split; [|split; [|split]]; auto.
    split; [exact Hb|now apply set_prefetching_wire].
  - congruence.
  - intros H. injection H as <- <-. split; [split; assumption|]. split; [exact Hsf|]. auto.
Qed.

Lemma sread_ok maxreq o s size0 s1 r :
  inv s -> saved s = false -> orc_ok o -> 1 <= size0 -> 1 <= maxreq -> 0 <= realpos s ->
  sread file maxreq o s size0 = (s1, r) ->
  inv s1 /\ same_file s s1 /\ saved s1 = false /\
  match r with
  | RdData d => d <> [] /\ valid (realpos s) d /\ zlen d <= size0
  | RdEof => zlen file <= realpos s
  | RdBlocked => True
  | RdNone | RdRaise => False
  end.
Proof.
  intros Hi Hsv (Hw & Hs & Hk & Hf) Hsz Hm Hrp. unfold sread.
  set (size := Z.min size0 maxreq).
  assert (Hsize : 1 <= size <= size0) by (unfold size; lia).
  destruct (if prefetching s then read_prefetch file (o_wait o) s size else (s, RdNone)) as [s0 r0] eqn:E.
  assert (H0 : inv s0 /\ same_file s s0 /\ saved s0 = false /\
               match r0 with
               | RdData d => d <> [] /\ valid (realpos s) d /\ zlen d <= size
               | RdNone | RdBlocked => True
               | RdEof | RdRaise => False
               end).
  { destruct (prefetching s).
    - apply (read_prefetch_ok (o_wait o) s size s0 r0 Hi Hsv Hw ltac:(lia) E).
    - injection E as <- <-. ssplit; auto. }
  destruct H0 as (Hi0 & Hsf0 & Hsv0 & Hr0).
  destruct r0 as [d| | | |]; try contradiction.
  - intros H. injection H as <- <-. ssplit; auto; try apply Hsf0; try apply Hr0.
    destruct Hr0 as (_ & _ & ?). lia.
  - destruct (run_env_inv (o_sync o) (bump s0) (bump_inv _ Hi0) Hs) as (Hi2 & Hsf2 & _ & Hsv2).
    assert (Hsfb : same_file s0 (bump s0)) by (unfold same_file; auto).
    pose proof (same_file_trans _ _ _ Hsf0 (same_file_trans _ _ _ Hsfb Hsf2)) as Hsf.
    assert (Hrp2 : realpos (run_env file (o_sync o) (bump s0)) = realpos s) by apply Hsf.
    rewrite Hrp2, Hf. unfold server_read. cbn [andb].
    destruct (zlen file <=? realpos s) eqn:El; intros H; injection H as <- <-.
    + ssplit; auto; try apply Hsf. lia.
    + split; [assumption|]. split; [assumption|]. split; [auto|].
      split; [|split].
      * intros Hn. apply zlen_nil_iff in Hn. unfold slice in Hn.
        rewrite zlen_ztake, zlen_zdrop in Hn by lia. lia.
      * apply valid_slice; lia.
      * unfold slice. rewrite zlen_ztake by lia. lia.
  - intros H. injection H as <- <-. ssplit; auto; apply Hsf0.
Qed.

(* ---- BufferedFile.read ------------------------------------------------------------------------- *)
Definition rb_ok (s : state) : Prop :=
  valid (pos s) (rbuffer s) /\ realpos s = pos s + zlen (rbuffer s) /\ 0 <= pos s.

Lemma read_loop_ok maxreq bufsize orcs : forall s size s1 st,
  inv s -> saved s = false -> rb_ok s -> Forall orc_ok orcs -> 1 <= maxreq ->
  read_loop file maxreq bufsize orcs s size = (s1, st) ->
  inv s1 /\ saved s1 = false /\ rb_ok s1 /\ pos s1 = pos s /\
  match st with
  | LDone => size <= zlen (rbuffer s1) \/ zlen file <= realpos s1
  | LRaise => False
  | LBlocked => True
  end.
Proof.
  induction orcs as [|o r IH]; intros s size s1 st Hi Hsv Hrb Ho Hm; cbn.
  - destruct (size <=? zlen (rbuffer s)) eqn:E; intros H; injection H as <- <-; ssplit; auto;
      try apply Hrb. left; lia.
  - destruct (size <=? zlen (rbuffer s)) eqn:E.
    { intros H; injection H as <- <-; ssplit; auto; try apply Hrb. left; lia. }
    inversion Ho as [|? ? Ho1 Ho2]; subst.
    set (rs := if 0 <? bufsize then Z.max bufsize (size - zlen (rbuffer s)) else size - zlen (rbuffer s)).
    assert (Hrs : 1 <= rs) by (unfold rs; destruct (0 <? bufsize); lia).
    destruct (sread file maxreq o s rs) as [s0 r0] eqn:Es.
    destruct Hrb as (Hv & Hrp & Hps).
    pose proof (zlen_nonneg (rbuffer s)) as Hnn.
    destruct (sread_ok _ _ _ _ _ _ Hi Hsv Ho1 Hrs Hm ltac:(lia) Es) as (Hi0 & (Hrp0 & Hps0 & Hrb0) & Hsv0 & Hr).
    assert (Hrbok0 : rb_ok s0) by (unfold rb_ok; rewrite Hrp0, Hps0, Hrb0; auto).
    destruct r0 as [d| | | |]; try contradiction.
    + destruct Hr as (Hne & Hvd & _).
      destruct d as [|x d']; [congruence|]. cbn [is_nil].
      intros H. apply IH in H; auto.
      * destruct H as (A & B & C & D & F). ssplit; auto; try apply C. cbn in D. congruence.
      * destruct Hi0 as [Hb0 Hw0]. split; [exact Hb0|now apply set_file_wire].
      * unfold rb_ok. cbn [pos realpos rbuffer set_file]. rewrite Hps0, Hrb0, Hrp0, zlen_app.
        split; [|lia].
        apply valid_app; [assumption|]. now rewrite <- Hrp.
    + intros H; injection H as <- <-. ssplit; auto; try apply Hrbok0. right. lia.
    + intros H; injection H as <- <-. ssplit; auto; apply Hrbok0.
Qed.

Lemma take_is_slice p rb size :
  valid p rb -> 0 <= size -> 0 <= p ->
  size <= zlen rb \/ zlen file <= p + zlen rb ->
  ztake size rb = slice file p size.
Proof.
  intros Hv Hs Hp Hc. destruct Hv as [-> | (pre & post & Hf & Hl)].
  - rewrite ztake_nil. unfold zlen at 1 in Hc. cbn in Hc. destruct Hc as [Hc|Hc].
    + assert (size = 0) by lia. subst. unfold slice. now rewrite ztake_zero.
    + unfold slice, zdrop. replace (Z.min p (zlen file)) with (zlen file) by lia.
      unfold zlen at 1. rewrite Nat2Z.id, skipn_all. now rewrite ztake_nil.
  - unfold slice. subst p. rewrite Hf, zdrop_app_exact. destruct Hc as [Hc|Hc].
    + now rewrite ztake_app_le.
    + rewrite Hf, !zlen_app in Hc. pose proof (zlen_nonneg post).
      assert (post = []) by (apply zlen_nil_iff; lia). subst. now rewrite app_nil_r.
Qed.

Lemma bf_read_ok maxreq bufsize orcs s size s1 out :
  inv s -> saved s = false -> rb_ok s -> Forall orc_ok orcs -> 1 <= maxreq -> 0 <= size ->
  bf_read file maxreq bufsize orcs s size = (s1, out) ->
  inv s1 /\ saved s1 = false /\
  (out = OBlocked \/
   (out = OData (slice file (pos s) size) /\ rb_ok s1 /\ pos s1 = pos s + zlen (slice file (pos s) size))).
Proof.
  intros Hi Hsv Hrb Ho Hm Hsz. unfold bf_read.
  destruct (read_loop file maxreq bufsize orcs s size) as [s0 st] eqn:E.
  destruct (read_loop_ok _ _ _ _ _ _ _ Hi Hsv Hrb Ho Hm E) as (Hi0 & Hsv0 & (Hv & Hrp & Hps) & Hp & Hst).
  destruct st; [|contradiction|].
  - intros H. injection H as <- <-.
    assert (Et : ztake size (rbuffer s0) = slice file (pos s) size).
    { rewrite <- Hp. apply take_is_slice; auto. destruct Hst; [left|right]; lia. }
    split; [|split; [exact Hsv0|right]].
    + destruct Hi0 as [A B]. split; [exact A|now apply set_file_wire].
    + split; [now rewrite Et|]. split; [|cbn; rewrite Et; lia].
      unfold rb_ok. cbn. pose proof (zlen_nonneg (ztake size (rbuffer s0))).
      split; [|split; [|lia]].
      * rewrite zlen_ztake by lia. now apply valid_drop.
      * rewrite zlen_ztake, zlen_zdrop by lia. lia.
  - intros H. injection H as <- <-. auto.
Qed.

(* ---- seek, _start_prefetch, readv ---------------------------------------------------------------- *)
Lemma seek_ok s o : inv s -> 0 <= o -> inv (seek s o) /\ rb_ok (seek s o) /\ pos (seek s o) = o /\ saved (seek s o) = saved s.
Proof.
  intros [A B] Ho. split; [split; [exact A|now apply set_file_wire]|].
  unfold rb_ok. cbn. ssplit; auto; try lia. now left.
Qed.

Definition chunks_pos (cs : list (Z * Z)) : Prop := Forall (fun c => 0 <= fst c /\ 1 <= snd c) cs.

Lemma start_prefetch_ok s cs cap :
  inv s -> chunks_pos cs ->
  inv (start_prefetch s cs cap) /\ same_file s (start_prefetch s cs cap) /\
  saved (start_prefetch s cs cap) = saved s.
Proof.
  intros Hi Hc. unfold start_prefetch. destruct (is_nil cs); [ssplit; auto|].
  destruct Hi as [A B]. split; [|ssplit; reflexivity]. split; [exact A|].
  destruct B as [B1 B2 B3 B4 B5 B6 B7]. constructor; cbn; auto.
  intros o n cap' H. apply in_app_or in H as [H|H]; [eauto|].
  apply in_map_iff in H as ([o' n'] & He & Hin). injection He as <- <- <-.
  unfold chunks_pos in Hc. rewrite Forall_forall in Hc. exact (Hc _ Hin).
Qed.

Lemma split_chunk_pos fuel : forall maxreq o n, 1 <= maxreq -> 0 <= o -> chunks_pos (split_chunk fuel maxreq o n).
Proof.
  induction fuel as [|f IH]; intros maxreq o n Hm Ho; cbn; [constructor|].
  destruct (n <=? 0) eqn:E; [constructor|].
  constructor; [cbn; lia|]. apply IH; lia.
Qed.

Lemma split_chunk_bound fuel : forall maxreq o n,
  Forall (fun c => snd c <= maxreq) (split_chunk fuel maxreq o n).
Proof.
  induction fuel as [|f IH]; intros maxreq o n; cbn; [constructor|].
  destruct (n <=? 0); [constructor|]. constructor; [cbn; lia|apply IH].
Qed.

Lemma readv_plan_pos maxreq d e : forall cs rc,
  1 <= maxreq -> Forall (fun c => 0 <= fst c) cs ->
  readv_plan maxreq d e cs = Some rc -> chunks_pos rc /\ Forall (fun c => snd c <= maxreq) rc.
Proof.
  induction cs as [|[o n] r IH]; intros rc Hm Hc; cbn [readv_plan].
  - intros H. injection H as <-. split; constructor.
  - inversion Hc as [|? ? H1 H2]; subst. cbn in H1.
    match goal with |- match ?X with _ => _ end = _ -> _ => destruct X as [[|]|] end; [| |discriminate].
    + now apply IH.
    + destruct (readv_plan maxreq d e r) as [rest|]; [|discriminate].
      intros H. injection H as <-. destruct (IH rest Hm H2 eq_refl) as [A B]. split.
      * apply Forall_app. split; [now apply split_chunk_pos|exact A].
      * apply Forall_app. split; [apply split_chunk_bound|exact B].
Qed.

Lemma prefetch_chunks_pos fuel : forall maxreq n fs, 1 <= maxreq -> 0 <= n -> chunks_pos (prefetch_chunks fuel maxreq n fs).
Proof.
  induction fuel as [|f IH]; intros maxreq n fs Hm Hn; cbn; [constructor|].
  destruct (n <? fs) eqn:E; [|constructor]. constructor; [cbn; lia|apply IH; lia].
Qed.

Definition chunk_result (c : Z * Z) (out : outcome) : Prop :=
  out = OData (slice file (fst c) (snd c)) \/ out = OBlocked.

Lemma readv_reads_ok maxreq bufsize : forall chunks orcss s s1 outs,
  inv s -> saved s = false -> 1 <= maxreq ->
  Forall (fun c => 0 <= fst c /\ 0 <= snd c) chunks ->
  Forall (Forall orc_ok) orcss ->
  readv_reads file maxreq bufsize orcss s chunks = (s1, outs) ->
  inv s1 /\ saved s1 = false /\ Forall2 chunk_result chunks outs.
Proof.
  induction chunks as [|[o n] r IH]; intros orcss s s1 outs Hi Hsv Hm Hc Ho; cbn.
  - intros H. injection H as <- <-. ssplit; auto.
  - inversion Hc as [|? ? [Hc1 Hc1'] Hc2]; subst. cbn in Hc1, Hc1'.
    destruct (seek_ok s o Hi Hc1) as (Hi1 & Hrb1 & Hp1 & Hsv1).
    set (orcs := match orcss with x :: _ => x | [] => [] end).
    assert (Horcs : Forall orc_ok orcs) by (destruct orcss; [constructor|now inversion Ho]).
    assert (Htl : Forall (Forall orc_ok) (tl orcss)) by (destruct orcss; [constructor|now inversion Ho]).
    destruct (bf_read file maxreq bufsize orcs (seek s o) n) as [s2 out] eqn:Eb.
    destruct (bf_read_ok _ _ _ _ _ _ _ Hi1 ltac:(congruence) Hrb1 Horcs Hm Hc1' Eb) as (Hi2 & Hsv2 & Hout).
    destruct (readv_reads file maxreq bufsize (tl orcss) s2 r) as [s3 outs'] eqn:Er.
    intros H. injection H as <- <-.
    destruct (IH _ _ _ _ Hi2 Hsv2 Hm Hc2 Htl Er) as (A & B & C).
    ssplit; auto. constructor; [|exact C].
    unfold chunk_result. cbn. destruct Hout as [->|[-> _]]; [now right|left]. now rewrite Hp1.
Qed.

End WithFile.

(* ---- top-level statements ------------------------------------------------------------------------ *)

(* every reader / environment step keeps every buffered entry equal to the file's bytes at its key *)
Inductive action :=
  | AEnv (l : label)
  | ARead (maxreq bufsize : Z) (orcs : list oracle) (size : Z)
  | ASeek (o : Z)
  | APrefetch (maxreq file_size cap : Z)
  | AReadv (maxreq bufsize : Z) (orcss : list (list oracle)) (chunks : list (Z * Z)) (cap : Z).

Definition action_ok (a : action) : Prop :=
  match a with
  | AEnv l => lab_ok l
  | ARead maxreq _ orcs size => Forall orc_ok orcs /\ 1 <= maxreq /\ 0 <= size
  | ASeek o => 0 <= o
  | APrefetch maxreq _ _ => 1 <= maxreq
  | AReadv maxreq _ orcss chunks _ =>
      Forall (Forall orc_ok) orcss /\ 1 <= maxreq /\ Forall (fun c => 0 <= fst c /\ 0 <= snd c) chunks
  end.

Definition do_action (file : list Z) (s : state) (a : action) : option state :=
  match a with
  | AEnv l => env_step file s l
  | ARead maxreq bufsize orcs size => Some (fst (bf_read file maxreq bufsize orcs s size))
  | ASeek o => Some (seek s o)
  | APrefetch maxreq fs cap => Some (prefetch maxreq s fs cap)
  | AReadv maxreq bufsize orcss chunks cap =>
      match readv file maxreq bufsize orcss s chunks cap with
      | Some (s', _) => Some s'
      | None => None
      end
  end.

Definition good (file : list Z) (s : state) : Prop :=
  inv file s /\ rb_ok file s /\ saved s = false.

Lemma rb_ok_same file s s' : same_file s s' -> rb_ok file s -> rb_ok file s'.
Proof. intros (A & B & C) (D & E & F). unfold rb_ok. rewrite A, B, C. auto. Qed.

Lemma do_action_good file s a s' :
  good file s -> action_ok a -> do_action file s a = Some s' -> good file s'.
Proof.
  intros (Hi & Hrb & Hsv) Ha. destruct a as [l|maxreq bufsize orcs size|o|maxreq fs cap|maxreq bufsize orcss chunks cap]; cbn in *.
  - intros H. destruct (env_step_inv _ _ _ _ Hi Ha H) as (A & B & _ & D).
    split; [exact A|]. split; [eapply rb_ok_same; eauto|auto].
  - destruct Ha as (Ho & Hm & Hs). intros H. injection H as <-.
    destruct (bf_read file maxreq bufsize orcs s size) as [s1 out] eqn:E. cbn.
    destruct (bf_read_ok _ _ _ _ _ _ _ _ Hi Hsv Hrb Ho Hm Hs E) as (A & B & C).
    split; [exact A|]. split; [|exact B].
    destruct C as [->|(_ & C & _)]; [|exact C].
    (* blocked: the loop state still satisfies rb_ok *)
    unfold bf_read in E. destruct (read_loop file maxreq bufsize orcs s size) as [s0 st] eqn:El.
    destruct (read_loop_ok _ _ _ _ _ _ _ _ Hi Hsv Hrb Ho Hm El) as (_ & _ & R & _ & _).
    destruct st; try discriminate; injection E as <-; exact R.
  - intros H. injection H as <-. destruct (seek_ok file s o Hi Ha) as (A & B & _ & D).
    split; [exact A|]. split; [exact B|congruence].
  - intros H. injection H as <-. unfold prefetch.
    pose proof Hrb as (Hv & Hrp & Hps). pose proof (zlen_nonneg (rbuffer s)).
    match goal with |- good _ (start_prefetch _ ?cs _) =>
      destruct (start_prefetch_ok file s cs cap Hi ltac:(apply prefetch_chunks_pos; lia)) as (A & B & C) end.
    split; [exact A|]. split; [eapply rb_ok_same; eauto|congruence].
  - destruct Ha as (Ho & Hm & Hc). unfold readv.
    destruct (readv_plan maxreq (data s) (extents s) chunks) as [rc|] eqn:Ep; [|discriminate].
    destruct (readv_plan_pos _ _ _ _ _ Hm ltac:(eapply Forall_impl; [|exact Hc]; cbn; tauto) Ep) as [Hrc _].
    destruct (start_prefetch_ok file s rc cap Hi Hrc) as (A & B & C).
    destruct (readv_reads file maxreq bufsize orcss (start_prefetch s rc cap) chunks) as [s1 outs] eqn:Er.
    intros H. injection H as <-.
    destruct (readv_reads_ok _ _ _ _ _ _ _ _ A ltac:(congruence) Hm Hc Ho Er) as (D & E & F).
    split; [exact D|]. split; [|exact E].
    (* rb_ok after the last chunk *)
    clear F Ep Hrc. revert orcss s1 outs Ho Er D E.
    assert (G : rb_ok file (start_prefetch s rc cap)) by (eapply rb_ok_same; eauto).
    assert (Gs : saved (start_prefetch s rc cap) = false) by congruence.
    revert A G Gs. generalize (start_prefetch s rc cap) as t. clear B C Hi Hrb Hsv.
    induction chunks as [|[o n] r IH]; intros t A G Gs orcss s1 outs Ho; cbn.
    + intros H. injection H as <- <-. auto.
    + inversion Hc as [|? ? [Hc1 Hc1'] Hc2]; subst. cbn in Hc1, Hc1'.
      destruct (seek_ok file t o A Hc1) as (Hi1 & Hrb1 & Hp1 & Hsv1).
      set (orcs := match orcss with x :: _ => x | [] => [] end).
      assert (Horcs : Forall orc_ok orcs) by (destruct orcss; [constructor|now inversion Ho]).
      assert (Htl : Forall (Forall orc_ok) (tl orcss)) by (destruct orcss; [constructor|now inversion Ho]).
      destruct (bf_read file maxreq bufsize orcs (seek t o) n) as [s2 out] eqn:Eb.
      assert (G2 : good file s2).
      { destruct (bf_read_ok _ _ _ _ _ _ _ _ Hi1 ltac:(congruence) Hrb1 Horcs Hm Hc1' Eb) as (X & Y & Z').
        split; [exact X|]. split; [|exact Y].
        destruct Z' as [->|(_ & Z' & _)]; [|exact Z'].
        unfold bf_read in Eb. destruct (read_loop file maxreq bufsize orcs (seek t o) n) as [s0 st] eqn:El.
        destruct (read_loop_ok _ _ _ _ _ _ _ _ Hi1 ltac:(congruence) Hrb1 Horcs Hm El) as (_ & _ & R & _ & _).
        destruct st; try discriminate; injection Eb as <-; exact R. }
      destruct G2 as (X & Y & Z').
      destruct (readv_reads file maxreq bufsize (tl orcss) s2 r) as [s3 outs'] eqn:Er.
      intros H. injection H as <- <-. intros _ _.
      eapply (IH Hc2 s2 X Y Z' (tl orcss) _ _ Htl Er).
      * destruct (readv_reads_ok _ _ _ _ _ _ _ _ X Z' Hm Hc2 Htl Er) as (P & _ & _). exact P.
      * destruct (readv_reads_ok _ _ _ _ _ _ _ _ X Z' Hm Hc2 Htl Er) as (_ & P & _). exact P.
Qed.

(* C28_buffer_inv *)
Fixpoint do_actions (file : list Z) (s : state) (acts : list action) : option state :=
  match acts with
  | [] => Some s
  | a :: r => match do_action file s a with Some s' => do_actions file s' r | None => None end
  end.

Lemma buffer_inv file acts : forall s s',
  good file s -> Forall action_ok acts -> do_actions file s acts = Some s' ->
  good file s' /\
  forall o d, In (o, d) (data s') -> d = slice file o (zlen d).
Proof.
  induction acts as [|a r IH]; intros s s' Hg Ha; cbn.
  - intros H. injection H as <-. split; [exact Hg|].
    intros o d Hin. destruct Hg as ((Hb & _) & _). unfold buf_ok in Hb. rewrite Forall_forall in Hb.
    apply valid_is_slice. exact (Hb _ Hin).
  - inversion Ha as [|? ? Ha1 Ha2]; subst.
    destruct (do_action file s a) as [s0|] eqn:E; [|discriminate].
    apply IH; auto. eapply do_action_good; eauto.
Qed.

Lemma good_init n : forall file, good file (init_state n).
Proof.
  intros file. split; [split|split].
  - constructor.
  - constructor; cbn; try contradiction; try discriminate.
  - unfold rb_ok. cbn. split; [now left|]. unfold zlen. cbn. lia.
  - reflexivity.
Qed.

(* C28_read *)
Lemma read_raw file maxreq o s size s1 r :
  good file s -> orc_ok o -> 1 <= size -> 1 <= maxreq ->
  sread file maxreq o s size = (s1, r) ->
  match r with
  | RdData d => d <> [] /\ zlen d <= size /\ d = slice file (realpos s) (zlen d)
  | RdEof => zlen file <= realpos s
  | RdBlocked => True
  | RdNone | RdRaise => False
  end.
Proof.
  intros (Hi & (Hv & Hrp & Hps) & Hsv) Ho Hs Hm E.
  pose proof (zlen_nonneg (rbuffer s)).
  destruct (sread_ok _ _ _ _ _ _ _ Hi Hsv Ho Hs Hm ltac:(lia) E) as (_ & _ & _ & Hr).
  destruct r; auto. destruct Hr as (A & B & C). ssplit; auto. now apply valid_is_slice.
Qed.

Lemma read_buffered file maxreq bufsize orcs s size s1 out :
  good file s -> Forall orc_ok orcs -> 1 <= maxreq -> 0 <= size ->
  bf_read file maxreq bufsize orcs s size = (s1, out) ->
  good file s1 /\
  (out = OBlocked \/ (out = OData (slice file (pos s) size) /\ pos s1 = pos s + zlen (slice file (pos s) size))).
Proof.
  intros Hg Ho Hm Hs E.
  assert (G : good file s1).
  { apply (do_action_good file s (ARead maxreq bufsize orcs size)); auto; cbn; auto. now rewrite E. }
  split; [exact G|].
  destruct Hg as (Hi & Hrb & Hsv).
  destruct (bf_read_ok _ _ _ _ _ _ _ _ Hi Hsv Hrb Ho Hm Hs E) as (_ & _ & [->|(A & _ & C)]); auto.
Qed.

(* C28_readv *)
Lemma readv_exact file maxreq bufsize orcss s chunks cap s1 outs :
  good file s -> Forall (Forall orc_ok) orcss -> 1 <= maxreq ->
  Forall (fun c => 0 <= fst c /\ 0 <= snd c) chunks ->
  readv file maxreq bufsize orcss s chunks cap = Some (s1, outs) ->
  good file s1 /\
  Forall2 (fun c out => out = OData (slice file (fst c) (snd c)) \/ out = OBlocked) chunks outs.
Proof.
  intros Hg Ho Hm Hc E.
  assert (G : good file s1).
  { apply (do_action_good file s (AReadv maxreq bufsize orcss chunks cap)); auto; cbn; auto. now rewrite E. }
  split; [exact G|].
  destruct Hg as (Hi & Hrb & Hsv). unfold readv in E.
  destruct (readv_plan maxreq (data s) (extents s) chunks) as [rc|] eqn:Ep; [|discriminate].
  destruct (readv_plan_pos _ _ _ _ _ Hm ltac:(eapply Forall_impl; [|exact Hc]; cbn; tauto) Ep) as [Hrc _].
  destruct (start_prefetch_ok file s rc cap Hi Hrc) as (A & B & C).
  injection E as E.
  destruct (readv_reads_ok _ _ _ _ _ _ _ _ A ltac:(congruence) Hm Hc Ho E) as (_ & _ & F). exact F.
Qed.

(* requests are never larger than MAX_REQUEST_SIZE *)
Lemma readv_plan_bounded maxreq d e cs rc :
  1 <= maxreq -> Forall (fun c => 0 <= fst c) cs -> readv_plan maxreq d e cs = Some rc ->
  Forall (fun c => 0 <= fst c /\ 1 <= snd c <= maxreq) rc.
Proof.
  intros Hm Hc E. destruct (readv_plan_pos _ _ _ _ _ Hm Hc E) as [A B].
  unfold chunks_pos in A. rewrite Forall_forall in *. intros c Hin.
  specialize (A c Hin). specialize (B c Hin). lia.
Qed.

(* ---- termination (partial) ------------------------------------------------------------------------ *)
Definition measure (s : state) : nat := 3 * length (unsent s) + length (pending s) + length (inflight s).

Lemma remove_nth_length {A} i : forall (l : list A) x,
  nth_error l i = Some x -> S (length (remove_nth i l)) = length l.
Proof.
  induction i as [|i IH]; intros [|h t] x; cbn; try discriminate; auto.
  intros H. now rewrite (IH t x H).
Qed.

Lemma env_step_measure file s l s' : env_step file s l = Some s' -> (measure s' < measure s)%nat.
Proof.
  destruct l as [i|i|i k f]; cbn [env_step].
  - destruct (nth_error (unsent s) i) as [[[o n] cap]|] eqn:E; [|discriminate].
    destruct ((cap =? 0) || (zlen (extents s) <? cap)); [|discriminate].
    intros H. injection H as <-. unfold measure. cbn. rewrite !app_length. cbn.
    pose proof (remove_nth_length _ _ _ E). lia.
  - destruct (nth_error (pending s) i) as [[num c]|] eqn:E; [|discriminate].
    intros H. injection H as <-. unfold measure. cbn.
    pose proof (remove_nth_length _ _ _ E). lia.
  - destruct (nth_error (inflight s) i) as [[num [o n]]|] eqn:E; [|discriminate].
    destruct (async_response _ _ _ _ _ _) as [[[[d e] dn] sv]|]; [|discriminate].
    intros H. injection H as <-. unfold measure. cbn.
    pose proof (remove_nth_length _ _ _ E). lia.
Qed.

Lemma dget_del_same {V} (d : dict V) k : dget (ddel d k) k = None.
Proof.
  induction d as [|[k' v'] r IH]; cbn; [reflexivity|].
  destruct (k' =? k) eqn:E; [exact IH|]. cbn. now rewrite E.
Qed.

Lemma async_releases d e dn sv num r d' e' dn' sv' :
  async_response d e dn sv num r = Some (d', e', dn', sv') ->
  dget e' num = None /\ (e' = [] -> dn' = true) /\ (length e' <= length e)%nat.
Proof.
  unfold async_response. destruct (dget e num) as [[off len]|]; [|discriminate].
  intros H. injection H as <- <- <- <-. split; [apply dget_del_same|]. split.
  - intros ->. reflexivity.
  - clear. induction e as [|[k v] t IH]; cbn; [lia|]. destruct (k =? num); cbn; lia.
Qed.

Lemma wait_done_never_blocks file sched s : pdone s = true -> snd (wait_loop file sched s) <> WBlocked.
Proof.
  intros H. destruct sched; cbn; destruct (data_in_buffers (data s) (realpos s)); rewrite ?H; cbn; discriminate.
Qed.

Lemma start_prefetch_work s cs cap :
  pdone (start_prefetch s cs cap) = false -> pdone s = false \/ unsent (start_prefetch s cs cap) <> [].
Proof.
  unfold start_prefetch. destruct cs as [|c r]; cbn; [now left|].
  intros _. right. intros H. apply app_eq_nil in H as [_ H]. discriminate.
Qed.

Lemma env_idle file s l : unsent s = [] -> pending s = [] -> inflight s = [] -> env_step file s l = None.
Proof. intros A B C. destruct l as [i|i|i k f]; cbn; rewrite ?A, ?B, ?C; destruct i; reflexivity. Qed.

(* ---- deadlock freedom of the reader / prefetch-thread / wire interleaving ----------------------- *)
Definition keys {V} (d : dict V) : list Z := map fst d.

Record live_ok (s : state) : Prop := {
  l_ext_inf : forall num, In num (keys (extents s)) -> In num (keys (inflight s));
  l_pend_inf : forall num, In num (keys (pending s)) -> In num (keys (inflight s)) /\ ~ In num (keys (extents s));
  l_inf_cov : forall num, In num (keys (inflight s)) -> In num (keys (extents s)) \/ In num (keys (pending s));
  l_nodup_inf : NoDup (keys (inflight s));
  l_nodup_pend : NoDup (keys (pending s));
  l_done : prefetching s = true -> pdone s = false -> unsent s <> [] \/ pending s <> [] \/ extents s <> [];
  l_cap : forall o n cap, In (o, n, cap) (unsent s) -> 0 <= cap
}.

Definition work (s : state) : Prop := unsent s <> [] \/ pending s <> [] \/ inflight s <> [].

Lemma keys_dset {V} (d : dict V) k v x : In x (keys (dset d k v)) <-> x = k \/ In x (keys d).
Proof.
  induction d as [|[k' v'] r IH]; cbn.
  - intuition.
  - destruct (k' =? k) eqn:E; cbn.
    + assert (k' = k) by lia. subst. intuition.
    + rewrite IH. intuition.
Qed.

Lemma keys_ddel {V} (d : dict V) k x : In x (keys (ddel d k)) <-> x <> k /\ In x (keys d).
Proof.
  induction d as [|[k' v'] r IH]; cbn.
  - intuition.
  - destruct (k' =? k) eqn:E; cbn.
    + rewrite IH. assert (k' = k) by lia. subst. intuition congruence.
    + rewrite IH. assert (k' <> k) by lia. intuition congruence.
Qed.

Lemma dget_keys {V} (d : dict V) k : In k (keys d) <-> dget d k <> None.
Proof.
  induction d as [|[k' v'] r IH]; cbn.
  - intuition.
  - destruct (k' =? k) eqn:E.
    + assert (k' = k) by lia. split; [intros _; discriminate|intros _; now left].
    + rewrite <- IH. assert (k' <> k) by lia. intuition congruence.
Qed.

Lemma in_keys {V} (d : dict V) k v : In (k, v) d -> In k (keys d).
Proof. intros H. unfold keys. change k with (fst (k, v)). now apply in_map. Qed.

Lemma keys_app {V} (a b : dict V) : keys (a ++ b) = keys a ++ keys b.
Proof. unfold keys. apply map_app. Qed.

Lemma keys_remove_nth {V} i : forall (l : dict V) k v x,
  nth_error l i = Some (k, v) ->
  (x <> k -> In x (keys l) -> In x (keys (remove_nth i l))) /\
  (In x (keys (remove_nth i l)) -> In x (keys l)) /\
  (NoDup (keys l) -> In x (keys (remove_nth i l)) -> x <> k) /\
  (NoDup (keys l) -> NoDup (keys (remove_nth i l))).
Proof.
  induction i as [|i IH]; intros [|[k' v'] t] k v x; cbn; try discriminate.
  - intros H. injection H as -> ->. repeat split.
    + intros Hx [H|H]; [congruence|exact H].
    + auto.
    + intros Hn Hin ->. inversion Hn; subst. contradiction.
    + intros Hn. now inversion Hn.
  - intros H. destruct (IH t k v x H) as (A & B & C & D). repeat split.
    + intros Hx [Hin|Hin]; [now left|right; auto].
    + intros [Hin|Hin]; [now left|right; auto].
    + intros Hn [Hin|Hin].
      * subst x. intros ->. inversion Hn; subst. apply nth_error_In in H. apply in_keys in H. contradiction.
      * inversion Hn; subst. auto.
    + intros Hn. inversion Hn as [|? ? Hni Hn']; subst. constructor; [|auto].
      intros Hin. apply Hni. destruct (IH t k v k' H) as (_ & B' & _ & _). auto.
Qed.

Lemma NoDup_snoc (l : list Z) k : NoDup l -> ~ In k l -> NoDup (l ++ [k]).
Proof.
  induction l as [|h t IH]; cbn; intros Hn Hk.
  - constructor; [intros []|constructor].
  - inversion Hn; subst. constructor.
    + rewrite in_app_iff. cbn. intuition.
    + apply IH; intuition.
Qed.

Arguments keys : simpl never.

Lemma live_env file s l s' :
  inv file s -> live_ok s -> env_step file s l = Some s' -> live_ok s'.
Proof.
  intros [_ Hw] Hl. destruct l as [i|i|i k fail]; cbn [env_step].
  - destruct (nth_error (unsent s) i) as [[[o n] cap]|] eqn:En; [|discriminate].
    destruct ((cap =? 0) || (zlen (extents s) <? cap)); [|discriminate].
    intros H. injection H as <-.
    assert (Hfresh_inf : ~ In (nextnum s) (keys (inflight s))).
    { intros Hin. apply in_map_iff in Hin as ([x c] & Hx & Hin). cbn in Hx. subst x.
      pose proof (w_inf_lt s Hw _ _ Hin). lia. }
    assert (Hfresh_pend : ~ In (nextnum s) (keys (pending s))).
    { intros Hin. apply in_map_iff in Hin as ([x c] & Hx & Hin). cbn in Hx. subst x.
      pose proof (w_pend_lt s Hw _ _ Hin). lia. }
    assert (Hfresh_ext : ~ In (nextnum s) (keys (extents s))).
    { intros Hin. apply dget_keys in Hin. destruct (dget (extents s) (nextnum s)) as [c|] eqn:E; [|congruence].
      pose proof (w_ext_lt s Hw _ _ E). lia. }
    constructor; cbn; rewrite ?keys_app; change (keys [(nextnum s, (o, n))]) with [nextnum s].
    + intros num H. apply in_or_app. left. now apply (l_ext_inf s Hl).
    + intros num H. apply in_app_or in H as [H|[<-|[]]].
      * destruct (l_pend_inf s Hl _ H) as [A B]. split; [apply in_or_app; now left|exact B].
      * split; [apply in_or_app; right; now left|exact Hfresh_ext].
    + intros num H. apply in_app_or in H as [H|[<-|[]]].
      * destruct (l_inf_cov s Hl _ H) as [A|A]; [now left|right; apply in_or_app; now left].
      * right. apply in_or_app. right. now left.
    + apply NoDup_snoc; [apply (l_nodup_inf s Hl)|exact Hfresh_inf].
    + apply NoDup_snoc; [apply (l_nodup_pend s Hl)|exact Hfresh_pend].
    + intros _ _. right. left. destruct (pending s); discriminate.
    + intros o' n' cap' H. apply remove_nth_in in H. exact (l_cap s Hl _ _ _ H).
  - destruct (nth_error (pending s) i) as [[num c]|] eqn:En; [|discriminate].
    intros H. injection H as <-.
    pose proof (nth_error_In _ _ En) as Hin. apply in_keys in Hin.
    constructor; cbn.
    + intros x H. apply keys_dset in H as [->|H]; [apply (l_pend_inf s Hl _ Hin)|now apply (l_ext_inf s Hl)].
    + intros x H.
      destruct (keys_remove_nth i (pending s) num c x En) as (_ & B & C & _).
      pose proof (C (l_nodup_pend s Hl) H) as Hne. destruct (l_pend_inf s Hl _ (B H)) as [P Q].
      split; [exact P|]. rewrite keys_dset. intuition.
    + intros x H. destruct (l_inf_cov s Hl _ H) as [A|A].
      * left. apply keys_dset. now right.
      * destruct (Z.eq_dec x num) as [->|Hne]; [left; apply keys_dset; now left|].
        right. destruct (keys_remove_nth i (pending s) num c x En) as (A' & _). auto.
    + apply (l_nodup_inf s Hl).
    + destruct (keys_remove_nth i (pending s) num c num En) as (_ & _ & _ & D). apply D, (l_nodup_pend s Hl).
    + intros _ _. right. right. destruct (extents s) as [|[k' v'] t]; cbn; [discriminate|].
      destruct (k' =? num); discriminate.
    + exact (l_cap s Hl).
  - destruct (nth_error (inflight s) i) as [[num [o n]]|] eqn:En; [|discriminate].
    unfold async_response. destruct (dget (extents s) num) as [[eo el]|] eqn:Ee; [|discriminate].
    intros H. injection H as <-.
    assert (Hreg : In num (keys (extents s))) by (apply dget_keys; congruence).
    constructor; cbn.
    + intros x H. apply keys_ddel in H as [Hne H].
      destruct (keys_remove_nth i (inflight s) num (o, n) x En) as (A & _). apply A; [exact Hne|].
      now apply (l_ext_inf s Hl).
    + intros x H. destruct (l_pend_inf s Hl _ H) as [P Q]. split.
      * destruct (keys_remove_nth i (inflight s) num (o, n) x En) as (A & _). apply A; [|exact P].
        intros ->. contradiction.
      * rewrite keys_ddel. intuition.
    + intros x H. destruct (keys_remove_nth i (inflight s) num (o, n) x En) as (_ & B & C & _).
      pose proof (C (l_nodup_inf s Hl) H) as Hne.
      destruct (l_inf_cov s Hl _ (B H)) as [A|A]; [left; apply keys_ddel; now split|now right].
    + destruct (keys_remove_nth i (inflight s) num (o, n) num En) as (_ & _ & _ & D). apply D, (l_nodup_inf s Hl).
    + apply (l_nodup_pend s Hl).
    + intros _. destruct (ddel (extents s) num) as [|x t] eqn:Ed; cbn; [discriminate|].
      intros Hd. right. right. discriminate.
    + exact (l_cap s Hl).
Qed.

(* some step of the environment is always enabled while anything is outstanding: the oldest in-flight
   reply can be delivered (its extent is registered) or its registration can happen; otherwise a
   registration or a send is enabled (a capped thread is never starved: extents drain) *)
Lemma progress file s k :
  inv file s -> live_ok s -> work s ->
  exists l s', env_step file s l = Some s' /\
               (l = LDeliver 0 k false \/ (exists i, l = LReg i) \/ l = LSend 0).
Proof.
  intros Hi Hl Hwk. destruct (inflight s) as [|[num [o n]] t] eqn:Ei.
  - destruct (pending s) as [|[pn pc] pt] eqn:Ep.
    + destruct Hwk as [Hu|[Hp|Hf]]; try congruence.
      destruct (unsent s) as [|[[o n] cap] ut] eqn:Eu; [congruence|].
      assert (He : extents s = []).
      { destruct (extents s) as [|[x c] et] eqn:Ee; [reflexivity|].
        pose proof (l_ext_inf s Hl x) as H. rewrite Ee, Ei in H. cbn in H. exfalso. apply H. now left. }
      pose proof (l_cap s Hl o n cap) as Hc. rewrite Eu in Hc. specialize (Hc (or_introl eq_refl)).
      eexists (LSend 0), _. split; [|auto]. cbn. rewrite Eu. cbn. rewrite He. cbn.
      destruct (cap =? 0) eqn:E0; cbn; [reflexivity|].
      destruct (0 <? cap) eqn:E1; [reflexivity|lia].
    + eexists (LReg 0), _. split; [|right; left; now exists 0%nat]. cbn. rewrite Ep. reflexivity.
  - pose proof (l_inf_cov s Hl num) as Hc. rewrite Ei in Hc. specialize (Hc (or_introl eq_refl)).
    destruct Hc as [Hc|Hc].
    + apply dget_keys in Hc. destruct (dget (extents s) num) as [[eo el]|] eqn:Ee; [|congruence].
      eexists (LDeliver 0 k false), _. split; [|now left]. cbn. rewrite Ei. cbn.
      unfold async_response. rewrite Ee. reflexivity.
    + apply in_map_iff in Hc as ([x c] & Hx & Hin). apply In_nth_error in Hin as [i Hi'].
      eexists (LReg i), _. split; [|right; left; now exists i]. cbn. rewrite Hi'. reflexivity.
Qed.

(* with nothing outstanding the wait loop does not wait *)
Lemma quiescent_exits file sched s :
  live_ok s -> prefetching s = true -> ~ work s -> snd (wait_loop file sched s) <> WBlocked.
Proof.
  intros Hl Hp Hnw. destruct (pdone s) eqn:Ed; [now apply wait_done_never_blocks|].
  exfalso. apply Hnw. destruct (l_done s Hl Hp Ed) as [H|[H|H]]; [now left|right; now left|].
  right. right. destruct (extents s) as [|[x c] t] eqn:Ee; [congruence|].
  pose proof (l_ext_inf s Hl x) as Hin. rewrite Ee in Hin. specialize (Hin (or_introl eq_refl)).
  destruct (inflight s); [contradiction|discriminate].
Qed.

(* live_ok only looks at the fields the reader's own steps leave alone *)
Definition env_eq (s s' : state) : Prop :=
  extents s' = extents s /\ pdone s' = pdone s /\ unsent s' = unsent s /\ pending s' = pending s /\
  inflight s' = inflight s /\ (prefetching s' = true -> prefetching s = true).

Lemma live_eq s s' : env_eq s s' -> live_ok s -> live_ok s'.
Proof.
  intros (A & B & C & D & E & F) [L1 L2 L3 L4 L5 L6 L7].
  constructor; rewrite ?A, ?B, ?C, ?D, ?E; try assumption.
  intros Hp. apply L6. now apply F.
Qed.

Ltac env_eq_tac :=
  unfold env_eq; repeat split; cbn; try reflexivity;
  try (let Hx := fresh in intros Hx; first [exact Hx | discriminate Hx]).

Lemma live_start_prefetch s cs cap : 0 <= cap -> live_ok s -> live_ok (start_prefetch s cs cap).
Proof.
  intros Hc [L1 L2 L3 L4 L5 L6 L7]. unfold start_prefetch. destruct cs as [|c r]; cbn [is_nil].
  - constructor; assumption.
  - constructor; cbn; auto.
    + intros _ _. left. destruct (unsent s); discriminate.
    + intros o n cap' H. apply in_app_or in H as [H|H]; [eauto|].
      destruct H as [H|H]; [injection H as <- <- <-; exact Hc|].
      apply in_map_iff in H as (x & He & _). injection He as <- <- <-. exact Hc.
Qed.

Lemma live_init n : live_ok (init_state n).
Proof.
  constructor; cbn.
  - intros num [].
  - intros num [].
  - intros num [].
  - constructor.
  - constructor.
  - discriminate.
  - intros o n' cap [].
Qed.

(* the invariants travel through the reader's operations *)
Lemma run_env_live file sched : forall s,
  inv file s -> Forall lab_ok sched -> live_ok s -> live_ok (run_env file sched s).
Proof.
  induction sched as [|l r IH]; intros s Hi Hl Hv; cbn; [exact Hv|].
  inversion Hl as [|? ? Hl1 Hl2]; subst.
  destruct (env_step file s l) as [s'|] eqn:E; [|now apply IH].
  destruct (env_step_inv _ _ _ _ Hi Hl1 E) as (Hi' & _).
  apply IH; [exact Hi'|exact Hl2|exact (live_env _ _ _ _ Hi Hv E)].
Qed.

Lemma wait_loop_live file sched : forall s s1 w,
  inv file s -> saved s = false -> Forall lab_ok sched -> live_ok s ->
  wait_loop file sched s = (s1, w) -> live_ok s1.
Proof.
  induction sched as [|l r IH]; intros s s1 w Hi Hsv Hl Hv; cbn.
  - destruct (data_in_buffers (data s) (realpos s)); [|destruct (pdone s)]; intros H; injection H as <- <-; exact Hv.
  - inversion Hl as [|? ? Hl1 Hl2]; subst.
    destruct (data_in_buffers (data s) (realpos s)); [intros H; injection H as <- <-; exact Hv|].
    destruct (pdone s); [intros H; injection H as <- <-; exact Hv|].
    destruct (env_step file s l) as [s'|] eqn:E; [|now apply IH].
    destruct (env_step_inv _ _ _ _ Hi Hl1 E) as (Hi' & _ & _ & Hsv').
    rewrite (Hsv' Hsv), andb_false_r. apply IH; [exact Hi'|exact (Hsv' Hsv)|exact Hl2|exact (live_env _ _ _ _ Hi Hv E)].
Qed.

Lemma read_prefetch_live file sched s size s1 r :
  inv file s -> saved s = false -> Forall lab_ok sched -> live_ok s ->
  read_prefetch file sched s size = (s1, r) -> live_ok s1.
Proof.
  intros Hi Hsv Hl Hv. unfold read_prefetch.
  destruct (wait_loop file sched s) as [s0 w] eqn:Ew.
  pose proof (wait_loop_live _ _ _ _ _ Hi Hsv Hl Hv Ew) as Hv0.
  destruct w as [offset| | |].
  - destruct (dget (data s0) offset); intros H; injection H as <- <-; [|exact Hv0].
    eapply live_eq; [|exact Hv0]. env_eq_tac.
  - intros H; injection H as <- <-. eapply live_eq; [|exact Hv0]. env_eq_tac.
  - intros H; injection H as <- <-. exact Hv0.
  - intros H; injection H as <- <-. exact Hv0.
Qed.

Lemma sread_live file maxreq o s size0 s1 r :
  inv file s -> saved s = false -> orc_ok o -> 1 <= size0 -> 1 <= maxreq -> live_ok s ->
  sread file maxreq o s size0 = (s1, r) -> live_ok s1.
Proof.
  intros Hi Hsv (Hw & Hs & Hk & Hf) Hsz Hm Hv. unfold sread.
  destruct (if prefetching s then read_prefetch file (o_wait o) s (Z.min size0 maxreq) else (s, RdNone)) as [s0 r0] eqn:E.
  assert (H0 : inv file s0 /\ live_ok s0).
  { destruct (prefetching s).
    - split; [|exact (read_prefetch_live _ _ _ _ _ _ Hi Hsv Hw Hv E)].
      destruct (read_prefetch_ok file (o_wait o) s (Z.min size0 maxreq) s0 r0 Hi Hsv Hw ltac:(lia) E) as (X & _).
      exact X.
    - injection E as <- <-. auto. }
  destruct H0 as [Hi0 Hv0].
  assert (Hb : live_ok (run_env file (o_sync o) (bump s0))).
  { apply run_env_live; [now apply bump_inv|exact Hs|]. eapply live_eq; [|exact Hv0]. env_eq_tac. }
  destruct r0; try (intros H; injection H as <- <-; exact Hv0).
  destruct (server_read _ _ _ _ _); intros H; injection H as <- <-; exact Hb.
Qed.

Lemma read_loop_live file maxreq bufsize orcs : forall s size s1 st,
  inv file s -> saved s = false -> rb_ok file s -> Forall orc_ok orcs -> 1 <= maxreq -> live_ok s ->
  read_loop file maxreq bufsize orcs s size = (s1, st) -> live_ok s1.
Proof.
  induction orcs as [|o r IH]; intros s size s1 st Hi Hsv Hrb Ho Hm Hv; cbn.
  - destruct (size <=? zlen (rbuffer s)); intros H; injection H as <- <-; exact Hv.
  - destruct (size <=? zlen (rbuffer s)) eqn:E; [intros H; injection H as <- <-; exact Hv|].
    inversion Ho as [|? ? Ho1 Ho2]; subst.
    set (rs := if 0 <? bufsize then Z.max bufsize (size - zlen (rbuffer s)) else size - zlen (rbuffer s)).
    assert (Hrs : 1 <= rs) by (unfold rs; destruct (0 <? bufsize); lia).
    destruct (sread file maxreq o s rs) as [s0 r0] eqn:Es.
    pose proof Hrb as (Hvv & Hrp & Hps).
    pose proof (zlen_nonneg (rbuffer s)) as Hnn.
    destruct (sread_ok _ _ _ _ _ _ _ Hi Hsv Ho1 Hrs Hm ltac:(lia) Es) as (Hi0 & (Hrp0 & Hps0 & Hrb0) & Hsv0 & Hr).
    pose proof (sread_live _ _ _ _ _ _ _ Hi Hsv Ho1 Hrs Hm Hv Es) as Hv0.
    destruct r0 as [d| | | |]; try (intros H; injection H as <- <-; exact Hv0).
    destruct Hr as (Hne & Hvd & _).
    destruct d as [|x d']; [congruence|]. cbn [is_nil].
    intros H. eapply IH; [| | | | |  |exact H]; auto.
    + destruct Hi0 as [Hb0 Hw0]. split; [exact Hb0|now apply set_file_wire].
    + unfold rb_ok. cbn [pos realpos rbuffer set_file]. rewrite Hps0, Hrb0, Hrp0, zlen_app.
      split; [|lia]. apply valid_app; [assumption|]. now rewrite <- Hrp.
    + eapply live_eq; [|exact Hv0]. env_eq_tac.
Qed.

Lemma bf_read_live file maxreq bufsize orcs s size s1 out :
  inv file s -> saved s = false -> rb_ok file s -> Forall orc_ok orcs -> 1 <= maxreq -> live_ok s ->
  bf_read file maxreq bufsize orcs s size = (s1, out) -> live_ok s1.
Proof.
  intros Hi Hsv Hrb Ho Hm Hv. unfold bf_read.
  destruct (read_loop file maxreq bufsize orcs s size) as [s0 st] eqn:E.
  pose proof (read_loop_live _ _ _ _ _ _ _ _ Hi Hsv Hrb Ho Hm Hv E) as Hv0.
  destruct st; intros H; injection H as <- <-; try exact Hv0.
  eapply live_eq; [|exact Hv0]. env_eq_tac.
Qed.

Definition action_caps_ok (a : action) : Prop :=
  match a with
  | APrefetch _ _ cap => 0 <= cap
  | AReadv _ _ _ _ cap => 0 <= cap
  | _ => True
  end.

Lemma readv_reads_live file maxreq bufsize : forall chunks orcss s s1 outs,
  good file s -> live_ok s -> 1 <= maxreq ->
  Forall (fun c => 0 <= fst c /\ 0 <= snd c) chunks -> Forall (Forall orc_ok) orcss ->
  readv_reads file maxreq bufsize orcss s chunks = (s1, outs) -> live_ok s1.
Proof.
  induction chunks as [|[o n] r IH]; intros orcss s s1 outs Hg Hv Hm Hc Ho; cbn.
  - intros H. injection H as <- <-. exact Hv.
  - inversion Hc as [|? ? [Hc1 Hc1'] Hc2]; subst. cbn in Hc1, Hc1'.
    set (orcs := match orcss with x :: _ => x | [] => [] end).
    assert (Horcs : Forall orc_ok orcs) by (destruct orcss; [constructor|now inversion Ho]).
    assert (Htl : Forall (Forall orc_ok) (tl orcss)) by (destruct orcss; [constructor|now inversion Ho]).
    assert (Hgs : good file (seek s o)).
    { apply (do_action_good file s (ASeek o)); auto. }
    assert (Hvs : live_ok (seek s o)) by (eapply live_eq; [|exact Hv]; env_eq_tac).
    destruct (bf_read file maxreq bufsize orcs (seek s o) n) as [s2 out] eqn:Eb.
    assert (Hg2 : good file s2).
    { apply (do_action_good file (seek s o) (ARead maxreq bufsize orcs n)); auto; cbn; auto. now rewrite Eb. }
    destruct Hgs as (Hi1 & Hrb1 & Hsv1).
    pose proof (bf_read_live _ _ _ _ _ _ _ _ Hi1 Hsv1 Hrb1 Horcs Hm Hvs Eb) as Hv2.
    destruct (readv_reads file maxreq bufsize (tl orcss) s2 r) as [s3 outs'] eqn:Er.
    intros H. injection H as <- <-. eapply IH; eauto.
Qed.

Lemma do_action_live file s a s' :
  good file s -> live_ok s -> action_ok a -> action_caps_ok a -> do_action file s a = Some s' -> live_ok s'.
Proof.
  intros Hg Hv Ha Hc. pose proof Hg as (Hi & Hrb & Hsv).
  destruct a as [l|maxreq bufsize orcs size|o|maxreq fs cap|maxreq bufsize orcss chunks cap]; cbn in Ha, Hc |- *.
  - intros H. eapply live_env; eauto.
  - destruct Ha as (Ho & Hm & Hs). intros H. injection H as <-.
    destruct (bf_read file maxreq bufsize orcs s size) as [s1 out] eqn:E. cbn.
    eapply bf_read_live; eauto.
  - intros H. injection H as <-. eapply live_eq; [|exact Hv]. env_eq_tac.
  - intros H. injection H as <-. unfold prefetch. now apply live_start_prefetch.
  - destruct Ha as (Ho & Hm & Hch). unfold readv.
    destruct (readv_plan maxreq (data s) (extents s) chunks) as [rc|] eqn:Ep; [|discriminate].
    destruct (readv_reads file maxreq bufsize orcss (start_prefetch s rc cap) chunks) as [s1 outs] eqn:Er.
    intros H. injection H as <-.
    destruct (readv_plan_pos _ _ _ _ _ Hm ltac:(eapply Forall_impl; [|exact Hch]; cbn; tauto) Ep) as [Hrc _].
    destruct (start_prefetch_ok file s rc cap Hi Hrc) as (A & B & C).
    eapply readv_reads_live; [| | | | |exact Er]; auto.
    + split; [exact A|]. split; [eapply rb_ok_same; eauto|congruence].
    + now apply live_start_prefetch.
Qed.

(* reachable states: from a freshly opened file by any reader operations and environment steps *)
Lemma reachable_live file acts : forall s s',
  good file s -> live_ok s -> Forall action_ok acts -> Forall action_caps_ok acts ->
  do_actions file s acts = Some s' -> good file s' /\ live_ok s'.
Proof.
  induction acts as [|a r IH]; intros s s' Hg Hv Ha Hc; cbn.
  - intros H. injection H as <-. auto.
  - inversion Ha as [|? ? Ha1 Ha2]; subst. inversion Hc as [|? ? Hc1 Hc2]; subst.
    destruct (do_action file s a) as [s0|] eqn:E; [|discriminate].
    apply IH; auto.
    + eapply do_action_good; eauto.
    + eapply do_action_live; eauto.
Qed.

(* C28_terminates *)
Lemma terminates file acts n s :
  Forall action_ok acts -> Forall action_caps_ok acts ->
  do_actions file (init_state n) acts = Some s ->
  (* (a) while anything is outstanding some environment step is enabled -- the oldest reply can be
         dispatched, or the registration it spins on, or a send -- and it leads to a reachable state
         with a smaller measure *)
  (work s -> forall k, 1 <= k ->
     exists l s', env_step file s l = Some s' /\ lab_ok l /\ (measure s' < measure s)%nat /\
                  good file s' /\ live_ok s') /\
  (* (b) every environment step, enabled in whatever order, consumes the measure: at most `measure s`
         of them can happen *)
  (forall l s', env_step file s l = Some s' -> (measure s' < measure s)%nat) /\
  (* (c) with nothing outstanding the reader's wait loop does not wait *)
  (prefetching s = true -> ~ work s -> forall sched, snd (wait_loop file sched s) <> WBlocked).
Proof.
  intros Ha Hc Hr.
  destruct (reachable_live file acts _ _ (good_init n file) (live_init n) Ha Hc Hr) as [Hg Hv].
  split; [|split].
  - intros Hw k Hk. pose proof Hg as (Hi & Hrb & Hsv).
    destruct (progress file s k Hi Hv Hw) as (l & s' & Hs & Hl).
    assert (Hlab : lab_ok l).
    { destruct Hl as [->|[[i ->]| ->]]; cbn; auto. }
    exists l, s'. split; [exact Hs|]. split; [exact Hlab|]. split; [eapply env_step_measure; eauto|].
    split.
    + apply (do_action_good file s (AEnv l)); auto.
    + eapply live_env; eauto.
  - intros l s'. apply env_step_measure.
  - intros Hp Hnw sched. now apply quiescent_exits.
Qed.

(* the code before the repair: an EOF status keeps its extent and _prefetch_done stays false; with the
   wire idle the reader then waits forever, whatever the environment does *)
Definition stuck_v0 : state := mkState [] [(1, (600, 10))] false true true 0 0 [] [] [] [] 2.

Lemma v0_reaches_stuck :
  async_response_v0 [] [(1, (600, 10))] false false 1 REof = Some ([], [(1, (600, 10))], false, true) /\
  async_response [] [(1, (600, 10))] false false 1 REof = Some ([], [], true, false).
Proof. split; reflexivity. Qed.

Lemma v0_wait_forever file sched : snd (wait_loop file sched stuck_v0) = WBlocked.
Proof.
  induction sched as [|l r IH]; [reflexivity|].
  cbn [wait_loop]. change (data_in_buffers (data stuck_v0) (realpos stuck_v0)) with (@None Z).
  change (pdone stuck_v0) with false. cbv iota. rewrite env_idle by reflexivity. exact IH.
Qed.

(* ---- what the model hard-codes about the source, re-derived by gen/c28.py on every run --------------- *)
Lemma src_shape :
  src_async_spins_until_registered = true /\ src_async_releases_extent = true /\
  src_async_stores_at_extent_offset = true /\ src_async_done_when_no_extent_left = true /\
  src_async_eof_status_not_saved = true /\ src_start_prefetch_ignores_empty = true /\
  src_start_prefetch_sets_flags = true /\ src_thread_registers_request_extent = true /\
  src_prefetch_flag_writers_pinned = true /\ src_thread_only_records_extents_under_lock = true /\
  src_read_prefetch_none_when_unbuffered = true /\ src_prefetch_keeps_no_state = true.
Proof. repeat split; reflexivity. Qed.

Lemma src_maxreq_pos : 1 <= src_max_request_size.
Proof. vm_compute. discriminate. Qed.

Lemma readv_exact_src file bufsize orcss s chunks cap s1 outs :
  good file s -> Forall (Forall orc_ok) orcss ->
  Forall (fun c => 0 <= fst c /\ 0 <= snd c) chunks ->
  readv file src_max_request_size bufsize orcss s chunks cap = Some (s1, outs) ->
  good file s1 /\
  Forall2 (fun c out => out = OData (slice file (fst c) (snd c)) \/ out = OBlocked) chunks outs.
Proof. intros Hg Ho Hc. apply readv_exact; auto. apply src_maxreq_pos. Qed.
