(* C13 -- lemmas.  See Model/C13.v for the definitions. *)
From Coq Require Import ZArith List Bool Lia ZifyBool.
From PV Require Import Bytes WakeGraph C13_gen C13.
Import ListNotations.
Open Scope Z_scope.

(* ---------------------------------------------------------------------------------------- *)
(* 1. wake graph: the criterion [ok] is sufficient under every schedule                       *)

Lemma holds_mono st a f : holds st f = true -> holds (apply_action a st) f = true.
Proof.
  destruct a as [g| |]; cbn [apply_action]; auto.
  intros H. unfold holds in *. cbn [existsb]. rewrite H. apply orb_true_r.
Qed.

Lemma cond_mono r st a : cond r st = true -> cond r (apply_action a st) = true.
Proof.
  unfold cond. rewrite !existsb_exists. intros [f [Hin Hf]].
  exists f. split; [exact Hin | now apply holds_mono].
Qed.

Lemma run_state r sched : forall acts st w rem st' w',
  run r sched acts st w = (rem, st', w') -> state_after rem st' = state_after acts st.
Proof.
  induction sched as [|b s IH]; intros acts st w rem st' w' H; cbn [run] in H.
  - now inversion H.
  - destruct b.
    + destruct acts as [|a rest].
      * now apply IH in H.
      * apply IH in H. exact H.
    + now apply IH in H.
Qed.

(* bounded waits and waits on a sticky event: whatever the caller's state, it settles *)
Lemma settle_bounded_or_event r st w :
  cond r st = true ->
  bounded r || (is_event (a_prim r) && holds st (FEv (a_prim r))) = true ->
  settle r st w = WDone.
Proof.
  intros Hc He.
  assert (En : forall tok, enabled r st tok = true).
  { intros tok. unfold enabled. rewrite <- orb_assoc, He. apply orb_true_r. }
  unfold settle. destruct w as [|tok|]; cbn [wstep].
  - rewrite Hc, andb_true_r. destruct (a_has_pre r); cbn [wstep]; [reflexivity|].
    rewrite En, Hc, orb_true_r. reflexivity.
  - rewrite En, Hc, orb_true_r. reflexivity.
  - reflexivity.
Qed.

(* condition variables: "a delivering notify_all still lies ahead, or the condition holds already",
   and a caller that waits without a token still has that notify_all ahead of it *)
Lemma cv_invariant r :
  a_has_pre r = true -> bounded r = false -> is_event (a_prim r) = false ->
  forall sched acts st w rem st' w',
    (notify_after_cond r acts st = true \/ cond r st = true) ->
    (w = WWait false -> notify_after_cond r acts st = true) ->
    run r sched acts st w = (rem, st', w') ->
    (notify_after_cond r rem st' = true \/ cond r st' = true) /\
    (w' = WWait false -> notify_after_cond r rem st' = true).
Proof.
  intros Hpre Hb He.
  induction sched as [|b s IH]; intros acts st w rem st' w' HP HW H; cbn [run] in H.
  - inversion H; subst. split; assumption.
  - destruct b.
    + destruct acts as [|a rest].
      * eapply IH; eauto.
      * eapply IH; [| |exact H].
        -- destruct HP as [HP|HP].
           ++ cbn [notify_after_cond] in HP. apply orb_true_iff in HP as [HP|HP].
              ** apply andb_true_iff in HP as [_ HP]. right. now apply cond_mono.
              ** now left.
           ++ right. now apply cond_mono.
        -- intros Hw. destruct w as [|tok|]; cbn [deliver] in Hw; try discriminate.
           destruct (delivers r a) eqn:Hd; [discriminate|].
           injection Hw as ->. specialize (HW eq_refl).
           cbn [notify_after_cond] in HW. rewrite Hd in HW. exact HW.
    + eapply IH; [exact HP| |exact H].
      intros Hw. destruct w as [|tok|]; cbn [wstep] in Hw.
      * rewrite Hpre in Hw. cbn [andb] in Hw. destruct (cond r st) eqn:Hc; [discriminate|].
        destruct HP as [HP|HP]; [exact HP|discriminate].
      * unfold enabled in Hw. rewrite Hb, He in Hw. cbn [andb orb] in Hw. rewrite orb_false_r in Hw.
        destruct tok.
        -- destruct (negb (a_loop r) || cond r st) eqn:Hx; [discriminate|].
           apply orb_false_iff in Hx as [_ Hc].
           destruct HP as [HP|HP]; [exact HP|congruence].
        -- apply HW. reflexivity.
      * discriminate.
Qed.

Theorem wake_sound r acts st0 :
  ok r acts st0 = true ->
  forall sched st w, run r sched acts st0 WPre = ([], st, w) -> settle r st w = WDone.
Proof.
  unfold ok. intros Hok sched st w H.
  apply andb_true_iff in Hok as [Hc Hw].
  pose proof (run_state _ _ _ _ _ _ _ _ H) as Hst. cbn [state_after fold_left] in Hst.
  change (fold_left (fun s a => apply_action a s) acts st0) with (state_after acts st0) in Hst.
  destruct (bounded r) eqn:Hb.
  - apply settle_bounded_or_event; [now rewrite Hst | now rewrite Hb].
  - cbn [orb] in Hw. destruct (is_event (a_prim r)) eqn:He.
    + apply settle_bounded_or_event; [now rewrite Hst|]. rewrite Hb, He, Hst, Hw. reflexivity.
    + apply andb_true_iff in Hw as [Hpre Hn].
      destruct (cv_invariant r Hpre Hb He sched acts st0 WPre [] st w (or_introl Hn)
                  ltac:(discriminate) H) as [HP HW].
      cbn [notify_after_cond] in HP, HW.
      destruct HP as [HP|HP]; [discriminate|].
      unfold settle. destruct w as [|tok|]; cbn [wstep].
      * rewrite Hpre, HP. reflexivity.
      * destruct tok; [|specialize (HW eq_refl); discriminate].
        unfold enabled. cbn [orb]. rewrite HP, orb_true_r. reflexivity.
      * reflexivity.
Qed.

Lemma all_ok_current : all_ok api_rows fn_body = true.
Proof. vm_compute. reflexivity. Qed.

Lemma all_ok_In rows body r e :
  all_ok rows body = true -> In r rows -> In e endings -> ok r (actions_with body e) [] = true.
Proof.
  unfold all_ok. intros H Hr He.
  rewrite forallb_forall in H. specialize (H r Hr). rewrite forallb_forall in H. exact (H e He).
Qed.

Lemma every_api r e :
  In r api_rows -> In e endings ->
  forall sched st w, run r sched (ending_actions e) [] WPre = ([], st, w) -> settle r st w = WDone.
Proof.
  intros Hr He. apply wake_sound. exact (all_ok_In _ _ r e all_ok_current Hr He).
Qed.

Lemma ok_with_timeout r acts st0 t : ok r acts st0 = true -> ok (with_timeout r t) acts st0 = true.
Proof.
  unfold ok. intros H. apply andb_true_iff in H as [Hc _].
  change (cond (with_timeout r t) (state_after acts st0)) with (cond r (state_after acts st0)).
  rewrite Hc. reflexivity.
Qed.

Lemma every_api_timeout r e t :
  In r api_rows -> In e endings ->
  forall sched st w,
    run (with_timeout r t) sched (ending_actions e) [] WPre = ([], st, w) ->
    settle (with_timeout r t) st w = WDone.
Proof.
  intros Hr He. apply wake_sound. apply ok_with_timeout.
  exact (all_ok_In _ _ r e all_ok_current Hr He).
Qed.

(* what the criterion (and the semantics) say about the table before the repair *)
Lemma accept_v0_after_close :
  exists sched st w,
    run accept_row_v0 sched (actions_with fn_body_v0 LocalClose) [] WPre = ([], st, w) /\
    settle accept_row_v0 st w = WWait false.
Proof. exists (repeat true 40). eexists. eexists. vm_compute. split; reflexivity. Qed.

Lemma accept_v0_second_waiter :
  exists sched st w,
    run accept_row_v0 sched (actions_with fn_body_v0 PeerClose) [] WPre = ([], st, w) /\
    settle accept_row_v0 st w = WWait false.
Proof. exists (false :: repeat true 40). eexists. eexists. vm_compute. split; reflexivity. Qed.

(* ---------------------------------------------------------------------------------------- *)
(* 2. polling loop                                                                           *)

Lemma poll_gen (period T : Z) : forall trace now i,
  now <= T ->
  (forall t, In t trace -> 0 <= t_dur t <= period) ->
  (forall pre t post, trace = pre ++ t :: post -> T <= time_after pre now + t_dur t -> t_active t = false) ->
  (exists pre t post, trace = pre ++ t :: post /\ T <= time_after pre now + t_dur t) ->
  exists j at_ms,
    (poll trace i now = PollRaised j at_ms \/ poll trace i now = PollBroke j at_ms) /\ at_ms <= T + period.
Proof.
  induction trace as [|t rest IH]; intros now i Hnow Hdur Hact Hex.
  - destruct Hex as [pre [t [post [E _]]]]. destruct pre; discriminate.
  - assert (Hd : 0 <= t_dur t <= period) by (apply Hdur; now left).
    cbn [poll].
    destruct (Z_le_gt_dec T (now + t_dur t)) as [Hge|Hlt].
    + rewrite (Hact [] t rest eq_refl) by (cbn [time_after]; lia). cbn [negb].
      exists i, (now + t_dur t). split; [now left | lia].
    + destruct (t_active t); cbn [negb].
      * destruct (t_event t).
        -- exists i, (now + t_dur t). split; [now right | lia].
        -- apply IH.
           ++ lia.
           ++ intros t' Hin. apply Hdur. now right.
           ++ intros pre t' post E Hle. apply (Hact (t :: pre) t' post).
              ** now rewrite E.
              ** cbn [time_after]. exact Hle.
           ++ destruct Hex as [pre [t' [post [E Hle]]]].
              destruct pre as [|p pre].
              ** cbn [app] in E. injection E as -> ->. cbn [time_after] in Hle. lia.
              ** cbn [app] in E. injection E as -> ->. cbn [time_after] in Hle.
                 exists pre, t', post. split; [reflexivity | exact Hle].
      * exists i, (now + t_dur t). split; [now left | lia].
Qed.

Lemma polling_returns (trace : list tick) (period T : Z) :
  0 <= T ->
  (forall t, In t trace -> 0 <= t_dur t <= period) ->
  (forall pre t post, trace = pre ++ t :: post -> T <= time_after pre 0 + t_dur t -> t_active t = false) ->
  (exists pre t post, trace = pre ++ t :: post /\ T <= time_after pre 0 + t_dur t) ->
  exists j at_ms,
    (poll trace 0 0 = PollRaised j at_ms \/ poll trace 0 0 = PollBroke j at_ms) /\ at_ms <= T + period.
Proof. intros. now apply poll_gen. Qed.

(* ---------------------------------------------------------------------------------------- *)
(* 3. EOF detection                                                                          *)

Lemma read_loop_eof : forall prefix n out cr e rest,
  read_loop prefix n out cr = Raise OutOfFuel ->
  r_res e = RData [] ->
  read_loop (prefix ++ e :: rest) n out cr = Raise EOFErr.
Proof.
  induction prefix as [|p ps IH]; intros n out cr e rest H He.
  - cbn [read_loop app] in *. destruct (n <=? 0); [discriminate|].
    destruct (r_hs_timed_out e); [reflexivity|]. rewrite He. reflexivity.
  - cbn [read_loop app] in *. destruct (n <=? 0); [discriminate|].
    destruct (r_hs_timed_out p); [discriminate|].
    destruct (r_res p) as [x| |[|]].
    + destruct (Nat.eqb (length x) 0); [discriminate|]. now apply IH.
    + destruct (r_closed p); [discriminate|].
      destruct (cr && Nat.eqb (length out) 0 && r_need_rekey p); [discriminate|]. now apply IH.
    + destruct (r_closed p); [discriminate|].
      destruct (cr && Nat.eqb (length out) 0 && r_need_rekey p); [discriminate|]. now apply IH.
    + destruct (r_closed p); discriminate.
Qed.

Lemma read_all_eof rem prefix n cr e rest :
  read_all rem prefix n cr = Raise OutOfFuel ->
  r_res e = RData [] ->
  read_all rem (prefix ++ e :: rest) n cr = Raise EOFErr.
Proof. unfold read_all. apply read_loop_eof. Qed.

Lemma proxy_recv_eof : forall prefix size buf rest,
  proxy_recv prefix size buf = Raise OutOfFuel ->
  exists b, proxy_recv (prefix ++ PRead [] :: rest) size buf = Ok b /\ Z.of_nat (length b) < size.
Proof.
  induction prefix as [|p ps IH]; intros size buf rest H.
  - cbn [proxy_recv app] in *. destruct (size <=? Z.of_nat (length buf)) eqn:E; [discriminate|].
    exists buf. cbn [length Nat.eqb]. split; [reflexivity | lia].
  - cbn [proxy_recv app] in *. destruct (size <=? Z.of_nat (length buf)) eqn:E; [discriminate|].
    destruct p as [| |x|].
    + destruct (Nat.eqb (length buf) 0); discriminate.
    + now apply IH.
    + destruct (Nat.eqb (length x) 0); [discriminate|]. now apply IH.
    + discriminate.
Qed.

(* the loop as it was: at end of file it never terminates, whatever the fuel *)
Lemma proxy_recv_v0_spins : forall k size, 0 < size ->
  proxy_recv_v0 (repeat (PRead []) k) size [] = Raise OutOfFuel.
Proof.
  induction k as [|k IH]; intros size Hs; cbn [repeat proxy_recv_v0 length].
  - destruct (size <=? Z.of_nat 0) eqn:E; [lia | reflexivity].
  - destruct (size <=? Z.of_nat 0) eqn:E; [lia|]. cbn [app]. now apply IH.
Qed.

(* a dead proxy process is reported to the Packetizer as end of file: the empty read that
   ProxyCommand.recv returns makes read_all raise EOFError *)
Lemma proxy_exit_is_eof rem prefix n cr pprefix size rest hs cl nr :
  read_all rem prefix n cr = Raise OutOfFuel ->
  proxy_recv pprefix size [] = Raise OutOfFuel ->
  (forall s, In s pprefix -> s = PNotReady) ->
  exists b, proxy_recv (pprefix ++ PRead [] :: rest) size [] = Ok b /\ b = [] /\
    read_all rem (prefix ++ [mk_rd (RData b) hs cl nr]) n cr = Raise EOFErr.
Proof.
  intros Hr Hp Hall.
  assert (Hb : proxy_recv (pprefix ++ PRead [] :: rest) size [] = Ok []).
  { clear Hr. induction pprefix as [|p ps IH].
    - cbn [proxy_recv app length] in *. destruct (size <=? Z.of_nat 0); [discriminate|]. reflexivity.
    - rewrite (Hall p (or_introl eq_refl)) in *. cbn [proxy_recv app length] in *.
      destruct (size <=? Z.of_nat 0); [discriminate|]. apply IH; [exact Hp|].
      intros s Hs. apply Hall. now right. }
  exists []. split; [exact Hb|]. split; [reflexivity|].
  apply read_all_eof; [exact Hr | reflexivity].
Qed.
