(* C06 -- key exchange agrees on a secret and authenticates the server's host key.
   Model of the client (`_parse_*_reply`) and server (`_parse_*_init`) handlers of
   paramiko/kex_group1.py (inherited by group14/16), kex_gex.py, kex_ecdh_nist.py, kex_curve25519.py
   and of Transport._set_K_H / _verify_key / the K wipe of _parse_newkeys (paramiko/transport.py).
   The exchange-hash layout of every handler (ordered hm.add... calls -> field kind and transcript
   slot), the wire layout of the kex reply, the statements of _set_K_H and the shape of _verify_key
   come from Gen/C06_gen.v, regenerated from the source by gen/c06.py on every run.
   The byte encoders are C39's.  Definitions only; proofs are in Proofs/C06_proofs.v. *)
From PV Require Import Bytes C39 C06_gen.
Open Scope Z_scope.

(* ---- the abstract transcript (V_C, V_S, I_C, I_S, K_S, e, f, K, [min, n, max, p, g], Q_C, Q_S) ---- *)
Record transcript := mkT {
  t_vc : list Z; t_vs : list Z; t_ic : list Z; t_is : list Z; t_ks : list Z;
  t_qc : list Z; t_qs : list Z;
  t_e : Z; t_f : Z; t_k : Z;
  t_min : Z; t_n : Z; t_max : Z; t_p : Z; t_g : Z;
  t_old : bool                    (* KexGex.old_style *)
}.

Definition sget (t : transcript) (s : sslot) : list Z :=
  match s with
  | SVC => t_vc t | SVS => t_vs t | SIC => t_ic t | SIS => t_is t | SKS => t_ks t
  | SQC => t_qc t | SQS => t_qs t
  end.
Definition iget (t : transcript) (i : islot) : Z :=
  match i with
  | SE => t_e t | SF => t_f t | SK => t_k t | SMin => t_min t | SN => t_n t | SMax => t_max t
  | SP => t_p t | SG => t_g t
  end.

(* hm.add(x) / hm.add_string(x) on a str or bytes value, hm.add_mpint(x), hm.add_int(x) *)
Definition entry_field (t : transcript) (e : entry) : field :=
  match e with
  | EStr s => FString (sget t s)
  | EMpint i => FMpint (iget t i)
  | EU32 i => FU32 (iget t i)
  end.

Definition guard_on (old : bool) (g : guard) : bool :=
  match g with GAlways => true | GNotOld => negb old end.

Definition active (old : bool) (lay : list (guard * entry)) : list entry :=
  map snd (filter (fun ge => guard_on old (fst ge)) lay).

Definition hash_fields (f : family) (r : role) (t : transcript) : list field :=
  map (entry_field t) (active (t_old t) (layout f r)).

(* hm.asbytes() at the point where the hash is taken *)
Definition exchange_hash_input (f : family) (r : role) (t : transcript) : result (list Z) :=
  encode_all (hash_fields f r t).

Definition t_wf (f : family) (r : role) (t : transcript) : bool := forallb field_wf (hash_fields f r t).

(* ---- Transport._check_banner: the identification string kept for the exchange hash ------------ *)
(* buf[:buf.find(" ")] when there is a space *)
Fixpoint strip_comment (l : list Z) : list Z :=
  match l with
  | [] => []
  | c :: r => if c =? 32 then [] else c :: strip_comment r
  end.
(* line = what packetizer.readline returned (the peer's line without CR LF) *)
Definition stored_version (line : list Z) : list Z :=
  match banner_stored with BLine => line | BStripped => strip_comment line end.
Definition run_banner (line : list Z) : list Z := stored_version line.

(* ---- Transport.connect(hostkey=...): comparison of the verified server key with the pinned one -- *)
(* name_differs = key.get_name() != hostkey.get_name(); blob_differs = key.asbytes() != hostkey.asbytes() *)
Definition pin_rejects (name_differs blob_differs : bool) : bool :=
  match pin_combine with PinOr => name_differs || blob_differs | PinAnd => name_differs && blob_differs end.
(* connect: Ok tt = goes on to authenticate, Raise SSHExc = "Bad host key from server" *)
Definition connect_pin (server_name pinned_name server_blob pinned_blob : list Z) : result unit :=
  if pin_rejects (negb (zlist_eqb server_name pinned_name)) (negb (zlist_eqb server_blob pinned_blob))
  then Raise SSHExc else Ok tt.
Definition run_pin (c : list Z * list Z * list Z * list Z) : list Z :=
  let '(a, b, x, y) := c in
  match connect_pin a b x y with Ok _ => [0] | Raise e => [exn_code e] end.

(* ---- Transport state touched by the exchange ------------------------------------------------ *)
Inductive pyval := PInt (z : Z) | PBytes (b : list Z).

Record tstate := mkS {
  s_K : option pyval; s_H : option pyval; s_sid : option pyval;
  s_hostkey : option (list Z)       (* blob the stored host key object was built from *)
}.
Definition init_state : tstate := mkS None None None None.

Definition run_setkh_stmt (k h : pyval) (st : tstate) (s : setkh_stmt) : tstate :=
  let v a := match a with AK => k | AH => h end in
  match s with
  | AssignK a => mkS (Some (v a)) (s_H st) (s_sid st) (s_hostkey st)
  | AssignH a => mkS (s_K st) (Some (v a)) (s_sid st) (s_hostkey st)
  | AssignSid a => mkS (s_K st) (s_H st) (Some (v a)) (s_hostkey st)
  | LatchSid a =>      (* if self.session_id is None: self.session_id = a *)
      match s_sid st with
      | None => mkS (s_K st) (s_H st) (Some (v a)) (s_hostkey st)
      | Some _ => st
      end
  end.

(* Transport._set_K_H(k, h): the generated statement list, in order *)
Definition set_K_H (st : tstate) (k : Z) (h : list Z) : tstate :=
  fold_left (run_setkh_stmt (PInt k) (PBytes h)) setkh_prog st.

(* Transport._parse_newkeys: self.K = None (H and session_id stay) *)
Definition newkeys (st : tstate) : tstate := mkS None (s_H st) (s_sid st) (s_hostkey st).

Inductive kexevent := EvKex (k : Z) (h : list Z) | EvNewkeys.
Definition step (st : tstate) (e : kexevent) : tstate :=
  match e with EvKex k h => set_K_H st k h | EvNewkeys => newkeys st end.
Definition run_events (st : tstate) (l : list kexevent) : tstate := fold_left step l st.

(* H of the first exchange in an event list *)
Fixpoint first_H (l : list kexevent) : option (list Z) :=
  match l with
  | [] => None
  | EvKex _ h :: _ => Some h
  | EvNewkeys :: r => first_H r
  end.

(* the kex reply as it travels: host key blob, server public value (mpint for the DH families,
   string for ECDH / X25519; only the one the family's wire layout names is on the wire), signature *)
Record reply := mkR { r_ks : list Z; r_f : Z; r_qs : list Z; r_sig : list Z }.

Definition wire_field (r : reply) (w : wire) : field :=
  match w with
  | WKS => FString (r_ks r) | WPubMpint => FMpint (r_f r) | WPubStr => FString (r_qs r)
  | WSig => FString (r_sig r)
  end.
(* the public-value field of the reply as the client reads it *)
Definition wire_pub (f : family) (r : reply) : field := wire_field r (nth 1 (reply_read f) WSig).

(* the public values: e and f as mpints for the DH families, Q_C and Q_S as strings otherwise *)
Definition pub_entries (f : family) : entry * entry :=
  match secret_form f with KPow => (EMpint SE, EMpint SF) | KLib => (EStr SQC, EStr SQS) end.

(* r' differs from r in one field of the wire: the signature is kept and the host key blob or the
   public value differs, or only the signature differs *)
Definition single_fault (f : family) (r r' : reply) : Prop :=
  (r_sig r' = r_sig r /\ (r_ks r' <> r_ks r \/ wire_pub f r' <> wire_pub f r)) \/
  (r_ks r' = r_ks r /\ r_f r' = r_f r /\ r_qs r' = r_qs r /\ r_sig r' <> r_sig r).

Section Crypto.
  (* library primitives: the engine's hash, the host key's sign / verify, the EC scalar
     multiplications of `cryptography` *)
  Variable hash : list Z -> list Z.
  Variable sign : Z -> list Z -> list Z.            (* key owner, data *)
  Variable verify : list Z -> list Z -> list Z -> bool.   (* public key blob, data, signature blob *)
  Variable sig_alg_ok : list Z -> bool.   (* the signature blob names the negotiated host key algorithm *)
  Variable sig_canonical : list Z -> bool.   (* the signature blob is exactly two strings, nothing after them *)
  Variable pubblob : Z -> list Z.                   (* key owner -> public key blob (asbytes) *)
  Variable ec_pub : family -> Z -> list Z.           (* private scalar -> encoded public value *)
  Variable ec_dh : family -> Z -> list Z -> Z.       (* exchange(private, peer public) as an integer *)

  (* Transport._verify_key(host_key, sig) *)
  Definition vsrc_val (st : tstate) : option pyval :=
    match verify_over with VH => s_H st | VK => s_K st | VSid => s_sid st end.

  Definition verify_key (st : tstate) (host_key sig : list Z) : result tstate :=
    match vsrc_val st with
    | Some (PBytes d) =>
        let kb := if verify_key_from_arg then host_key else [] in
        let sb := if verify_sig_from_arg then sig else [] in
        let stored := if verify_stores_key then mkS (s_K st) (s_H st) (s_sid st) (Some kb) else st in
        if (verify_alg_guard && negb (sig_alg_ok sig)) || (verify_canonical_guard && negb (sig_canonical sig))
        then Raise SSHExc
        else if verify kb d sb then Ok stored
        else if verify_raises then Raise SSHExc else Ok stored
    | _ => Raise TypeErr
    end.

  (* K = pow(peer value, self.x, p)   or   K = int(hexlify(exchange(peer public)), 16) *)
  Definition client_secret (f : family) (x : Z) (t : transcript) : Z :=
    match secret_form f with
    | KPow => t_f t ^ x mod t_p t
    | KLib => ec_dh f x (t_qs t)
    end.
  Definition server_secret (f : family) (y : Z) (t : transcript) : Z :=
    match secret_form f with
    | KPow => t_e t ^ y mod t_p t
    | KLib => ec_dh f y (t_qc t)
    end.

  Definition with_reply (t : transcript) (ks : list Z) (fv : Z) (qs : list Z) (k : Z) : transcript :=
    mkT (t_vc t) (t_vs t) (t_ic t) (t_is t) ks (t_qc t) qs (t_e t) fv k
        (t_min t) (t_n t) (t_max t) (t_p t) (t_g t) (t_old t).

  (* the client's own public value, computed in start_kex / _parse_kexdh_gex_group *)
  Definition with_client_pub (f : family) (x : Z) (t : transcript) : transcript :=
    mkT (t_vc t) (t_vs t) (t_ic t) (t_is t) (t_ks t)
        (match secret_form f with KPow => t_qc t | KLib => ec_pub f x end) (t_qs t)
        (match secret_form f with KPow => t_g t ^ x mod t_p t | KLib => t_e t end) (t_f t) (t_k t)
        (t_min t) (t_n t) (t_max t) (t_p t) (t_g t) (t_old t).

  (* client: _parse_kexdh_reply / _parse_kexdh_gex_reply / _parse_kexecdh_reply.
     t0 holds what the client knows before the reply (versions, KEXINITs, its own public value,
     group parameters); x is its private value. *)
  Definition client_transcript (f : family) (x : Z) (t0 : transcript) (r : reply) : transcript :=
    let t1 := with_reply t0 (r_ks r) (r_f r) (r_qs r) 0 in
    with_reply t0 (r_ks r) (r_f r) (r_qs r) (client_secret f x t1).

  Definition client_handle (f : family) (x : Z) (t0 : transcript) (st : tstate) (r : reply) : result tstate :=
    let t := client_transcript f x t0 r in
    bind (exchange_hash_input f Client t) (fun bs =>
      verify_key (set_K_H st (t_k t) (hash bs)) (r_ks r) (r_sig r)).

  (* server: _parse_kexdh_init / _parse_kexdh_gex_init / _parse_kexecdh_init.
     t0 holds what the server knows after reading the client's public value; y is its private
     value, owner the holder of the host key. *)
  Definition server_transcript (f : family) (y owner : Z) (t0 : transcript) : transcript :=
    let fv := match secret_form f with KPow => t_g t0 ^ y mod t_p t0 | KLib => t_f t0 end in
    let qs := match secret_form f with KPow => t_qs t0 | KLib => ec_pub f y end in
    with_reply t0 (pubblob owner) fv qs (server_secret f y t0).

  Definition server_handle (f : family) (y owner : Z) (t0 : transcript) (st : tstate) : result (tstate * reply) :=
    let t := server_transcript f y owner t0 in
    bind (exchange_hash_input f Server t) (fun bs =>
      let h := hash bs in
      Ok (set_K_H st (t_k t) h, mkR (t_ks t) (t_f t) (t_qs t) (sign owner h))).
End Crypto.

(* ---- correspondence run ----------------------------------------------------------------------- *)
Definition role_of (z : Z) : role := if z =? 0 then Client else Server.
Definition family_of (z : Z) : family :=
  if z =? 0 then FGroup else if z =? 1 then FGex else if z =? 2 then FEcdh else FX25519.

(* the exchange hash input a handler builds on a recorded transcript: 0 :: bytes, or the exception code *)
Definition run_hash_input (c : Z * Z * transcript) : list Z :=
  let '(f, r, t) := c in canon_result (exchange_hash_input (family_of f) (role_of r) t).

(* fast modular exponentiation (square and multiply), used only to evaluate K on recorded values;
   proved equal to the specification x ^ n mod p in the proofs *)
Fixpoint modpow_pos (a : Z) (n : positive) (p : Z) : Z :=
  match n with
  | xH => a mod p
  | xO n' => let b := modpow_pos a n' p in (b * b) mod p
  | xI n' => let b := modpow_pos a n' p in ((b * b) mod p * (a mod p)) mod p
  end.
Definition modpow (a n p : Z) : Z :=
  match n with
  | Z0 => 1 mod p
  | Zpos n' => modpow_pos a n' p
  | Zneg _ => 0
  end.

(* (g, p, x, y) -> [e; f; K_client; K_server] through the fast evaluator *)
Definition run_dh (c : Z * Z * Z * Z) : list Z :=
  let '(g, p, x, y) := c in
  let e := modpow g x p in
  let f := modpow g y p in
  [e; f; modpow f x p; modpow e y p].

(* session id after a list of exchanges: k, h per exchange, each followed by NEWKEYS.
   Output: tag 0/1 (unset/set) :: session id bytes, -1, tag :: H bytes *)
Definition canon_pv (v : option pyval) : list Z :=
  match v with
  | None => [0]
  | Some (PBytes b) => 1 :: b
  | Some (PInt z) => [2; z]
  end.
Definition run_latch (l : list (Z * list Z)) : list Z :=
  let st := run_events init_state (flat_map (fun kh => [EvKex (fst kh) (snd kh); EvNewkeys]) l) in
  canon_pv (s_sid st) ++ [(-1)] ++ canon_pv (s_H st) ++ [(-1)] ++ canon_pv (s_K st).
