(* C41 — known-hosts lookup, save and reload agree; loading is idempotent.
   Property statements only; every proof is `exact <lemma from Proofs/C41_proofs.v>`.
   hm is the host-hash oracle (which plain names a hashed token stands for); every theorem
   holds for every oracle, every table and every file, of any size. *)
From PV Require Import Bytes C41_gen C41 C41_proofs.
Open Scope Z_scope.

(* lookup returns exactly the entries that list the hostname (plain or hashed), in table
   order: it equals the table filtered by any decision procedure for `lists`; it is empty
   (Python: None) exactly when no entry lists the host *)
Theorem C41_lookup_spec :
  forall (hm : hmap) (st : state) (q : name),
    (forall e, In e (lookup hm st q) <-> In e st /\ lists hm q e) /\
    (forall f : entry -> bool, (forall e, f e = true <-> lists hm q e) -> lookup hm st q = filter f st) /\
    (lookup hm st q = [] <-> forall e, In e st -> ~ lists hm q e).
Proof. exact lookup_spec. Qed.
Print Assumptions C41_lookup_spec.

(* the key reported for a key type is the key of the FIRST entry of the table that lists the
   host and has that type *)
Theorem C41_first_per_type :
  forall (hm : hmap) (st : state) (q : name) (t : Z) (k : key),
    eff hm st q t = Some k <->
    exists s1 e s2, st = s1 ++ e :: s2 /\ lists hm q e /\ ktype (snd e) = t /\ snd e = k /\
      forall e', In e' s1 -> ~ (lists hm q e' /\ ktype (snd e') = t).
Proof. exact first_per_type. Qed.
Print Assumptions C41_first_per_type.

(* check(host, key) is true exactly when key is that effective key; at most one key per type
   passes *)
Theorem C41_check_iff :
  forall (hm : hmap) (st : state) (q : name) (k : key),
    (check hm st q k = true <-> eff hm st q (ktype k) = Some k) /\
    (check hm st q k = true <->
     exists s1 e s2, st = s1 ++ e :: s2 /\ lists hm q e /\ snd e = k /\
       forall e', In e' s1 -> ~ (lists hm q e' /\ ktype (snd e') = ktype k)) /\
    (forall k', check hm st q k = true -> check hm st q k' = true -> ktype k' = ktype k -> k' = k).
Proof. exact check_spec. Qed.
Print Assumptions C41_check_iff.

(* saving and loading the saved file into an empty table gives the same effective key for
   every host and key type, the same check() results and the same found / not found answer *)
Theorem C41_save_reload :
  forall (hm : hmap) (st : state),
    (forall q t, eff hm (load hm [] (save st)) q t = eff hm st q t) /\
    (forall q k, check hm (load hm [] (save st)) q k = check hm st q k) /\
    (forall q, lookup hm (load hm [] (save st)) q = [] <-> lookup hm st q = []).
Proof. exact save_reload. Qed.
Print Assumptions C41_save_reload.

(* loading a file into any table and then loading the same file again leaves the table
   itself unchanged, hence lookups, SubDict key lists, check(), keys() and the saved output *)
Theorem C41_load_idempotent :
  forall (hm : hmap) (st : state) (f : list line),
    let st1 := load hm st f in
    load hm st1 f = st1 /\
    (forall q, lookup hm (load hm st1 f) q = lookup hm st1 q) /\
    (forall q, subdict_keys (lookup hm (load hm st1 f) q) = subdict_keys (lookup hm st1 q)) /\
    (forall q k, check hm (load hm st1 f) q k = check hm st1 q k) /\
    keys (load hm st1 f) = keys st1 /\
    save (load hm st1 f) = save st1.
Proof. exact load_idempotent. Qed.
Print Assumptions C41_load_idempotent.

(* a line whose key field is not base64 (truncated key, @cert-authority / @revoked marker line)
   makes load raise InvalidHostKey after the lines before it; loading that file again raises
   again and leaves the table as the first attempt left it *)
Theorem C41_load_idempotent_raising :
  forall (hm : hmap) (st : state) (f : list tline),
    let r := load_t hm st f in load_t hm (fst r) f = r.
Proof. exact load_t_idempotent. Qed.
Print Assumptions C41_load_idempotent_raising.

(* hostkeys[q][t] = k (SubDict.__setitem__) makes k the effective key of q: it replaces the
   first listing entry of that type, whichever name (plain or hashed) lists q *)
Theorem C41_subdict_set_effective :
  forall (hm : hmap) (st : state) (q : name) (t : Z) (k : key) (st' : state),
    ktype k = t -> sub_set hm st q t k = Ok st' ->
    eff hm st' q t = Some k /\ check hm st' q k = true.
Proof. exact sub_set_effective. Qed.
Print Assumptions C41_subdict_set_effective.

(* the source shape the loader of the model was selected by (gen/c41.py, fail-closed) *)
Theorem C41_source_shape :
  gen_load_iterates_copy = true /\ gen_load_uses_has_entry = true /\ gen_shapes_pinned = true.
Proof. exact (conj eq_refl (conj eq_refl eq_refl)). Qed.
Print Assumptions C41_source_shape.

(* the loop of the repaired load (remove from the list while iterating over a copy of it)
   drops exactly the names already known with that key *)
Theorem C41_prune_is_filter :
  forall (known : name -> bool) (names : list name),
    prune known names = filter (fun h => negb (known h)) names.
Proof. exact prune_filter. Qed.
Print Assumptions C41_prune_is_filter.

(* the loader before the repair (index-based iteration over the list being shrunk, duplicate
   test by check()) is not idempotent: the line "a,b,c key" loaded twice adds an entry [b] *)
Theorem C41_load_idempotent_v0_refuted :
  exists hm f, load_v0 hm (load_v0 hm [] f) f <> load_v0 hm [] f.
Proof. exact load_v0_refuted. Qed.
Print Assumptions C41_load_idempotent_v0_refuted.

(* iterating over a copy alone is not enough: with check() as duplicate test a key shadowed
   by an earlier key of the same type ("a K1" / "a K2") is appended again by every load *)
Theorem C41_load_idempotent_v1_refuted :
  exists hm f, load_v1 hm (load_v1 hm [] f) f <> load_v1 hm [] f.
Proof. exact load_v1_refuted. Qed.
Print Assumptions C41_load_idempotent_v1_refuted.

(* non-vacuity: a table with a hashed entry, a multi-host entry and a shadowed key *)
Definition ex_hm : hmap := [(1, 7)].                       (* token 7 is the hash of host 1 *)
Definition ex_st : state :=
  [([Nm true 7], (1, 10)); ([Nm false 1; Nm false 2], (1, 11)); ([Nm false 1], (2, 12))].

Example C41_example_lookup :
  lookup ex_hm ex_st (Nm false 1) = ex_st /\
  eff ex_hm ex_st (Nm false 1) 1 = Some (1, 10) /\
  eff ex_hm ex_st (Nm false 2) 1 = Some (1, 11) /\
  check ex_hm ex_st (Nm false 1) (1, 10) = true /\
  check ex_hm ex_st (Nm false 1) (1, 11) = false /\
  check ex_hm ex_st (Nm false 1) (2, 12) = true.
Proof. vm_compute. repeat split. Qed.

Example C41_example_subset :
  sub_set ex_hm ex_st (Nm false 1) 1 (1, 13) =
    Ok [([Nm true 7], (1, 13)); ([Nm false 1; Nm false 2], (1, 11)); ([Nm false 1], (2, 12))] /\
  load_t ex_hm ex_st [TLine (LEntry [Nm false 3] (1, 10)); TBad; TLine (LEntry [Nm false 4] (1, 10))] =
    (ex_st ++ [([Nm false 3], (1, 10))], 101).
Proof. vm_compute. repeat split. Qed.

Example C41_example_reload :
  load ex_hm [] (save ex_st) = ex_st /\
  load ex_hm ex_st (save ex_st) = ex_st /\
  load ex_hm ex_st [LEntry [Nm false 1; Nm false 3] (1, 10); LSkip] = ex_st ++ [([Nm false 3], (1, 10))].
Proof. vm_compute. repeat split. Qed.
