(* C44 -- model of paramiko/auth_strategy.py AuthStrategy.authenticate.  Definitions only.

   A source is identified by an integer; what its authenticate(transport) does is an oracle
   paired with it:
     Returns v  -- returns normally with value number v (whatever the value is, even an empty
                   or falsy one: the loop sets succeeded = True)
     Raises e   -- raises exception number e, an instance of Exception (caught by the loop)
     Escapes e  -- raises a BaseException that is not an Exception (KeyboardInterrupt,
                   SystemExit...): not caught, propagates out of authenticate *)
From PV Require Import Bytes.
Open Scope Z_scope.

Inductive outcome := Returns (v : Z) | Raises (e : Z) | Escapes (e : Z).

Definition source := (Z * outcome)%type.

(* SourceResult(source, result): the source and the value returned / exception caught *)
Definition source_result := (Z * outcome)%type.

Inductive final :=
  | Success (overall : list source_result)          (* return overall_result *)
  | AuthFailure (overall : list source_result)      (* raise AuthFailure(result=overall_result) *)
  | Propagated (e : Z) (overall : list source_result) (tried : Z).
                                                    (* exception e left authenticate while trying `tried` *)

(* the for loop; `overall` is overall_result so far.  The generator is advanced only when the
   loop asks for the next source, so the sources after a break are never produced. *)
Fixpoint auth_loop (srcs : list source) (overall : list source_result) : final :=
  match srcs with
  | [] => AuthFailure overall                        (* loop ended with succeeded = False *)
  | (s, o) :: rest =>
      match o with
      | Returns v => Success (overall ++ [(s, o)])   (* append, then break *)
      | Raises e => auth_loop rest (overall ++ [(s, o)])
      | Escapes e => Propagated e overall s
      end
  end.

Definition authenticate (srcs : list source) : final := auth_loop srcs [].

(* the sources whose authenticate() was called, in call order *)
Definition called (f : final) : list Z :=
  match f with
  | Success ov | AuthFailure ov => map fst ov
  | Propagated _ ov s => map fst ov ++ [s]
  end.

Definition is_raise (x : source) : bool := match snd x with Raises _ => true | _ => false end.
Definition is_return (x : source) : bool := match snd x with Returns _ => true | _ => false end.

(* every source of the list raised an exception the loop catches *)
Definition all_raise (l : list source) : Prop := forallb is_raise l = true.

(* ---- canonical output for the correspondence run -------------------------- *)
Definition canon_outcome (o : outcome) : list Z :=
  match o with Returns v => [0; v] | Raises e => [1; e] | Escapes e => [2; e] end.

Definition canon_results (ov : list source_result) : list Z :=
  flat_map (fun x => fst x :: canon_outcome (snd x)) ov.

(* events: 1 s = the generator produced source s, 2 s = s.authenticate was called *)
Definition events (f : final) : list Z := flat_map (fun s => [1; s; 2; s]) (called f).

Definition run_auth (srcs : list source) : list Z :=
  let f := authenticate srcs in
  match f with
  | Success ov => 0 :: canon_results ov
  | AuthFailure ov => 1 :: canon_results ov
  | Propagated e ov s => [2; e]
  end ++ [-1] ++ events f.
