From PV Require Import Bytes C42 C42_proofs FileSpec C27 C27_proofs.
Open Scope Z_scope.
Theorem C27_placeholder : MAX_REQUEST_SIZE = 32768.
Proof. exact c27_placeholder. Qed.
Print Assumptions C27_placeholder.
