"""C06 translator: exchange-hash transcript layout of every kex engine, the wire layout of the
server's kex reply, and the bodies of Transport._set_K_H / Transport._verify_key.

generate(repo) -> {"C06_gen.v": text}

Fail-closed.  From the working tree `repo` (pure AST, nothing is imported):
 * for kex_group1.KexGroup1, kex_gex.KexGex, kex_ecdh_nist.KexNistp256, kex_curve25519.KexCurve25519
   the client handler (`_parse_*_reply`) and the server handler (`_parse_*_init`) are walked;
   every call on the hash message `hm` (`hm.add(..)`, `hm.add_string`, `hm.add_mpint`, `hm.add_int`,
   possibly under `if not self.old_style:`) becomes one layout entry (guard, kind, slot); the value
   expression of each call is resolved by data flow to an abstract transcript slot, per role
   (client: transport.local_version = V_C ..., first value read from the reply = K_S; server:
   transport.remote_version = V_C ..., get_server_key().asbytes() = K_S, ...).  Anything else that
   touches `hm`, or a value that does not resolve, aborts;
 * the hash handed to `_set_K_H` must be `self.hash_algo(hm.asbytes()).digest()` taken after the
   last `hm.add*`; the server signs that same H; the client passes to `_verify_key` the very value
   it hashed as K_S and the third value read from the reply;
 * the server's reply message fields (after the type byte) and the client's reads of it;
 * subclasses (group14/16, gex-sha256, nistp384/521) must not define any method (only constants);
 * Transport._set_K_H is translated statement by statement into a small program (assignments of
   K, H, session_id; the `if self.session_id is None` latch); Transport._verify_key must have the
   shape  key = <key class>(Message(host_key)); [if key is None: raise]; if not
   key.verify_ssh_sig(<self.X>, Message(sig)): <raise or not>; self.host_key = key  and yields which
   attribute is verified (H / K / session_id), whether a failed verify raises, and whether the key
   is built from the `host_key` argument and the signature from the `sig` argument.  The verify call
   must be the whole (negated) condition -- a conjunction / disjunction around it is refused.  One
   extra rejection `expected = self.host_key_type.replace(..); if Message(sig).get_binary() !=
   b(expected): raise SSHException` before the check is recognised (verify_alg_guard), and so is the
   strict-blob test `x = Message(sig); x.get_binary(); x.get_binary(); if x.get_remainder(): raise`
   (verify_canonical_guard);
 * Transport.connect: the pinned `hostkey` comparison after start_client() -- (key.get_name() !=
   hostkey.get_name()) <or/and> (key.asbytes() != hostkey.asbytes()), raising SSHException, before any
   self.auth_* call (pin_combine);
 * Transport._check_banner: what is stored in self.remote_version -- the line read from the peer, or
   `buf` after it was re-bound to a slice of itself (banner_stored).
"""
import ast
import os
import sys


class Unrecognised(Exception):
    pass


def dotted(node):
    parts = []
    while isinstance(node, ast.Attribute):
        parts.append(node.attr)
        node = node.value
    if isinstance(node, ast.Name):
        parts.append(node.id)
        return ".".join(reversed(parts))
    return None


def parse_module(repo, rel):
    path = os.path.join(repo, "paramiko", rel)
    return ast.parse(open(path).read(), path)


def class_def(tree, name, rel):
    for n in tree.body:
        if isinstance(n, ast.ClassDef) and n.name == name:
            return n
    raise Unrecognised("class %s not found in %s" % (name, rel))


def methods(cls):
    return {f.name: f for f in cls.body if isinstance(f, ast.FunctionDef)}


def is_call(n, name=None):
    return isinstance(n, ast.Call) and (name is None or dotted(n.func) == name)


HASH_SHAPE = "self.hash_algo(hm.asbytes()).digest()"


def is_hash_of_hm(n):
    """self.hash_algo(hm.asbytes()).digest()"""
    if not (isinstance(n, ast.Call) and isinstance(n.func, ast.Attribute) and n.func.attr == "digest"
            and not n.args and not n.keywords):
        return False
    inner = n.func.value
    if not (is_call(inner, "self.hash_algo") and len(inner.args) == 1 and not inner.keywords):
        return False
    a = inner.args[0]
    return is_call(a, "hm.asbytes") and not a.args and not a.keywords


TATTR = {
    "client": {"local_version": "SVC", "remote_version": "SVS", "local_kex_init": "SIC", "remote_kex_init": "SIS"},
    "server": {"remote_version": "SVC", "local_version": "SVS", "remote_kex_init": "SIC", "local_kex_init": "SIS"},
}
SATTR_INT = {"min_bits": "SMin", "preferred_bits": "SN", "max_bits": "SMax", "p": "SP", "g": "SG"}
STR_SLOTS = {"SVC", "SVS", "SIC", "SIS", "SKS", "SQC", "SQS"}
INT_SLOTS = {"SE", "SF", "SK", "SMin", "SN", "SMax", "SP", "SG"}
READ_KIND = {"get_string": "str", "get_binary": "str", "get_mpint": "mpint"}


class HandlerWalk:
    """One `_parse_*` handler: flat list of (statement, guard) in source order + data flow tables."""

    def __init__(self, fn, role, where):
        self.fn = fn
        self.role = role
        self.where = where
        self.flat = []           # (stmt, guard)
        self.flatten(fn.body, "GAlways")
        self.reads = []          # (target dotted, kind) in order, reads of the incoming message `m`
        self.assigns = {}        # dotted target -> list of (index, value node)
        self.m_epoch = 0         # number of `m = Message()` re-bindings seen so far
        self.layout = []         # (guard, kind, slot)
        self.hm_last_add = -1
        self.hash_at = None
        self.reply = []          # server: fields added to the outgoing message
        self.setkh = None
        self.verify = None
        self.sign = None
        self.scan()

    def fail(self, msg, node=None):
        raise Unrecognised("%s: %s%s" % (self.where, msg, " (line %d)" % node.lineno if node is not None else ""))

    def flatten(self, body, guard):
        for st in body:
            if isinstance(st, ast.Expr) and isinstance(st.value, ast.Constant) and isinstance(st.value.value, str):
                continue
            if isinstance(st, ast.If):
                names = {dotted(c.func) for c in ast.walk(st) if isinstance(c, ast.Call)}
                touches = any(isinstance(n, ast.Name) and n.id == "hm" for n in ast.walk(st))
                if not touches:
                    # range tests etc. (C08's subject): must not contain transport calls
                    if any(n and n.startswith("self.transport._") and n != "self.transport._log" for n in names):
                        self.fail("transport call under a condition", st)
                    self.flat.append((st, guard))
                    continue
                t = st.test
                if guard == "GAlways" and not st.orelse and isinstance(t, ast.UnaryOp) and isinstance(t.op, ast.Not) \
                        and dotted(t.operand) == "self.old_style":
                    self.flatten(st.body, "GNotOld")
                    continue
                self.fail("hash message touched under an unrecognised condition", st)
            elif isinstance(st, (ast.Assign, ast.Expr)):
                self.flat.append((st, guard))
            elif isinstance(st, ast.Return) and st.value is None:
                self.flat.append((st, guard))
            else:
                self.fail("unrecognised statement %s" % type(st).__name__, st)

    # ---- data flow ---------------------------------------------------------------------------
    def last_assign(self, name, before):
        hits = [(i, v) for i, v in self.assigns.get(name, []) if i < before]
        if not hits:
            self.fail("%s is used before being assigned" % name)
        return hits[-1]

    def resolve(self, node, at):
        """value expression -> slot name"""
        if isinstance(node, ast.Call) and dotted(node.func) == "int" and len(node.args) == 1 and not node.keywords:
            return self.resolve(node.args[0], at)
        d = dotted(node)
        if d is not None and d.startswith("self.transport."):
            a = d[len("self.transport."):]
            if a in TATTR[self.role]:
                return TATTR[self.role][a]
            self.fail("transport attribute %r is not a transcript value" % a, node)
        if d is not None and d.startswith("self.") and d.count(".") == 1:
            a = d[5:]
            if a in SATTR_INT:
                return SATTR_INT[a]
            if a in ("e", "f"):
                # the peer's value must come from the incoming message; our own is computed earlier
                peer = "f" if self.role == "client" else "e"
                if a == peer:
                    i, v = self.last_assign(d, at)
                    want = 1 if self.role == "client" else 0
                    if not (is_call(v, "m.get_mpint") and self.read_index(d) == want):
                        self.fail("%s is not read with get_mpint() at position %d of the message" % (d, want), node)
                elif d in self.assigns and self.fn.name != "_parse_kexdh_gex_init":
                    self.fail("%s (own public value) is re-assigned in the handler" % d, node)
                return "SE" if a == "e" else "SF"
            self.fail("attribute %r is not a transcript value" % d, node)
        if isinstance(node, ast.Name):
            if node.id == "K":
                self.check_K(at)
                return "SK"
            i, v = self.last_assign(node.id, at)
            if len([1 for j, _ in self.assigns[node.id]]) != 1:
                self.fail("%s is assigned more than once" % node.id, node)
            return self.resolve_rhs(node.id, v, i)
        if isinstance(node, ast.Call):
            return self.resolve_rhs(None, node, at)
        self.fail("value expression %s does not resolve" % ast.dump(node)[:120], node)

    def read_index(self, target):
        idx = [k for k, (t, _) in enumerate(self.reads) if t == target]
        if len(idx) != 1:
            self.fail("%s is read %d times" % (target, len(idx)))
        return idx[0]

    def resolve_rhs(self, name, v, at):
        if isinstance(v, ast.Call):
            fn = dotted(v.func)
            if fn in ("m.get_string", "m.get_binary") and name is not None:
                k = self.read_index(name)
                if self.role == "client":
                    return {0: "SKS", 1: "SQS"}.get(k) or self.fail("read #%d of the reply is hashed" % k, v)
                return {0: "SQC"}.get(k) or self.fail("read #%d of the init message is hashed" % k, v)
            if isinstance(v.func, ast.Attribute) and v.func.attr == "asbytes" and is_call(v.func.value, "self.transport.get_server_key") \
                    and not v.args:
                if self.role != "server":
                    self.fail("client hashes its own server key", v)
                return "SKS"
            if isinstance(v.func, ast.Attribute) and v.func.attr == "public_bytes":
                recv = v.func.value
                rd = dotted(recv)
                if rd is None and isinstance(recv, ast.Call) and dotted(recv.func) == "self.key.public_key" and not recv.args:
                    rd = "self.key.public_key()"
                own = {"client": ("self.Q_C", "self.key.public_key()"), "server": ("self.Q_S", "self.key.public_key()")}[self.role]
                if rd not in own:
                    self.fail("public_bytes() of %r is not this side's own ephemeral key" % rd, v)
                return "SQC" if self.role == "client" else "SQS"
        self.fail("value %s does not resolve to a transcript slot" % ast.dump(v)[:120], v)

    def check_K(self, at):
        vals = [v for i, v in self.assigns.get("K", []) if i < at]
        if not vals:
            self.fail("K used before assignment")
        first = vals[0]
        fn = dotted(first.func) if isinstance(first, ast.Call) else None
        peer = "self.f" if self.role == "client" else "self.e"
        if fn == "pow":
            if not (len(vals) == 1 and len(first.args) == 3 and dotted(first.args[0]) == peer
                    and dotted(first.args[1]) == "self.x" and dotted(first.args[2]) in ("self.P", "self.p")):
                self.fail("K is not pow(%s, self.x, <modulus>)" % peer, first)
            self.kform = "KPow"
        elif fn in ("self.P.exchange", "self._perform_exchange"):
            if len(vals) != 2:
                self.fail("K is assigned %d times" % len(vals), first)
            c = vals[1]
            ok = is_call(c) and dotted(c.func) == "int" and len(c.args) == 2 and isinstance(c.args[1], ast.Constant) \
                and c.args[1].value == 16 and is_call(c.args[0]) and dotted(c.args[0].func) in ("hexlify", "binascii.hexlify") \
                and len(c.args[0].args) == 1 and dotted(c.args[0].args[0]) == "K"
            if not ok:
                self.fail("K is not int(hexlify(<exchange result>), 16)", c)
            self.kform = "KLib"
        else:
            self.fail("K is computed by an unrecognised expression", first)

    # ---- the scan ------------------------------------------------------------------------------
    def scan(self):
        hm_bound = None
        for i, (st, guard) in enumerate(self.flat):
            if isinstance(st, ast.If) or isinstance(st, ast.Return):
                continue
            # every mention of `hm` must be one of: hm = Message(); hm.add*(..) statement; hm.asbytes()
            mentions = [n for n in ast.walk(st) if isinstance(n, ast.Name) and n.id == "hm"]
            if isinstance(st, ast.Assign):
                if len(st.targets) != 1:
                    self.fail("multiple assignment targets", st)
                tgt = st.targets[0]
                d = dotted(tgt)
                if d is None:
                    self.fail("unrecognised assignment target", st)
                if d == "hm":
                    if hm_bound is not None or guard != "GAlways" or not (is_call(st.value, "Message") and not st.value.args):
                        self.fail("hm must be bound exactly once to Message()", st)
                    hm_bound = i
                    continue
                if d == "m":
                    if not (is_call(st.value, "Message") and not st.value.args):
                        self.fail("m re-bound to something other than Message()", st)
                    self.m_epoch += 1
                    continue
                self.assigns.setdefault(d, []).append((i, st.value))
                v = st.value
                if isinstance(v, ast.Call) and dotted(v.func) in ("m.get_string", "m.get_binary", "m.get_mpint"):
                    if self.m_epoch:
                        self.fail("read of the outgoing message", st)
                    self.reads.append((d, READ_KIND[dotted(v.func).split(".")[1]]))
                if mentions:
                    if d == "H" and is_hash_of_hm(v) and len(mentions) == 1:
                        if self.hash_at is not None:
                            self.fail("hash of hm taken twice", st)
                        self.hash_at = i
                    else:
                        self.fail("hm used in an unrecognised assignment", st)
                if isinstance(v, ast.Call) and isinstance(v.func, ast.Attribute) and v.func.attr == "sign_ssh_data":
                    if not is_call(v.func.value, "self.transport.get_server_key"):
                        self.fail("signature not made with transport.get_server_key()", st)
                    if self.sign is not None:
                        self.fail("two signatures", st)
                    self.sign = (i, d, v)
                continue
            # expression statement
            c = st.value
            if not isinstance(c, ast.Call):
                self.fail("unrecognised expression statement", st)
            fn = dotted(c.func)
            if fn is not None and fn.startswith("hm."):
                if hm_bound is None or c.keywords:
                    self.fail("hm used before Message()", st)
                if len(mentions) != 1:
                    self.fail("hm mentioned inside its own argument", st)
                meth = fn[3:]
                if meth == "add":
                    if guard != "GAlways":
                        self.fail("hm.add under a condition", st)
                    for a in c.args:
                        self.entry(guard, "EStr", a, i)
                elif meth in ("add_string", "add_mpint", "add_int") and len(c.args) == 1:
                    self.entry(guard, {"add_string": "EStr", "add_mpint": "EMpint", "add_int": "EU32"}[meth], c.args[0], i)
                else:
                    self.fail("unrecognised call hm.%s" % meth, st)
                self.hm_last_add = i
                continue
            if mentions and fn != "self.transport._set_K_H":
                self.fail("hm escapes into %r" % fn, st)
            if fn == "self.transport._set_K_H":
                if self.setkh is not None or guard != "GAlways" or len(c.args) != 2 or c.keywords:
                    self.fail("unexpected _set_K_H call", st)
                self.setkh = (i, c)
            elif fn == "self.transport._verify_key":
                if self.verify is not None or guard != "GAlways" or len(c.args) != 2 or c.keywords:
                    self.fail("unexpected _verify_key call", st)
                self.verify = (i, c)
            elif fn is not None and fn.startswith("m.add") and self.m_epoch:
                if fn == "m.add_byte":
                    if self.reply:
                        self.fail("type byte after a field", st)
                    continue
                if fn not in ("m.add_string", "m.add_mpint") or len(c.args) != 1:
                    self.fail("unrecognised reply field %s" % fn, st)
                self.reply.append((fn[2:], c.args[0], i))
            elif fn in ("self.transport._send_message", "self.transport._activate_outbound",
                        "self.transport._expect_packet", "self.transport._log", "self._generate_x"):
                continue
            else:
                self.fail("unrecognised call %r" % fn, st)
        if hm_bound is None:
            self.fail("no hash message")
        self.finish()

    def entry(self, guard, kind, value, at):
        slot = self.resolve(value, at)
        if kind == "EStr" and slot not in STR_SLOTS or kind != "EStr" and slot not in INT_SLOTS:
            self.fail("slot %s added with the wrong field kind %s" % (slot, kind), value)
        if kind == "EU32" and slot not in ("SMin", "SN", "SMax"):
            self.fail("add_int of %s" % slot, value)
        self.layout.append((guard, kind, slot))

    def finish(self):
        if self.setkh is None:
            self.fail("_set_K_H is never called")
        i, c = self.setkh
        if not (isinstance(c.args[0], ast.Name) and c.args[0].id == "K"):
            self.fail("_set_K_H first argument is not K", c)
        self.check_K(i)
        h = c.args[1]
        if is_hash_of_hm(h):
            if self.hash_at is not None:
                self.fail("hash of hm taken twice", c)
            self.hash_at = i
        elif isinstance(h, ast.Name) and h.id == "H" and self.hash_at is not None and self.hash_at < i \
                and len(self.assigns.get("H", [])) == 1:
            pass
        else:
            self.fail("_set_K_H second argument is not %s" % HASH_SHAPE, c)
        if not self.hm_last_add < self.hash_at:
            self.fail("a field is added to hm after the hash was taken")
        if self.role == "client":
            if self.verify is None or self.sign is not None or self.reply:
                self.fail("client handler must call _verify_key and neither sign nor reply")
            j, v = self.verify
            if j < i:
                self.fail("_verify_key before _set_K_H", v)
            kinds = [k for _, k in self.reads]
            if len(self.reads) != 3 or kinds[0] != "str" or kinds[2] != "str":
                self.fail("the reply is not read as (string, value, string)")
            a, b = v.args
            if not (isinstance(a, ast.Name) and self.read_index(a.id) == 0 and len(self.assigns[a.id]) == 1):
                self.fail("_verify_key host key argument is not the first value read from the reply", v)
            if not (isinstance(b, ast.Name) and self.read_index(b.id) == 2 and len(self.assigns[b.id]) == 1):
                self.fail("_verify_key signature argument is not the third value read from the reply", v)
            if ("GAlways", "EStr", "SKS") not in self.layout:
                self.fail("the host key read from the reply is not hashed")
            self.reply_read = ["WKS", "WPubMpint" if kinds[1] == "mpint" else "WPubStr", "WSig"]
            pub_slot = "SF" if kinds[1] == "mpint" else "SQS"
            want = ("GAlways", "EMpint" if kinds[1] == "mpint" else "EStr", pub_slot)
            if want not in self.layout:
                self.fail("the server's public value read from the reply is not hashed")
        else:
            if self.verify is not None or self.sign is None:
                self.fail("server handler must sign and not verify")
            si, starget, sc = self.sign
            if not (si > self.hash_at and len(sc.args) >= 1 and isinstance(sc.args[0], ast.Name) and sc.args[0].id == "H"
                    and len(self.assigns.get("H", [])) == 1):
                self.fail("the server does not sign H = %s" % HASH_SHAPE, sc)
            if len(self.reply) != 3:
                self.fail("the reply does not have three fields")
            out = []
            (k0, v0, i0), (k1, v1, i1), (k2, v2, i2) = self.reply
            if not (k0 == "add_string" and self.resolve(v0, i0) == "SKS"):
                self.fail("first reply field is not the host key that was hashed", v0)
            s1 = self.resolve(v1, i1)
            if (k1, s1) == ("add_mpint", "SF"):
                out = ["WKS", "WPubMpint", "WSig"]
            elif (k1, s1) == ("add_string", "SQS"):
                out = ["WKS", "WPubStr", "WSig"]
            else:
                self.fail("second reply field is not the server's public value that was hashed", v1)
            if not (k2 == "add_string" and isinstance(v2, ast.Name) and v2.id == starget and len(self.assigns[starget]) == 1):
                self.fail("third reply field is not the signature", v2)
            self.reply_sent = out


FAMILIES = [
    ("FGroup", "kex_group1.py", "KexGroup1", "_parse_kexdh_reply", "_parse_kexdh_init"),
    ("FGex", "kex_gex.py", "KexGex", "_parse_kexdh_gex_reply", "_parse_kexdh_gex_init"),
    ("FEcdh", "kex_ecdh_nist.py", "KexNistp256", "_parse_kexecdh_reply", "_parse_kexecdh_init"),
    ("FX25519", "kex_curve25519.py", "KexCurve25519", "_parse_kexecdh_reply", "_parse_kexecdh_init"),
]
SUBCLASSES = [
    ("kex_group14.py", "KexGroup14", "KexGroup1"), ("kex_group14.py", "KexGroup14SHA256", "KexGroup14"),
    ("kex_group16.py", "KexGroup16SHA512", "KexGroup1"), ("kex_gex.py", "KexGexSHA256", "KexGex"),
    ("kex_ecdh_nist.py", "KexNistp384", "KexNistp256"), ("kex_ecdh_nist.py", "KexNistp521", "KexNistp256"),
]


def check_subclasses(repo):
    for rel, name, base in SUBCLASSES:
        cls = class_def(parse_module(repo, rel), name, rel)
        if [dotted(b) for b in cls.bases] != [base]:
            raise Unrecognised("%s does not derive from %s only" % (name, base))
        if methods(cls):
            raise Unrecognised("%s defines methods %s (handlers must be inherited)" % (name, sorted(methods(cls))))


# ---------------------------------------------------------------------------- transport

def walk_set_K_H(fn):
    where = "transport._set_K_H"
    args = [a.arg for a in fn.args.args]
    if len(args) != 3:
        raise Unrecognised(where + ": unexpected signature")
    _, ka, ha = args
    prog = []

    def assign(st, latched):
        if not (isinstance(st, ast.Assign) and len(st.targets) == 1 and isinstance(st.value, ast.Name)):
            raise Unrecognised("%s: unrecognised statement (line %d)" % (where, st.lineno))
        t = dotted(st.targets[0])
        src = {ka: "AK", ha: "AH"}.get(st.value.id)
        if src is None or t not in ("self.K", "self.H", "self.session_id"):
            raise Unrecognised("%s: unrecognised assignment (line %d)" % (where, st.lineno))
        if t == "self.session_id":
            prog.append("%s %s" % ("LatchSid" if latched else "AssignSid", src))
        elif latched:
            raise Unrecognised("%s: K/H assigned under the session-id condition" % where)
        else:
            prog.append("%s %s" % ("AssignK" if t == "self.K" else "AssignH", src))

    for st in fn.body:
        if isinstance(st, ast.Expr) and isinstance(st.value, ast.Constant) and isinstance(st.value.value, str):
            continue
        if isinstance(st, ast.If):
            t = st.test
            ok = isinstance(t, ast.Compare) and dotted(t.left) == "self.session_id" and len(t.ops) == 1 \
                and isinstance(t.ops[0], ast.Is) and isinstance(t.comparators[0], ast.Constant) \
                and t.comparators[0].value is None and not st.orelse
            if not ok:
                raise Unrecognised("%s: unrecognised condition (line %d)" % (where, st.lineno))
            for s in st.body:
                assign(s, True)
            continue
        assign(st, False)
    return prog


def walk_verify_key(fn):
    where = "transport._verify_key"
    args = [a.arg for a in fn.args.args]
    if len(args) != 3:
        raise Unrecognised(where + ": unexpected signature")
    _, hk, sg = args
    body = [st for st in fn.body
            if not (isinstance(st, ast.Expr) and isinstance(st.value, ast.Constant) and isinstance(st.value.value, str))]
    if not body or not isinstance(body[0], ast.Assign) or dotted(body[0].targets[0]) != "key":
        raise Unrecognised(where + ": first statement does not build `key`")
    v = body[0].value
    # key = self._key_info[self.host_key_type](Message(host_key))
    ok = isinstance(v, ast.Call) and isinstance(v.func, ast.Subscript) and dotted(v.func.value) == "self._key_info" \
        and dotted(v.func.slice) == "self.host_key_type" and len(v.args) == 1 and not v.keywords \
        and is_call(v.args[0], "Message") and len(v.args[0].args) == 1 and isinstance(v.args[0].args[0], ast.Name)
    if not ok:
        raise Unrecognised(where + ": key is not self._key_info[self.host_key_type](Message(<arg>))")
    key_from_arg = v.args[0].args[0].id == hk
    over = None
    raises = False
    sig_from_arg = False
    stores = False
    alg_guard = False
    canon = {"name": None, "reads": 0, "done": False}
    alg_names = {}       # local name -> True when it is <self.host_key_type>.replace(<const>, <const>)
    for st in body[1:]:
        # sig_fields = Message(sig); sig_fields.get_binary(); sig_fields.get_binary();
        # if sig_fields.get_remainder(): raise SSHException(...)     -- strict two-string signature blob
        if isinstance(st, ast.Assign) and len(st.targets) == 1 and isinstance(st.targets[0], ast.Name) \
                and is_call(st.value, "Message") and len(st.value.args) == 1 and isinstance(st.value.args[0], ast.Name) \
                and st.value.args[0].id == sg and over is None and canon["name"] is None \
                and st.targets[0].id not in (hk, sg, "key", "self"):
            canon["name"] = st.targets[0].id
            continue
        if isinstance(st, ast.Expr) and isinstance(st.value, ast.Call) and canon["name"] is not None and over is None \
                and dotted(st.value.func) in (canon["name"] + ".get_binary", canon["name"] + ".get_string",
                                              canon["name"] + ".get_text") and not st.value.args and not canon["done"]:
            canon["reads"] += 1
            continue
        if isinstance(st, ast.If) and canon["name"] is not None and is_call(st.test, canon["name"] + ".get_remainder") \
                and not st.test.args and over is None and not canon["done"]:
            if canon["reads"] != 2 or st.orelse or len(st.body) != 1 or not isinstance(st.body[0], ast.Raise) \
                    or not is_call(st.body[0].exc, "SSHException"):
                raise Unrecognised("%s: unrecognised trailing-data test (line %d)" % (where, st.lineno))
            canon["done"] = True
            continue
        if isinstance(st, ast.Assign) and len(st.targets) == 1 and isinstance(st.targets[0], ast.Name) \
                and st.targets[0].id not in (hk, sg, "key", "self"):
            # expected = self.host_key_type.replace("-cert-v01@openssh.com", "")
            v = st.value
            ok = isinstance(v, ast.Call) and isinstance(v.func, ast.Attribute) and v.func.attr == "replace" \
                and dotted(v.func.value) == "self.host_key_type" and len(v.args) == 2 and not v.keywords \
                and all(isinstance(a, ast.Constant) and isinstance(a.value, str) for a in v.args)
            if not ok or over is not None:
                raise Unrecognised("%s: unrecognised local assignment (line %d)" % (where, st.lineno))
            alg_names[st.targets[0].id] = True
            continue
        if isinstance(st, ast.If):
            t = st.test
            if isinstance(t, ast.Compare) and dotted(t.left) == "key" and isinstance(t.ops[0], ast.Is):
                continue   # if key is None: raise
            if isinstance(t, ast.Compare) and len(t.ops) == 1 and isinstance(t.ops[0], ast.NotEq) and over is None:
                # if Message(sig).get_binary() != b(expected): raise SSHException(...)
                # an extra rejection before the signature check: only ever turns an accept into an abort
                lhs, rhs = t.left, t.comparators[0]
                ok = isinstance(lhs, ast.Call) and isinstance(lhs.func, ast.Attribute) \
                    and lhs.func.attr in ("get_binary", "get_text", "get_string") and not lhs.args \
                    and is_call(lhs.func.value, "Message") and len(lhs.func.value.args) == 1 \
                    and isinstance(lhs.func.value.args[0], ast.Name) and lhs.func.value.args[0].id == sg
                if isinstance(rhs, ast.Call) and dotted(rhs.func) == "b" and len(rhs.args) == 1:
                    rhs = rhs.args[0]
                ok = ok and (isinstance(rhs, ast.Name) and rhs.id in alg_names or dotted(rhs) == "self.host_key_type")
                ok = ok and not st.orelse and len(st.body) == 1 and isinstance(st.body[0], ast.Raise) \
                    and is_call(st.body[0].exc, "SSHException")
                if not ok or alg_guard:
                    raise Unrecognised("%s: unrecognised rejection test before the signature check (line %d)"
                                       % (where, st.lineno))
                alg_guard = True
                continue
            if isinstance(t, ast.UnaryOp) and isinstance(t.op, ast.Not) and is_call(t.operand, "key.verify_ssh_sig"):
                c = t.operand
                if over is not None or len(c.args) != 2 or c.keywords or st.orelse:
                    raise Unrecognised(where + ": unexpected verify_ssh_sig call")
                src = dotted(c.args[0])
                over = {"self.H": "VH", "self.K": "VK", "self.session_id": "VSid"}.get(src)
                if over is None:
                    raise Unrecognised(where + ": verifies over %r" % src)
                m = c.args[1]
                if not (is_call(m, "Message") and len(m.args) == 1 and isinstance(m.args[0], ast.Name)):
                    raise Unrecognised(where + ": signature argument is not Message(<arg>)")
                sig_from_arg = m.args[0].id == sg
                raises = any(isinstance(s, ast.Raise) and is_call(s.exc, "SSHException") for s in st.body)
                if not raises and not all(isinstance(s, ast.Pass) for s in st.body):
                    raise Unrecognised(where + ": unrecognised body of the failed-verify branch")
                continue
            raise Unrecognised("%s: unrecognised condition (line %d)" % (where, st.lineno))
        if isinstance(st, ast.Assign) and dotted(st.targets[0]) == "self.host_key" and dotted(st.value) == "key":
            if over is None:
                raise Unrecognised(where + ": host_key stored before the signature check")
            stores = True
            continue
        raise Unrecognised("%s: unrecognised statement (line %d)" % (where, st.lineno))
    if over is None:
        raise Unrecognised(where + ": verify_ssh_sig is never consulted")
    if canon["name"] is not None and not canon["done"]:
        raise Unrecognised(where + ": signature blob parsed but its remainder is never tested")
    return over, raises, key_from_arg, sig_from_arg, stores, alg_guard, canon["done"]


def walk_check_banner(fn):
    """What Transport._check_banner stores in self.remote_version: the line read from the peer (BLine) or a
    cut-down copy (BStripped: `buf` re-bound to a slice of itself before the store)."""
    where = "transport._check_banner"
    seen_read = False
    stored = None
    cut = False
    for st in fn.body:
        for n in ast.walk(st):
            if not isinstance(n, (ast.Assign, ast.AugAssign)):
                continue
            targets = n.targets if isinstance(n, ast.Assign) else [n.target]
            for t in targets:
                d = dotted(t)
                if d == "buf":
                    v = n.value
                    if isinstance(n, ast.Assign) and is_call(v, "self.packetizer.readline"):
                        seen_read = True
                    elif stored is None:
                        if isinstance(n, ast.Assign) and isinstance(v, ast.Subscript) and dotted(v.value) == "buf":
                            cut = True
                        else:
                            raise Unrecognised("%s: buf re-bound before remote_version is stored (line %d)" % (where, n.lineno))
                elif d == "self.remote_version":
                    if n is not st or stored is not None or not isinstance(n, ast.Assign) or dotted(n.value) != "buf" \
                            or not seen_read:
                        raise Unrecognised("%s: unrecognised store to remote_version (line %d)" % (where, n.lineno))
                    stored = "BStripped" if cut else "BLine"
                elif d is None or d.startswith("self.") and d not in ("self.remote_version",):
                    raise Unrecognised("%s: unrecognised assignment target (line %d)" % (where, n.lineno))
    if stored is None:
        raise Unrecognised(where + ": remote_version is never stored")
    return stored


def walk_connect(fn):
    """Transport.connect(hostkey=...): the pinned-key comparison after start_client().  Returns how the two
    tests (key type name differs, key blob differs) are combined: "PinOr" / "PinAnd"; the rejecting branch
    must raise SSHException and every self.auth_* call must come after it."""
    where = "transport.connect"
    params = [a.arg for a in fn.args.args]
    if "hostkey" not in params:
        raise Unrecognised(where + ": no hostkey parameter")
    body = fn.body
    pin_at = start_at = None
    op = None
    for i, st in enumerate(body):
        calls = {dotted(c.func) for c in ast.walk(st) if isinstance(c, ast.Call)}
        if "self.start_client" in calls:
            if start_at is not None or not (isinstance(st, ast.Expr)):
                raise Unrecognised(where + ": start_client called twice or not as a statement")
            start_at = i
        if any(c and c.startswith("self.auth_") for c in calls):
            if pin_at is None:
                raise Unrecognised("%s: authentication attempted before the pinned host key is compared (line %d)"
                                   % (where, st.lineno))
        if isinstance(st, ast.If) and "self.get_remote_server_key" in calls:
            if pin_at is not None or start_at is None:
                raise Unrecognised(where + ": unexpected second host key comparison / comparison before start_client")
            # if (hostkey is not None) and not gss_kex:
            t = st.test
            conds = t.values if isinstance(t, ast.BoolOp) and isinstance(t.op, ast.And) else [t]
            ok = any(isinstance(c, ast.Compare) and dotted(c.left) == "hostkey" and isinstance(c.ops[0], ast.IsNot)
                     and isinstance(c.comparators[0], ast.Constant) and c.comparators[0].value is None for c in conds)
            ok = ok and all(isinstance(c, ast.Compare) or (isinstance(c, ast.UnaryOp) and isinstance(c.op, ast.Not)
                            and dotted(c.operand) == "gss_kex") for c in conds) and not st.orelse
            if not ok or len(st.body) < 2:
                raise Unrecognised(where + ": unrecognised guard of the pinned host key comparison")
            a0 = st.body[0]
            if not (isinstance(a0, ast.Assign) and dotted(a0.targets[0]) == "key"
                    and is_call(a0.value, "self.get_remote_server_key") and not a0.value.args):
                raise Unrecognised(where + ": key is not self.get_remote_server_key()")
            cmp_if = st.body[1]
            if not isinstance(cmp_if, ast.If) or cmp_if.orelse:
                raise Unrecognised(where + ": no comparison after fetching the server key")
            ct = cmp_if.test
            if not (isinstance(ct, ast.BoolOp) and len(ct.values) == 2):
                raise Unrecognised(where + ": comparison is not a two-way and/or")

            def side(c, meth):
                return isinstance(c, ast.Compare) and len(c.ops) == 1 and isinstance(c.ops[0], ast.NotEq) \
                    and {dotted(getattr(x, "func", x)) for x in (c.left, c.comparators[0])} == {"key." + meth, "hostkey." + meth} \
                    and all(isinstance(x, ast.Call) and not x.args for x in (c.left, c.comparators[0]))
            if not (side(ct.values[0], "get_name") and side(ct.values[1], "asbytes")
                    or side(ct.values[0], "asbytes") and side(ct.values[1], "get_name")):
                raise Unrecognised(where + ": comparison is not (name != name) <op> (blob != blob)")
            op = "PinOr" if isinstance(ct.op, ast.Or) else "PinAnd"
            last = cmp_if.body[-1]
            if not (isinstance(last, ast.Raise) and is_call(last.exc, "SSHException")):
                raise Unrecognised(where + ": a differing host key does not raise SSHException")
            for s2 in cmp_if.body[:-1] + st.body[2:]:
                if not (isinstance(s2, ast.Expr) and is_call(s2.value, "self._log")):
                    raise Unrecognised("%s: unrecognised statement in the host key comparison (line %d)" % (where, s2.lineno))
            pin_at = i
    if pin_at is None:
        raise Unrecognised(where + ": the pinned host key is never compared")
    return op


def coqbool(b):
    return "true" if b else "false"


def generate(repo):
    repo = os.path.realpath(repo)
    out = []
    w = out.append
    w("(* GENERATED by /verif/gen/c06.py from %s/paramiko/kex_*.py and transport.py -- do not edit *)" % repo)
    w("From PV Require Import Bytes.")
    w("Open Scope Z_scope.")
    w("")
    w("Inductive family := FGroup | FGex | FEcdh | FX25519.")
    w("Inductive role := Client | Server.")
    w("Inductive sslot := SVC | SVS | SIC | SIS | SKS | SQC | SQS.")
    w("Inductive islot := SE | SF | SK | SMin | SN | SMax | SP | SG.")
    w("Inductive guard := GAlways | GNotOld.")
    w("Inductive entry := EStr (s : sslot) | EMpint (i : islot) | EU32 (i : islot).")
    w("Inductive wire := WKS | WPubMpint | WPubStr | WSig.")
    w("Inductive kform := KPow | KLib.")
    w("Inductive arg := AK | AH.")
    w("Inductive setkh_stmt := AssignK (a : arg) | AssignH (a : arg) | AssignSid (a : arg) | LatchSid (a : arg).")
    w("Inductive vsrc := VH | VK | VSid.")
    w("Inductive bannersrc := BLine | BStripped.")
    w("Inductive pinop := PinOr | PinAnd.")
    w("")
    check_subclasses(repo)
    lay = {}
    sent = {}
    read = {}
    kf = {}
    for fam, rel, cname, creply, sinit in FAMILIES:
        ms = methods(class_def(parse_module(repo, rel), cname, rel))
        for nm in (creply, sinit):
            if nm not in ms:
                raise Unrecognised("%s.%s not found" % (cname, nm))
        hc = HandlerWalk(ms[creply], "client", "%s:%s.%s" % (rel, cname, creply))
        hs = HandlerWalk(ms[sinit], "server", "%s:%s.%s" % (rel, cname, sinit))
        lay[(fam, "Client")] = hc.layout
        lay[(fam, "Server")] = hs.layout
        read[fam] = hc.reply_read
        sent[fam] = hs.reply_sent
        if hc.kform != hs.kform:
            raise Unrecognised("%s: client and server compute K differently" % cname)
        kf[fam] = hc.kform
        for role, h in (("Client", hc), ("Server", hs)):
            if not any(s == "SK" for _, _, s in h.layout):
                raise Unrecognised("%s %s: K is not part of the exchange hash" % (cname, role))
    w("(* exchange hash input: ordered hm.add* calls of each handler, (guard, field kind / transcript slot) *)")
    w("Definition layout (f : family) (r : role) : list (guard * entry) :=")
    w("  match f, r with")
    for fam, _, cname, creply, sinit in FAMILIES:
        for role, fn in (("Client", creply), ("Server", sinit)):
            items = "; ".join("(%s, %s %s)" % e for e in lay[(fam, role)])
            w("  | %s, %s => [%s]   (* %s.%s *)" % (fam, role, items, cname, fn))
    w("  end.")
    w("")
    w("(* fields of the server's kex reply after the type byte: as written by the server / as read by the client *)")
    for nm, tab in (("reply_sent", sent), ("reply_read", read)):
        w("Definition %s (f : family) : list wire :=" % nm)
        w("  match f with")
        for fam, *_ in FAMILIES:
            w("  | %s => [%s]" % (fam, "; ".join(tab[fam])))
        w("  end.")
    w("Definition secret_form (f : family) : kform :=")
    w("  match f with " + " ".join("| %s => %s" % (fam, kf[fam]) for fam, *_ in FAMILIES) + " end.")
    w("")
    rel = "transport.py"
    tms = methods(class_def(parse_module(repo, rel), "Transport", rel))
    for nm in ("_set_K_H", "_verify_key", "_check_banner", "connect"):
        if nm not in tms:
            raise Unrecognised("Transport.%s not found" % nm)
    prog = walk_set_K_H(tms["_set_K_H"])
    w("(* Transport._set_K_H, statement by statement *)")
    w("Definition setkh_prog : list setkh_stmt := [%s]." % "; ".join(prog))
    over, raises, kfa, sfa, stores, alg_guard, canon_guard = walk_verify_key(tms["_verify_key"])
    w("(* Transport._verify_key: what is verified, whether a failed verify raises, whether key / signature are the arguments *)")
    w("Definition verify_over : vsrc := %s." % over)
    w("Definition verify_raises : bool := %s." % coqbool(raises))
    w("Definition verify_key_from_arg : bool := %s." % coqbool(kfa))
    w("Definition verify_sig_from_arg : bool := %s." % coqbool(sfa))
    w("Definition verify_stores_key : bool := %s." % coqbool(stores))
    w("(* an extra `if <algorithm named in the signature blob> != <negotiated algorithm>: raise` before the check *)")
    w("Definition verify_alg_guard : bool := %s." % coqbool(alg_guard))
    w("(* `if <bytes after the two strings of the signature blob>: raise` before the check *)")
    w("Definition verify_canonical_guard : bool := %s." % coqbool(canon_guard))
    w("(* Transport._check_banner: what is kept as remote_version (the V_S / V_C this side hashes) *)")
    w("Definition banner_stored : bannersrc := %s." % walk_check_banner(tms["_check_banner"]))
    w("(* Transport.connect(hostkey=...): reject when (type name differs) <op> (blob differs); raise before any auth *)")
    w("Definition pin_combine : pinop := %s." % walk_connect(tms["connect"]))
    w("")
    return {"C06_gen.v": "\n".join(out) + "\n"}


if __name__ == "__main__":
    sys.stdout.write(generate(sys.argv[1] if len(sys.argv) > 1 else "/repo")["C06_gen.v"])
