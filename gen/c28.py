"""C28 translator: facts the model of sftp_file.py hard-codes, re-derived from the working tree.

generate(repo) -> {"C28_gen.v": text}.  Fail-closed: a missing function aborts; a shape that is no
longer recognised is emitted as `false`, and Proofs/C28_proofs.v has the obligation that every flag
is `true` (so the proof build breaks and names the flag)."""
import ast
import os


def _src(node):
    return ast.dump(node)


def _find_method(tree, cls, name):
    for n in ast.walk(tree):
        if isinstance(n, ast.ClassDef) and n.name == cls:
            for m in n.body:
                if isinstance(m, ast.FunctionDef) and m.name == name:
                    return m
    raise RuntimeError("%s.%s not found" % (cls, name))


def _is_self_attr(node, attr):
    return (isinstance(node, ast.Attribute) and node.attr == attr and isinstance(node.value, ast.Name)
            and node.value.id == "self")


def _b(x):
    return "true" if x else "false"


def generate(repo):
    path = os.path.join(repo, "paramiko", "sftp_file.py")
    tree = ast.parse(open(path).read())
    # ---- MAX_REQUEST_SIZE
    maxreq = None
    for n in ast.walk(tree):
        if isinstance(n, ast.ClassDef) and n.name == "SFTPFile":
            for m in n.body:
                if isinstance(m, ast.Assign) and any(isinstance(t, ast.Name) and t.id == "MAX_REQUEST_SIZE"
                                                     for t in m.targets):
                    maxreq = ast.literal_eval(m.value)
    if not isinstance(maxreq, int):
        raise RuntimeError("SFTPFile.MAX_REQUEST_SIZE is not an integer literal")

    # ---- _async_response
    ar = _find_method(tree, "SFTPFile", "_async_response")
    # the spin: `while True:` containing `with self._prefetch_lock:` containing `if num in self._prefetch_extents:`
    # whose body deletes the extent and ends with `break`; nothing after the loop, no `return` anywhere
    spins = releases = stores = done_when_empty = eof_not_saved = other_saved = False
    no_return = not any(isinstance(n, ast.Return) for n in ast.walk(ar))
    last = ar.body[-1]
    if isinstance(last, ast.While) and isinstance(last.test, ast.Constant) and last.test.value is True \
            and not last.orelse and len(last.body) == 1 and isinstance(last.body[0], ast.With):
        w = last.body[0]
        if len(w.items) == 1 and _is_self_attr(w.items[0].context_expr, "_prefetch_lock") and len(w.body) == 1 \
                and isinstance(w.body[0], ast.If) and not w.body[0].orelse:
            cond = w.body[0]
            t = cond.test
            if isinstance(t, ast.Compare) and len(t.ops) == 1 and isinstance(t.ops[0], ast.In) \
                    and isinstance(t.left, ast.Name) and t.left.id == "num" \
                    and _is_self_attr(t.comparators[0], "_prefetch_extents"):
                body = cond.body
                spins = isinstance(body[-1], ast.Break) and \
                    sum(isinstance(n, ast.Break) for n in ast.walk(last)) == 1
                for st in body:
                    if isinstance(st, ast.Delete) and len(st.targets) == 1 and isinstance(st.targets[0], ast.Subscript) \
                            and _is_self_attr(st.targets[0].value, "_prefetch_extents"):
                        releases = True          # unconditional, directly in the `if num in` body
                    if isinstance(st, ast.If):
                        for sub in st.body:
                            if isinstance(sub, ast.Assign) and isinstance(sub.targets[0], ast.Subscript) \
                                    and _is_self_attr(sub.targets[0].value, "_prefetch_data") \
                                    and isinstance(sub.targets[0].slice, ast.Name) and sub.targets[0].slice.id == "offset":
                                stores = True
                            if isinstance(sub, ast.Assign) and _is_self_attr(sub.targets[0], "_prefetch_done") \
                                    and isinstance(sub.value, ast.Constant) and sub.value.value is True:
                                tt = st.test
                                done_when_empty = (isinstance(tt, ast.Compare) and isinstance(tt.ops[0], ast.Eq)
                                                   and isinstance(tt.comparators[0], ast.Constant)
                                                   and tt.comparators[0].value == 0)
                    if isinstance(st, ast.Assign) and isinstance(st.targets[0], ast.Subscript) \
                            and _is_self_attr(st.targets[0].value, "_prefetch_data") \
                            and isinstance(st.targets[0].slice, ast.Name) and st.targets[0].slice.id == "offset":
                        stores = True
    for n in ast.walk(ar):
        if isinstance(n, ast.Try):
            for h in n.handlers:
                if isinstance(h.type, ast.Name) and h.type.id == "EOFError" and len(h.body) == 1 \
                        and isinstance(h.body[0], ast.Pass):
                    eof_not_saved = True
                if isinstance(h.type, ast.Name) and h.type.id == "Exception":
                    other_saved = any(isinstance(x, ast.Assign) and _is_self_attr(x.targets[0], "_saved_exception")
                                      for x in h.body)

    # ---- _start_prefetch: first statement `if len(chunks) == 0: return`, then the two flags, one thread
    sp = _find_method(tree, "SFTPFile", "_start_prefetch")
    guard = False
    first = sp.body[0]
    if isinstance(first, ast.If) and not first.orelse and len(first.body) == 1 and isinstance(first.body[0], ast.Return) \
            and first.body[0].value is None:
        t = first.test
        if isinstance(t, ast.Compare) and isinstance(t.ops[0], ast.Eq) and isinstance(t.comparators[0], ast.Constant) \
                and t.comparators[0].value == 0 and isinstance(t.left, ast.Call) and getattr(t.left.func, "id", "") == "len" \
                and getattr(t.left.args[0], "id", "") == "chunks":
            guard = True
        if isinstance(t, ast.UnaryOp) and isinstance(t.op, ast.Not) and getattr(t.operand, "id", "") == "chunks":
            guard = True
    flags_set = {}
    for st in sp.body:
        if isinstance(st, ast.Assign) and isinstance(st.value, ast.Constant):
            for tg in st.targets:
                if isinstance(tg, ast.Attribute) and isinstance(tg.value, ast.Name) and tg.value.id == "self":
                    flags_set[tg.attr] = st.value.value
    sets_flags = flags_set.get("_prefetching") is True and flags_set.get("_prefetch_done") is False

    # ---- _prefetch_thread: request first, extent recorded afterwards under the lock with the same (offset, length)
    pt = _find_method(tree, "SFTPFile", "_prefetch_thread")
    registers = False
    for n in ast.walk(pt):
        if isinstance(n, ast.Assign) and isinstance(n.targets[0], ast.Subscript) \
                and _is_self_attr(n.targets[0].value, "_prefetch_extents") \
                and isinstance(n.targets[0].slice, ast.Name) and n.targets[0].slice.id == "num" \
                and isinstance(n.value, ast.Tuple) and [getattr(e, "id", None) for e in n.value.elts] == ["offset", "length"]:
            registers = True


    # ---- who writes the prefetch flags, and under which lock (every method of SFTPFile)
    cls = [n for n in ast.walk(tree) if isinstance(n, ast.ClassDef) and n.name == "SFTPFile"][0]
    writers = []

    def visit(node, meth, locked):
        if isinstance(node, ast.With) and any(_is_self_attr(i.context_expr, "_prefetch_lock") for i in node.items):
            locked = True
        if isinstance(node, (ast.Assign, ast.AugAssign, ast.AnnAssign)):
            tgts = node.targets if isinstance(node, ast.Assign) else [node.target]
            for tg in tgts:
                for a in ("_prefetch_done", "_prefetching"):
                    if _is_self_attr(tg, a):
                        v = node.value.value if isinstance(node.value, ast.Constant) else "?"
                        writers.append((meth, a, v, locked))
        for ch in ast.iter_child_nodes(node):
            visit(ch, meth, locked)
    for m in cls.body:
        if isinstance(m, ast.FunctionDef):
            visit(m, m.name, False)
    expected = [("__init__", "_prefetching", False, False), ("__init__", "_prefetch_done", False, False),
                ("_read_prefetch", "_prefetching", False, False),
                ("_start_prefetch", "_prefetching", True, False), ("_start_prefetch", "_prefetch_done", False, False),
                ("_async_response", "_prefetch_done", True, True)]
    flag_writers_pinned = sorted(map(repr, writers)) == sorted(map(repr, expected))
    # _prefetch_thread stores nothing on self except the extent, under the lock
    thread_stores = []

    def visit_t(node, locked):
        if isinstance(node, ast.With) and any(_is_self_attr(i.context_expr, "_prefetch_lock") for i in node.items):
            locked = True
        if isinstance(node, (ast.Assign, ast.AugAssign, ast.Delete)):
            tgts = node.targets if not isinstance(node, ast.AugAssign) else [node.target]
            for tg in tgts:
                base = tg.value if isinstance(tg, ast.Subscript) else tg
                if isinstance(base, ast.Attribute) and isinstance(base.value, ast.Name) and base.value.id == "self":
                    thread_stores.append((base.attr, locked))
        for ch in ast.iter_child_nodes(node):
            visit_t(ch, locked)
    visit_t(pt, False)
    thread_only_extents = thread_stores == [("_prefetch_extents", True)]
    # _read_prefetch: `if offset is None: self._prefetching = False; return None` and nothing else there
    rp = _find_method(tree, "SFTPFile", "_read_prefetch")
    none_when_unbuffered = False
    for st in rp.body:
        if isinstance(st, ast.If) and isinstance(st.test, ast.Compare) and isinstance(st.test.ops[0], ast.Is) \
                and getattr(st.test.left, "id", "") == "offset" and isinstance(st.test.comparators[0], ast.Constant) \
                and st.test.comparators[0].value is None and not st.orelse:
            b = st.body
            none_when_unbuffered = (len(b) == 2 and isinstance(b[0], ast.Assign) and _is_self_attr(b[0].targets[0], "_prefetching")
                                    and isinstance(b[1], ast.Return)
                                    and isinstance(b[1].value, ast.Constant) and b[1].value.value is None)
    # prefetch() stores nothing on self (no remembered range)
    pf = _find_method(tree, "SFTPFile", "prefetch")
    prefetch_stateless = not any(isinstance(n, (ast.Assign, ast.AugAssign)) and any(
        isinstance(t, ast.Attribute) and isinstance(t.value, ast.Name) and t.value.id == "self"
        for t in (n.targets if isinstance(n, ast.Assign) else [n.target])) for n in ast.walk(pf))

    text = "\n".join([
        "(* generated by gen/c28.py from paramiko/sftp_file.py -- do not edit *)",
        "From Coq Require Import ZArith Bool.",
        "Open Scope Z_scope.",
        "Definition src_max_request_size : Z := %d." % maxreq,
        "(* _async_response: spins (while True / lock / `if num in extents` ... break) until registered *)",
        "Definition src_async_spins_until_registered : bool := %s." % _b(spins and no_return),
        "(* every answered request (data or status) deletes its extent *)",
        "Definition src_async_releases_extent : bool := %s." % _b(releases and no_return),
        "Definition src_async_stores_at_extent_offset : bool := %s." % _b(stores),
        "Definition src_async_done_when_no_extent_left : bool := %s." % _b(done_when_empty),
        "Definition src_async_eof_status_not_saved : bool := %s." % _b(eof_not_saved and other_saved),
        "Definition src_start_prefetch_ignores_empty : bool := %s." % _b(guard),
        "Definition src_start_prefetch_sets_flags : bool := %s." % _b(sets_flags),
        "Definition src_thread_registers_request_extent : bool := %s." % _b(registers),
        "(* _prefetch_done / _prefetching are written only by __init__, _read_prefetch, _start_prefetch (reader",
        "   thread) and by _async_response under _prefetch_lock *)",
        "Definition src_prefetch_flag_writers_pinned : bool := %s." % _b(flag_writers_pinned),
        "Definition src_thread_only_records_extents_under_lock : bool := %s." % _b(thread_only_extents),
        "Definition src_read_prefetch_none_when_unbuffered : bool := %s." % _b(none_when_unbuffered),
        "Definition src_prefetch_keeps_no_state : bool := %s." % _b(prefetch_stateless),
        ""])
    return {"C28_gen.v": text}
