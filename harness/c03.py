"""C03 -- outgoing packets are framed and padded as RFC 4253 section 6 requires.

Proof: coq/Props/C03_props.v over coq/Model/C03.v over coq/Gen/C03_gen.v; the latter is re-translated by
gen/c03.py from the AST of Packetizer._build_packet / send_message / __init__ / set_outbound_cipher and
Transport._activate_outbound, plus the live Transport._cipher_info / _mac_info, on every run.

Tie (besides the translator): two drives of the real `paramiko.packet.Packetizer.send_message`
  * toy drive   -- engines installed through set_outbound_cipher (as tests/test_packetizer.py does): a
                   recording XOR cipher / AEAD, real hashlib MAC classes; every framing mode (clear,
                   classic, EtM, AEAD, and the unreachable etm+aead), sdctr on/off, every block size of the
                   table (plus a few more), payload lengths 0 .. 4*bs+8 and some large ones;
  * table drive -- the real Transport._activate_outbound configures the packetizer with the real
                   cryptography engines for EVERY (cipher, MAC) pair of the live tables; the wire bytes are
                   decrypted / authenticated independently with keys derived by Transport._compute_key.
Each packet is summarised as [length field, pad byte, padding bytes present, zero padding?, packet length,
offset and length of what the cipher engine was handed, tag length, wire length] and compared with the model
(vm_compute of Model/C03.v run_toy / run_table), and checked directly against RFC 4253 section 6
(ctx.fail with the concrete packet).
"""
import hmac as pyhmac
import hashlib
import os
import re
import struct
import types
import zlib

from common import coq

PID = "C03"
LEVEL_TEXT = ("Machine-checked proof (Coq, closed under the global context) over definitions re-translated from "
              "the source on every run (padding expression, addlen conditional, struct.pack arguments, encrypted "
              "slice per framing mode, MAC condition/truncation, _activate_outbound arguments, cipher/MAC tables): "
              "for ALL payload lengths and every suite of the tables, 4 <= padding <= min(bs+3, 255), pad byte = "
              "padding bytes appended, length field = 1 + len + padding = packet length - 4, the portion handed to "
              "the cipher is a positive whole number of blocks (and of 8) with the length field excluded exactly "
              "for EtM/AEAD, tag length = table size / 16 for AEAD / 0 in the clear; minimum packet size (16 "
              "clear/classic, 4+bs for EtM/AEAD); byte-level layout of what send_message writes (type-byte read, "
              "compress-then-frame) under explicit length premises on the library engines.  Tied to the code by the "
              "translator and by an exhaustive differential run (all modes x block sizes x lengths 0..4*bs+8, "
              "all cipher x MAC pairs with real engines) of the real Packetizer/Transport against the model.")
LEVEL_NOTE = ("Trusted: Coq kernel + vm_compute; gen/c03.py (fail-closed AST translator); the wrappers of "
              "coq/Model/C03.v (branch order of send_message, list layout) validated by the correspondence run; "
              "library engines' length behaviour (update preserves length, AESGCM appends 16, HMAC digest size) is "
              "a premise of the byte-level theorem and is exercised with the real engines here; the compressor is an "
              "arbitrary function in the model (its output length is an input of the arithmetic); "
              "struct.pack range errors are modelled (StructErr) but unreachable for table block sizes.")
TECHNIQUE = "AST translation to Gallina + lia proofs for all lengths + vm_compute differential correspondence"

ETM_MARKER = "etm@openssh.com"      # OpenSSH PROTOCOL, section 1.1 (independent of the translator)
FILL = 0xAA                         # what the pinned os.urandom returns


# --------------------------------------------------------------------------- plumbing


class Sink:
    """Socket-ish object collecting what write_all sends."""

    def __init__(self):
        self.buf = bytearray()

    def send(self, data):
        self.buf += bytes(data)
        return len(data)

    def settimeout(self, t):
        pass

    def close(self):
        pass

    def take(self):
        out = bytes(self.buf)
        del self.buf[:]
        return out


class ChoppySink(Sink):
    """A socket that accepts fewer bytes than offered (policy: fixed count or seeded random counts per send) and
    raises socket.timeout / EAGAIN in between; what it ACCEPTED, concatenated, is what reached the wire."""

    def __init__(self, policy, rng_seed=0):
        Sink.__init__(self)
        import random
        self.policy = policy
        self.rnd = random.Random("chop-%s-%s" % (policy, rng_seed))
        self.calls = 0

    def send(self, data):
        import errno
        import socket
        self.calls += 1
        if self.calls % 3 == 2:
            raise socket.timeout()
        if self.calls % 7 == 5:
            raise socket.error(errno.EAGAIN, "try again")
        k = self.policy if isinstance(self.policy, int) else self.rnd.randrange(1, 40)
        k = max(1, min(k, len(data)))
        self.buf += bytes(data[:k])
        return k


class pinned_urandom:
    """os.urandom pinned to a constant byte (padding content is an input, DESIGN.md section 3)."""

    def __enter__(self):
        self.orig = os.urandom
        os.urandom = lambda n: bytes([FILL]) * n
        return self

    def __exit__(self, *a):
        os.urandom = self.orig


def xor(data, k=0x5A):
    return bytes(b ^ k for b in data)


class ToyCipher:
    def __init__(self, atag):
        self.atag = atag
        self.calls = []

    def update(self, data):
        self.calls.append(("update", bytes(data), None))
        return xor(data)

    def encrypt(self, iv, data, aad):
        self.calls.append(("encrypt", bytes(data), bytes(aad)))
        return xor(data) + bytes([7]) * self.atag


class RecordingEngine:
    """Proxy around a real cipher engine: records what it is handed."""

    def __init__(self, eng):
        self.eng = eng
        self.calls = []

    def update(self, data):
        self.calls.append(("update", bytes(data), None))
        return self.eng.update(data)

    def encrypt(self, iv, data, aad):
        self.calls.append(("encrypt", bytes(data), bytes(aad)))
        return self.eng.encrypt(iv, data, aad)


class RecComp:
    """Proxy around a compressor (a library primitive): records what it returned."""

    def __init__(self, inner):
        self.inner = inner
        self.last = None

    def __call__(self, data):
        out = self.inner(data)
        self.last = bytes(out)
        return out


class ToyComp:
    """Stateful, expanding stand-in for a compressor: header byte, stream counter, reversed data."""

    def __init__(self):
        self.k = 0

    def __call__(self, data):
        self.k = (self.k + 1) & 0xFF
        return bytes([0x78, self.k]) + bytes(data)[::-1]


class ToyDecomp:
    def __init__(self):
        self.k = 0

    def decompress(self, b):
        self.k = (self.k + 1) & 0xFF
        if bytes(b[:2]) != bytes([0x78, self.k]):
            raise ValueError("toy stream header")
        return bytes(b[2:])[::-1]


INDEX_ERR = [8]     # exn_code IndexErr (coq/Lib/Bytes.v)


def framed_of(ctx, rc, dec, payload, case):
    """The bytes _build_packet must have framed: the compressor's output when one is installed."""
    if rc is None:
        return payload
    if rc.last is None:
        ctx.fail("compression-skipped", "a compressor is installed but send_message did not call it",
                 case=dict(case, payload_len=len(payload)))
        return payload
    return rc.last


def check_decompress(ctx, dec, plain, flen, payload, case):
    """Independent receiver: the framed payload decompresses (stream state kept) to the original message."""
    try:
        back = dec.decompress(plain[5:5 + flen])
    except Exception as e:
        back = "%s: %s" % (type(e).__name__, e)
    if back != payload:
        ctx.fail("compressed-payload", "the framed payload does not decompress to the message that was sent",
                 case=dict(case, payload_len=len(payload), plain=plain), expected=payload, observed=back)


class _Raw:
    """send_message only calls .asbytes() on its argument."""

    def __init__(self, b):
        self.b = b

    def asbytes(self):
        return self.b


def payload_of(n, salt):
    # byte 0 is a message type; content irrelevant to framing but checked for placement
    return bytes((37 * i + salt + 1) & 0xFF for i in range(n))


def lengths_for(bs, rng, thorough):
    base = list(range(0, 4 * bs + 9))
    if bs > 32:     # block sizes outside the table (thorough tier only): all of 0..bs+8, a sample of the rest
        base = list(range(0, bs + 9)) + sorted(rng.sample(range(bs + 9, 4 * bs + 9), 60))
    extra = [255, 256, 257, 1000, 4095, 4096, 32768 - 5, 32768, 35000, 65535, 65536]
    k = 6 if thorough else 2
    return base, rng.sample(extra, k) + [rng.randrange(300, 70000) for _ in range(k)]


# --------------------------------------------------------------------------- the RFC oracle


def parse_and_check(ctx, case, n, payload, wire, plain, calls, exp):
    """plain = the packet before encryption as recovered by the harness (independent decryption);
    exp = dict(bs=, excl=bool (length excluded from the aligned portion), enc=bool, tag=int,
               zero=bool or None).  Returns the summary list, or None when the packet cannot be parsed."""
    def bad(key, what, expected=None, observed=None):
        ctx.fail(key, what, case=dict(case, payload_len=n, wire=wire, plain=plain),
                 expected=expected, observed=observed)

    if len(plain) < 5:
        bad("short-packet", "packet shorter than 5 bytes", observed=len(plain))
        return None
    L = struct.unpack(">I", plain[:4])[0]
    pad = plain[4]
    pad_count = len(plain) - 5 - n
    tag = len(wire) - len(plain)
    align = max(8, exp["bs"])
    off = 4 if exp["excl"] else 0
    # RFC 4253 section 6
    if not (4 <= pad <= 255):
        bad("padding-range", "padding length outside 4..255", expected="4..255", observed=pad)
    if pad_count != pad:
        bad("padding-bytes", "padding_length byte differs from the number of padding bytes present",
            expected=pad, observed=pad_count)
    if L != 1 + n + pad or len(plain) != 4 + L:
        bad("length-field", "packet_length != 1 + len(payload) + padding_length, or != bytes that follow",
            expected={"1+n+pad": 1 + n + pad, "len-4": len(plain) - 4}, observed=L)
    if plain[5:5 + n] != payload:
        bad("payload-placement", "payload is not at offset 5 of the packet")
    if (len(plain) - off) % align != 0:
        bad("alignment", "encrypted portion (length field %s) is not a multiple of max(8, block size)=%d"
            % ("excluded" if exp["excl"] else "included", align), expected=0, observed=(len(plain) - off) % align)
    if pad > exp["bs"] + 3 and exp["bs"] >= 8:
        bad("padding-excess", "more than one block of superfluous padding", expected="<= bs+3", observed=pad)
    if tag != exp["tag"]:
        bad("tag-length", "MAC/tag length does not match the negotiated algorithm", expected=exp["tag"],
            observed=tag)
    if exp["excl"] or not exp["enc"]:
        if wire[:4] != plain[:4]:
            bad("clear-length", "length field is not sent in the clear (EtM / AEAD / no cipher)",
                expected=plain[:4], observed=wire[:4])
    # what the engine was handed
    if exp["enc"]:
        if len(calls) != 1:
            bad("engine-calls", "cipher engine called %d times for one packet" % len(calls))
            eoff, elen = -1, -1
        else:
            data = calls[0][1]
            elen = len(data)
            eoff = len(plain) - elen
            if eoff != off or data != plain[off:]:
                bad("enc-portion", "the cipher was not handed exactly packet[%d:]" % off, expected=off,
                    observed=eoff)
            if calls[0][0] == "encrypt" and calls[0][2] != plain[:4]:
                bad("aead-aad", "AEAD associated data is not the 4-byte length field", expected=plain[:4],
                    observed=calls[0][2])
    else:
        eoff, elen = 0, 0
        if calls:
            bad("engine-calls", "cipher engine called without a cipher")
        if wire != plain:
            bad("clear-bytes", "bytes written differ from the packet although no cipher is active")
    padding_bytes = plain[5 + n:]
    zero = 1 if padding_bytes == bytes(len(padding_bytes)) else 0
    if exp.get("zero") is not None and zero != (1 if exp["zero"] else 0):
        # not an RFC requirement (SHOULD be random); reported as a model disagreement by the caller
        pass
    return [L, pad, pad_count, zero, len(plain), eoff, elen, tag, len(wire)]


# --------------------------------------------------------------------------- toy drive


def toy_configs(ctx, table_bs):
    sizes = sorted(set(table_bs) | {8})
    extra = [32, 24, 64, 248] if ctx.thorough else []
    macs = [("sha1", 12), ("sha1", 20), ("sha256", 32), ("md5", 16), ("sha1", 40), ("sha512", 64)]
    cfgs = []
    for bs in sizes + [b for b in extra if b not in sizes]:
        cfgs.append(dict(enc=False, etm=False, aead=False, sdctr=False, bs=bs, mac=0, digest=0, atag=16,
                         hash=None, set_bs=(bs != 8), comp=None))
        cfgs.append(dict(enc=False, etm=False, aead=False, sdctr=False, bs=bs, mac=0, digest=0, atag=16,
                         hash=None, set_bs=(bs != 8), comp="zlib"))
        i = 0
        for etm in (False, True):
            for aead in (False, True):
                for sdctr in (False, True):
                    for _ in range(2):
                        h, msz = macs[(i + bs) % len(macs)]
                        i += 1
                        cfgs.append(dict(enc=True, etm=etm, aead=aead, sdctr=sdctr, bs=bs, mac=msz,
                                         digest=hashlib.new(h).digest_size, atag=16 if i % 3 else 9,
                                         hash=h, set_bs=True, comp=None))
                # compress-then-frame: one configuration per framing mode
                h, msz = macs[(i + bs) % len(macs)]
                cfgs.append(dict(enc=True, etm=etm, aead=aead, sdctr=False, bs=bs, mac=msz,
                                 digest=hashlib.new(h).digest_size, atag=16, hash=h, set_bs=True,
                                 comp="toy" if (etm != aead) else "zlib"))
    return cfgs


def toy_packetizer(cfg, sink=None):
    from paramiko.packet import Packetizer
    sink = sink if sink is not None else Sink()
    p = Packetizer(sink)
    return (p, sink, toy_install(p, cfg))


def toy_install(p, cfg):
    """Key switch on an existing Packetizer: set_outbound_cipher (+ compressor) for cfg; returns the engine."""
    eng = None
    if cfg["enc"]:
        eng = ToyCipher(cfg["atag"])
        p.set_outbound_cipher(eng, cfg["bs"], getattr(hashlib, cfg["hash"]), cfg["mac"], b"\x1f" * 20,
                              sdctr=cfg["sdctr"], etm=cfg["etm"], aead=cfg["aead"],
                              iv_out=b"\x00" * 12 if cfg["aead"] else None)
    elif cfg["set_bs"]:
        # no cipher but a non-default block size ("none" cipher after a re-key is not offered by paramiko;
        # exercised only so that the clear path is covered for every block size)
        p.set_outbound_cipher(None, cfg["bs"], None, 0, b"")
    p.c03_rc = p.c03_dec = None
    if cfg.get("comp"):
        from paramiko.compress import ZlibCompressor
        p.c03_rc = RecComp(ZlibCompressor() if cfg["comp"] == "zlib" else ToyComp())
        p.c03_dec = zlib.decompressobj() if cfg["comp"] == "zlib" else ToyDecomp()
        p.set_outbound_compressor(p.c03_rc)
    return eng


def toy_one(ctx, cfg, p, sink, eng, n, seq, case_extra=None):
    payload = payload_of(n, cfg["bs"] + seq)
    case = {"drive": "toy", "cfg": dict(cfg), "seq": seq}
    if case_extra:
        case.update(case_extra)
    if eng is not None:
        eng.calls = []
    if p.c03_rc is not None:
        p.c03_rc.last = None
    try:
        p.send_message(_Raw(payload))
    except Exception as e:
        sink.take()
        if n == 0 and isinstance(e, IndexError):
            return INDEX_ERR, case, 0          # no message type byte to read
        ctx.fail("send-raises", "send_message raised %s" % type(e).__name__, case=dict(case, payload_len=n),
                 observed=repr(e)[:200])
        return None, case, n
    wire = sink.take()
    raw_payload = payload
    payload = framed_of(ctx, p.c03_rc, p.c03_dec, raw_payload, case)
    n = len(payload)
    calls = list(eng.calls) if eng is not None else []
    # recover the packet: toy cipher is an XOR
    if not cfg["enc"]:
        plain = wire
        tag = b""
    else:
        if len(calls) == 1:
            elen = len(calls[0][1])
        else:
            elen = 0
        # branch taken by an RFC-conforming sender
        excl = cfg["etm"] or cfg["aead"]
        off = 4 if excl else 0
        body_end = off + elen
        plain = wire[:off] + xor(wire[off:body_end])
        tag = wire[body_end:]
    use_aead = cfg["enc"] and cfg["aead"] and not cfg["etm"]
    exp_tag = 0 if not cfg["enc"] else (cfg["atag"] if use_aead else (0 if cfg["aead"] else min(cfg["mac"], cfg["digest"])))
    exp = dict(bs=cfg["bs"], excl=(cfg["etm"] or cfg["aead"]), enc=cfg["enc"], tag=exp_tag)
    summ = parse_and_check(ctx, case, n, payload, wire, plain, calls, exp)
    if summ is not None and p.c03_rc is not None:
        check_decompress(ctx, p.c03_dec, plain, n, raw_payload, case)
    if summ is not None and cfg["enc"] and not cfg["aead"]:
        # the MAC is HMAC(key, seq || (ciphertext incl. clear length if EtM else plaintext packet))
        body = wire[:len(plain)] if cfg["etm"] else plain
        want = pyhmac.new(b"\x1f" * 20, struct.pack(">I", seq) + body, getattr(hashlib, cfg["hash"])).digest()
        if tag != want[:cfg["mac"]]:
            ctx.fail("mac-value", "appended MAC is not HMAC(seq || %s) truncated to mac_size"
                     % ("ciphertext" if cfg["etm"] else "plaintext packet"),
                     case=dict(case, payload_len=len(raw_payload), wire=wire), expected=want[:cfg["mac"]],
                     observed=tag)
    return summ, case, n


def build_only(ctx, cfg, p, n):
    """Packetizer._build_packet(payload) called directly; RFC checks on the packet alone."""
    payload = payload_of(n, 3)
    case = {"drive": "build", "cfg": dict(cfg), "payload_len": n}
    try:
        pkt = p._build_packet(payload)
    except Exception as e:
        ctx.fail("build-raises", "_build_packet raised %s" % type(e).__name__, case=case, observed=repr(e)[:200])
        return None, case
    excl = cfg["etm"] or cfg["aead"]
    if len(pkt) < 5:
        ctx.fail("short-packet", "packet shorter than 5 bytes", case=dict(case, plain=pkt))
        return None, case
    L, pad = struct.unpack(">IB", pkt[:5])
    cnt = len(pkt) - 5 - n
    if not (4 <= pad <= 255):
        ctx.fail("padding-range", "padding length outside 4..255", case=dict(case, plain=pkt), observed=pad)
    if cnt != pad:
        ctx.fail("padding-bytes", "padding_length byte differs from the number of padding bytes present",
                 case=dict(case, plain=pkt), expected=pad, observed=cnt)
    if L != 1 + n + pad or len(pkt) != 4 + L:
        ctx.fail("length-field", "packet_length != 1 + len(payload) + padding_length, or != bytes that follow",
                 case=dict(case, plain=pkt), expected=1 + n + pad, observed=L)
    if (len(pkt) - (4 if excl else 0)) % max(8, cfg["bs"]) != 0:
        ctx.fail("alignment", "encrypted portion is not a multiple of max(8, block size)",
                 case=dict(case, plain=pkt), observed=len(pkt))
    if pkt[5:5 + n] != payload:
        ctx.fail("payload-placement", "payload is not at offset 5 of the packet", case=dict(case, plain=pkt))
    tail = pkt[5 + n:]
    return [L, pad, cnt, 1 if tail == bytes(len(tail)) else 0, len(pkt)], case


def build_input(cfg, n):
    return coq(((cfg["enc"], cfg["etm"], cfg["aead"], cfg["sdctr"]), cfg["bs"], n))


def toy_input(cfg, raw, flen):
    return coq(((cfg["enc"], cfg["etm"], cfg["aead"], cfg["sdctr"]),
                (cfg["bs"], cfg["mac"], cfg["digest"], cfg["atag"]), (raw, flen)))


# --------------------------------------------------------------------------- table drive


def rec_packetizer_class():
    from paramiko.packet import Packetizer
    import threading

    class RecPacketizer(Packetizer):
        rec_engine = None
        rec_args = None
        rec_comp = None
        records = None          # end-to-end drive: list of (payload, framed payload, wire, engine calls, args)
        tee = None
        rec_lock = threading.RLock()

        def send_message(self, data):
            if self.records is None:
                return Packetizer.send_message(self, data)
            with self.rec_lock:
                raw = data.asbytes()
                if self.rec_engine is not None:
                    self.rec_engine.calls = []
                if self.rec_comp is not None:
                    self.rec_comp.last = None
                eng_before, comp_before, args_before = self.rec_engine, self.rec_comp, self.rec_args
                start = len(self.tee.sent)
                try:
                    return Packetizer.send_message(self, data)
                finally:
                    self.records.append(dict(
                        raw=raw, wire=bytes(self.tee.sent[start:]),
                        framed=(comp_before.last if comp_before is not None else raw),
                        calls=list(eng_before.calls) if eng_before is not None else [],
                        keyed=eng_before is not None, args=args_before))

        def set_outbound_compressor(self, compressor):
            self.rec_comp = RecComp(compressor)
            return Packetizer.set_outbound_compressor(self, self.rec_comp)

        def set_outbound_cipher(self, *a, **kw):
            names = ["block_engine", "block_size", "mac_engine", "mac_size", "mac_key", "sdctr", "etm", "aead",
                     "iv_out"]
            args = dict(zip(names, a))
            args.update(kw)
            if args.get("block_engine") is not None:
                self.rec_engine = RecordingEngine(args["block_engine"])
                args["block_engine"] = self.rec_engine
            self.rec_args = {k: args.get(k) for k in ("block_size", "mac_size", "sdctr", "etm", "aead")}
            return Packetizer.set_outbound_cipher(self, **args)

    return RecPacketizer


def make_transport():
    from paramiko.transport import Transport
    sink = Sink()
    t = Transport(sink, packetizer_class=rec_packetizer_class())
    return t, sink


class TeeSocket:
    """Passes everything to the real (loop) socket and keeps a copy of what was sent."""

    def __init__(self, sock, chop=0):
        self.sock = sock
        self.sent = bytearray()
        self.chop = chop            # > 0: accept at most this many bytes per send (short writes)

    def send(self, data):
        if self.chop:
            data = data[:self.chop]
        n = self.sock.send(data)
        self.sent += bytes(data[:n])
        return n

    def __getattr__(self, name):
        return getattr(self.sock, name)


def e2e_session(ctx, ci, cname, cinfo, mi, mname, minfo, sizes, compression, results):
    """END TO END: two real Transports negotiate (SecurityOptions restricted to one cipher / MAC / compression)
    over an in-memory socket pair; the client's outgoing packets (KEXINIT .. NEWKEYS in the clear, then
    SERVICE/IGNORE traffic under the negotiated suite) are received independently and checked."""
    import paramiko
    from paramiko.transport import Transport
    from _loop import LoopSocket
    case0 = {"drive": "e2e", "cipher": cname, "mac": mname, "compression": compression,
             "bytes_per_send": (0, 0, 13)[(ci + mi) % 3]}
    if getattr(ctx, "c03_e2e_failures", 0) >= 2:
        return          # handshakes already fail (reported with their suites): do not wait for 70 more timeouts
    a, b = LoopSocket(), LoopSocket()
    a.link(b)
    tee = TeeSocket(a, chop=(0, 0, 13)[(ci + mi) % 3])

    class RecTransport(Transport):
        c03_kex = None

        def _set_K_H(self, k, h):           # K is discarded after NEWKEYS: keep what the receiver needs
            self.c03_kex = (k, h, getattr(self.kex_engine, "hash_algo", hashlib.sha1))
            return Transport._set_K_H(self, k, h)

    tc = RecTransport(tee, packetizer_class=rec_packetizer_class())
    ts = Transport(b)
    tc.packetizer.tee = tee
    tc.packetizer.records = []
    import time as _time
    t_start = _time.time()
    try:
        for t in (tc, ts):
            o = t.get_security_options()
            o.ciphers = (cname,)
            o.digests = (mname,)
            o.compression = (compression,)
        ts.add_server_key(e2e_host_key())
        import threading
        ts.start_server(event=threading.Event(), server=paramiko.ServerInterface())
        try:
            tc.start_client(timeout=8)
        except Exception as e:
            ctx.c03_e2e_failures = getattr(ctx, "c03_e2e_failures", 0) + 1
            ctx.fail("e2e-handshake", "two paramiko Transports restricted to one suite cannot complete the "
                     "handshake (%s)" % type(e).__name__, case=case0, observed=repr(e)[:300])
            return
        if (tc.local_cipher, tc.local_mac, tc.local_compression) != (cname, mname, compression):
            ctx.fail("e2e-negotiated", "negotiation did not select the only offered algorithms", case=case0,
                     observed=[tc.local_cipher, tc.local_mac, tc.local_compression])
            return
        for n in sizes:
            tc.send_ignore(n)
        recs = list(tc.packetizer.records)
        rx = None
        zdec = None
        strict = bool(getattr(tc, "agreed_on_strict_kex", False))
        first_keyed = next((i for i, r in enumerate(recs) if r["keyed"]), None)
        for idx, r in enumerate(recs):
            # strict KEX (OpenSSH PROTOCOL 1.10): the sequence number restarts at 0 after NEWKEYS
            seq = idx - first_keyed if (strict and first_keyed is not None and idx >= first_keyed) else idx
            raw, wire, framed = r["raw"], r["wire"], r["framed"]
            case = dict(case0, seq=seq, msg_type=raw[0] if raw else None, payload_len=len(raw))
            if not r["keyed"]:
                exp = dict(bs=8, excl=False, enc=False, tag=0)
                summ = parse_and_check(ctx, case, len(raw), raw, wire, wire, [], exp)
                inp = coq((-1, 0, (len(raw), len(raw))))
            else:
                if rx is None:
                    K, H, halgo = tc.c03_kex
                    rx = Receiver(None, cname, cinfo, mname, minfo, False, kd=rfc_key(K, H, tc.session_id, halgo))
                    zdec = zlib.decompressobj() if compression != "none" else None
                    cs, ms = cipher_spec(cname, cinfo), mac_spec(mname, minfo)
                    want = {"block_size": cs["bs"], "mac_size": cs.get("tag", 16) if cs["aead"] else ms["size"],
                            "etm": (not cs["aead"]) and ms["etm"], "aead": cs["aead"]}
                    got = {k: (r["args"] or {}).get(k) for k in want}
                    if got != want:
                        ctx.fail("activate-args", "after a real negotiation the packetizer is configured differently "
                                 "from the negotiated algorithms", case=case, expected=want, observed=got)
                if framed is None:
                    ctx.fail("compression-skipped", "a compressor is installed but send_message did not call it",
                             case=case)
                    framed = raw
                try:
                    plain = rx.decrypt(wire)
                except Exception as e:
                    ctx.fail("undecodable", "an RFC-conforming receiver cannot decrypt the packet (%s)"
                             % type(e).__name__, case=dict(case, wire=wire))
                    break
                if not rx.aead and len(plain) != len(wire) - rx.tag_len:
                    ctx.fail("alignment", "encrypted portion is not a whole number of cipher blocks",
                             case=dict(case, wire=wire))
                    break
                summ = parse_and_check(ctx, case, len(framed), framed, wire, plain, r["calls"], rx.exp())
                if summ is not None and zdec is not None:
                    check_decompress(ctx, zdec, plain, len(framed), raw, case)
                if summ is not None:
                    ok, want, got = rx.mac_ok(seq, wire, plain)
                    if not ok:
                        ctx.fail("mac-value", "appended MAC is not the negotiated HMAC", case=dict(case, wire=wire),
                                 expected=want, observed=got)
                inp = coq((ci, mi, (len(raw), len(framed))))
            ctx.count(("e2e", cname, mname, compression, seq, len(raw)), nontrivial=True,
                      kind="e2e-keyed" if r["keyed"] else "e2e-clear")
            if summ is not None:
                results.append((inp, summ, case))
        if rx is None:
            ctx.c03_e2e_failures = getattr(ctx, "c03_e2e_failures", 0) + 1
            ctx.fail("e2e-no-keyed-packet", "no packet was sent under the negotiated keys", case=case0)
    finally:
        if _time.time() - t_start > 5:
            ctx.c03_e2e_failures = getattr(ctx, "c03_e2e_failures", 0) + 1      # a session normally takes 30 ms
        for t in (tc, ts):
            try:
                t.close()
            except Exception:
                pass


_E2E_KEY = []


def e2e_host_key():
    if not _E2E_KEY:
        import paramiko
        _E2E_KEY.append(paramiko.ECDSAKey.generate(bits=256))
    return _E2E_KEY[0]


def inc_iv(iv):
    # RFC 5647 section 7.1: 4-byte fixed field, 8-byte invocation counter incremented per packet
    return iv[:4] + ((int.from_bytes(iv[4:], "big") + 1) & (2 ** 64 - 1)).to_bytes(8, "big")


# ---- what the algorithm NAMES mean, independently of Transport._cipher_info / _mac_info ----------------------
# RFC 4253 section 6.4 (hmac-sha1 20, hmac-sha1-96 12, hmac-md5 16, hmac-md5-96 12), RFC 6668 section 2
# (hmac-sha2-256 32, hmac-sha2-512 64), OpenSSH PROTOCOL 1.1 (-etm@openssh.com: same MAC, EtM framing);
# RFC 4253 section 6.3 / RFC 4344 (3des-cbc: 8-byte blocks, 24-byte key; aes{128,192,256}-{cbc,ctr}: 16-byte
# blocks), RFC 5647 / OpenSSH PROTOCOL 1.6 (aes{128,256}-gcm@openssh.com: 16-byte blocks, 12-byte IV, 16-byte tag).

_HASHES = {"sha1": hashlib.sha1, "md5": hashlib.md5, "sha2-256": hashlib.sha256, "sha2-512": hashlib.sha512}


def rfc_mac(name):
    m = re.fullmatch(r"hmac-(sha1|md5|sha2-256|sha2-512)(-96)?(-etm@openssh\.com)?", name)
    if not m:
        return None
    h = _HASHES[m.group(1)]
    return {"hash": h, "digest": h().digest_size, "size": 12 if m.group(2) else h().digest_size,
            "etm": bool(m.group(3))}


def rfc_cipher(name):
    from cryptography.hazmat.primitives.ciphers import algorithms, modes
    try:
        from cryptography.hazmat.decrepit.ciphers.algorithms import TripleDES
    except ImportError:
        TripleDES = algorithms.TripleDES
    m = re.fullmatch(r"aes(128|192|256)-(ctr|cbc)", name)
    if m:
        return {"bs": 16, "key": int(m.group(1)) // 8, "iv": 16, "aead": False, "alg": algorithms.AES,
                "mode": modes.CTR if m.group(2) == "ctr" else modes.CBC}
    if name == "3des-cbc":
        return {"bs": 8, "key": 24, "iv": 8, "aead": False, "alg": TripleDES, "mode": modes.CBC}
    m = re.fullmatch(r"aes(128|256)-gcm@openssh\.com", name)
    if m:
        from cryptography.hazmat.primitives.ciphers.aead import AESGCM
        return {"bs": 16, "key": int(m.group(1)) // 8, "iv": 12, "aead": True, "alg": AESGCM, "mode": None,
                "tag": 16}
    return None


def cipher_spec(name, info):
    """Reference meaning of a cipher name; for a name without a reference the table entry itself."""
    sp = rfc_cipher(name)
    if sp is None:
        sp = {"bs": info["block-size"], "key": info["key-size"], "iv": info.get("iv-size", info["block-size"]),
              "aead": bool(info.get("is_aead", False)), "alg": info["class"], "mode": info.get("mode"), "tag": 16,
              "unreferenced": True}
    return sp


def mac_spec(name, info):
    sp = rfc_mac(name)
    if sp is None:
        sp = {"hash": info["class"], "digest": info["class"]().digest_size, "size": info["size"],
              "etm": ETM_MARKER in name, "unreferenced": True}
    return sp


def check_table_entries(ctx, ciphers, macs):
    """Every entry of the live tables against what its NAME means (the negotiated algorithm)."""
    for name, info in ciphers:
        sp = rfc_cipher(name)
        ctx.count(("table-entry", name), kind="table-entry")
        if sp is None:
            ctx.notes.append("no reference definition for cipher %s: its table entry is taken as given" % name)
            continue
        got = {"block-size": info.get("block-size"), "key-size": info.get("key-size"),
               "iv-size": info.get("iv-size", info.get("block-size")), "is_aead": bool(info.get("is_aead", False)),
               "class": getattr(info.get("class"), "__name__", None),
               "mode": getattr(info.get("mode"), "__name__", None)}
        want = {"block-size": sp["bs"], "key-size": sp["key"], "iv-size": sp["iv"], "is_aead": sp["aead"],
                "class": sp["alg"].__name__, "mode": getattr(sp["mode"], "__name__", None)}
        if got != want:
            ctx.fail("cipher-table-entry", "Transport._cipher_info[%r] does not describe the algorithm of that name"
                     % name, case={"drive": "entry", "cipher": name}, expected=want, observed=got)
    for name, info in macs:
        sp = rfc_mac(name)
        ctx.count(("table-entry", name), kind="table-entry")
        if sp is None:
            ctx.notes.append("no reference definition for MAC %s: its table entry is taken as given" % name)
            continue
        cls = info.get("class")
        try:
            probe = cls(b"abc").digest() == sp["hash"](b"abc").digest()
        except Exception:
            probe = False
        got = {"size": info.get("size"), "digest": probe}
        want = {"size": sp["size"], "digest": True}
        if got != want:
            ctx.fail("mac-table-entry", "Transport._mac_info[%r] does not describe the algorithm of that name "
                     "(MAC length in bytes / digest function)" % name, case={"drive": "entry", "mac": name},
                     expected=want, observed=got)


def rfc_mpint(n):
    if n == 0:
        return struct.pack(">I", 0)
    k = n.bit_length() // 8 + 1
    body = n.to_bytes(k, "big", signed=True)
    return struct.pack(">I", len(body)) + body


def rfc_key(K, H, sid, hash_algo):
    """RFC 4253 section 7.2 key derivation: HASH(K || H || X || session_id), extended with HASH(K || H || K1 ...)."""
    def kd(letter, nbytes):
        out = hash_algo(rfc_mpint(K) + H + letter.encode() + sid).digest()
        while len(out) < nbytes:
            out += hash_algo(rfc_mpint(K) + H + out).digest()
        return out[:nbytes]
    return kd


class Receiver:
    """Independent RFC-conforming receiver for one direction: keys by Transport._compute_key, engines straight
    from the cryptography package, MAC by hmac."""

    def __init__(self, t, cname, cinfo, mname, minfo, server_mode, kd=None):
        from cryptography.hazmat.primitives.ciphers import Cipher
        if kd is not None:
            t = types.SimpleNamespace(_compute_key=kd)
        cs, ms = cipher_spec(cname, cinfo), mac_spec(mname, minfo)
        self.bs = cs["bs"]
        self.aead = cs["aead"]
        self.etm = (not self.aead) and ms["etm"]
        self.ms = ms
        self.tag_len = cs.get("tag", 16) if self.aead else ms["size"]
        self.iv = t._compute_key("B" if server_mode else "A", cs["iv"])
        key = t._compute_key("D" if server_mode else "C", cs["key"])
        self.mac_key = t._compute_key("F" if server_mode else "E", ms["digest"])
        if self.aead:
            self.dec = cs["alg"](key)
        else:
            self.dec = Cipher(cs["alg"](key), cs["mode"](self.iv)).decryptor()

    def exp(self):
        return dict(bs=self.bs, excl=(self.aead or self.etm), enc=True, tag=self.tag_len)

    def decrypt(self, wire):
        tl = self.tag_len
        if self.aead:
            body = self.dec.decrypt(self.iv, wire[4:], wire[:4])
            self.iv = inc_iv(self.iv)
            return wire[:4] + body
        if self.etm:
            return wire[:4] + self.dec.update(wire[4:len(wire) - tl])
        return self.dec.update(wire[:len(wire) - tl])

    def mac_ok(self, seq, wire, plain):
        if self.aead:
            return True, None, None
        body = wire[:len(wire) - self.tag_len] if self.etm else plain
        want = pyhmac.new(self.mac_key, struct.pack(">I", seq) + body, self.ms["hash"]).digest()[:self.ms["size"]]
        got = wire[len(wire) - self.tag_len:]
        return got == want, want, got


def differing(items, i, key):
    """Index of a table entry (rotating from i+1) whose framing-relevant key differs from entry i's."""
    n = len(items)
    for d in range(1, n):
        j = (i + d) % n
        if key(items[j]) != key(items[i]):
            return j
    return (i + 1) % n


def table_packet(ctx, pk, sink, rx, raw_n, salt, seq, case0, ci, mi, zdec, results):
    """Send one message through the real send_message, receive it independently, check, record.
    Returns 'empty' | 'ok' | 'lost' (receiver stream state lost / send failed)."""
    raw_payload = payload_of(raw_n, salt)
    pk.rec_engine.calls = []
    if pk.rec_comp is not None:
        pk.rec_comp.last = None
    case = dict(case0, seq=seq)
    try:
        pk.send_message(_Raw(raw_payload))
    except Exception as e:
        sink.take()
        if raw_n == 0 and isinstance(e, IndexError):
            ctx.count(("table", case0["cipher"], case0["mac"], case0.get("phase"), 0), nontrivial=True,
                      kind="table-empty-message")
            results.append((coq((ci, mi, (0, 0))), INDEX_ERR, dict(case, payload_len=0)))
            return "empty"
        ctx.fail("send-raises", "send_message raised %s for a negotiable suite" % type(e).__name__,
                 case=dict(case, payload_len=raw_n), observed=repr(e)[:200])
        return "lost"
    wire = sink.take()
    payload = framed_of(ctx, pk.rec_comp, zdec, raw_payload, case)
    n = len(payload)
    calls = list(pk.rec_engine.calls)
    plain = None
    try:
        plain = rx.decrypt(wire)
    except Exception as e:      # InvalidTag, ValueError on lengths, ...
        ctx.fail("undecodable", "an RFC-conforming receiver cannot decrypt the packet (%s)" % type(e).__name__,
                 case=dict(case, payload_len=raw_n, wire=wire))
    if plain is not None and not rx.aead and len(plain) != len(wire) - rx.tag_len:
        # a block cipher that was handed a partial block keeps it back
        ctx.fail("alignment", "encrypted portion is not a whole number of cipher blocks (receiver's decryptor "
                 "returned %d of %d bytes)" % (len(plain), len(wire) - rx.tag_len),
                 case=dict(case, payload_len=raw_n, wire=wire))
        plain = None
    if plain is not None:
        summ = parse_and_check(ctx, case, n, payload, wire, plain, calls, rx.exp())
        if summ is not None and zdec is not None:
            check_decompress(ctx, zdec, plain, n, raw_payload, case)
        if summ is not None:
            ok, want, got = rx.mac_ok(seq, wire, plain)
            if not ok:
                ctx.fail("mac-value", "appended MAC is not the negotiated HMAC over seq || %s"
                         % ("ciphertext" if rx.etm else "plaintext packet"),
                         case=dict(case, payload_len=raw_n, wire=wire), expected=want, observed=got)
            results.append((coq((ci, mi, (raw_n, n))), summ, dict(case, payload_len=raw_n, framed_len=n)))
    ctx.count(("table", case0["cipher"], case0["mac"], case0.get("phase"), raw_n), nontrivial=True,
              kind=("table-aead" if rx.aead else ("table-etm" if rx.etm else "table-classic"))
              + ("" if zdec is None else "-zlib") + ("-rekey" if case0.get("phase") == "after re-key" else ""))
    return "ok" if plain is not None else "lost"


def table_suite(ctx, ci, cname, cinfo, mi, mname, minfo, lens, server_mode, results, compression="none",
                rekey_to=None, remote=None, rekey_lens=None):
    """One Transport: the real _activate_outbound for (cipher, MAC), packets of the given lengths, then (rekey_to =
    (ci2, mi2)) a second _activate_outbound on the SAME Transport / Packetizer for another suite and more packets.
    remote = (cipher name, MAC name) negotiated for the opposite direction (differs from the local ones).
    Appends (input, summary, case) to results."""
    ciphers, macs = live_tables()
    t, sink = make_transport()
    t.server_mode = server_mode
    t.local_compression = compression
    t.remote_compression = "none"
    t.K = 0x1234567890ABCDEF1234567890ABCDEF ^ (ci * 977 + mi)
    t.H = hashlib.sha256(b"H" + cname.encode() + mname.encode()).digest()
    t.session_id = hashlib.sha256(b"sid").digest()
    t.kex_engine = types.SimpleNamespace(hash_algo=hashlib.sha256)
    t._remote_ext_info = None        # normally set while parsing the peer's KEXINIT
    session = {"cipher": cname, "mac": mname, "server_mode": server_mode, "compression": compression,
               "rekey_to": list(rekey_to) if rekey_to else None, "remote": list(remote) if remote else None}
    pk = t.packetizer
    rx = None           # receiver for the keys in force (None: before the first NEWKEYS)
    seq = 0
    zdec = None
    steps = [(ci, cname, cinfo, mi, mname, minfo, lens, "first keys")]
    if rekey_to is not None:
        ci2, mi2 = rekey_to
        steps.append((ci2, ciphers[ci2][0], ciphers[ci2][1], mi2, macs[mi2][0], macs[mi2][1],
                      rekey_lens if rekey_lens is not None else lens, "after re-key"))
    for (sci, scname, scinfo, smi, smname, sminfo, slens, phase) in steps:
        cs, ms = cipher_spec(scname, scinfo), mac_spec(smname, sminfo)      # what the NAMES mean
        bs = cs["bs"]
        aead = cs["aead"]
        etm = (not aead) and ms["etm"]
        case0 = {"drive": "table", "cipher": scname, "mac": smname, "phase": phase, "session": session,
                 "framing_class": [bs, aead, scname.endswith("-ctr"), etm, 16 if aead else ms["size"],
                                   0 if aead else ms["digest"], compression]}
        t.local_cipher = scname
        t.local_mac = smname
        if remote is not None:
            # what was negotiated for the opposite direction must not influence outgoing packets
            t.remote_cipher, t.remote_mac = remote
        pk.rec_args = None
        old_engine = pk.rec_engine
        try:
            t._activate_outbound()
        except Exception as e:
            ctx.fail("activate-raises", "_activate_outbound raised %s for a negotiable suite" % type(e).__name__,
                     case=case0, observed=repr(e)[:200])
            return
        # NEWKEYS went out under the keys in force before this activation
        wire = sink.take()
        ctx.count(("newkeys", scname, smname, phase, session["cipher"], session["mac"]), kind="table-newkeys")
        if rx is None:
            exp = dict(bs=8, excl=False, enc=False, tag=0)
            summ = parse_and_check(ctx, dict(case0, phase="NEWKEYS before " + phase), 1, b"\x15", wire, wire, [], exp)
            if summ is not None:
                results.append((coq((-1, 0, (1, 1))), summ, dict(case0, phase="NEWKEYS", payload_len=1)))
        else:
            # encrypted NEWKEYS of a re-key: one more packet of the previous suite (compressed, if that is on)
            try:
                plain = rx.decrypt(wire)
            except Exception as e:
                plain = None
                ctx.fail("undecodable", "NEWKEYS of a re-key cannot be decrypted with the keys in force (%s)"
                         % type(e).__name__, case=dict(case0, wire=wire))
            if plain is not None:
                ok, want, got = rx.mac_ok(seq, wire, plain)
                if len(plain) != len(wire) - rx.tag_len or not ok:
                    ctx.fail("rekey-newkeys", "NEWKEYS of a re-key is not framed under the keys in force",
                             case=dict(case0, wire=wire, plain=plain))
                if zdec is not None:
                    try:
                        zdec.decompress(plain[5:len(plain) - plain[4]])
                    except Exception:
                        pass
        seq += 1
        if pk.rec_engine is None or pk.rec_engine is old_engine or pk.rec_args is None:
            ctx.fail("no-engine", "_activate_outbound installed no cipher engine", case=case0)
            return
        if compression != "none" and zdec is None:
            if pk.rec_comp is None:
                ctx.fail("no-compressor", "_activate_outbound installed no compressor although %s was negotiated"
                         % compression, case=case0)
            else:
                zdec = zlib.decompressobj()
        elif compression != "none" and phase == "after re-key":
            # _activate_outbound installs a fresh compressor at every key switch
            zdec = zlib.decompressobj()
        # what _activate_outbound configured, against the algorithms negotiated for THIS direction
        want_args = {"block_size": bs, "mac_size": cs.get("tag", 16) if aead else ms["size"], "etm": etm,
                     "aead": aead}
        got_args = {k: pk.rec_args.get(k) for k in want_args}
        if got_args != want_args:
            ctx.fail("activate-args", "_activate_outbound configured the packetizer differently from the algorithms "
                     "negotiated for the outbound direction", case=case0, expected=want_args, observed=got_args)
        rx = Receiver(t, scname, scinfo, smname, sminfo, server_mode)
        for raw_n in slens:
            st = table_packet(ctx, pk, sink, rx, raw_n, sci * 11 + smi, seq, case0, sci, smi, zdec, results)
            if st == "lost":
                return      # the stream state of the receiver is lost; one failing input is enough
            if st == "ok":
                seq += 1


# --------------------------------------------------------------------------- run


def live_tables():
    from paramiko.transport import Transport
    return list(Transport._cipher_info.items()), list(Transport._mac_info.items())


def run_toy_drive(ctx, table_bs, only=None, builds=None):
    results = []
    for cfg in toy_configs(ctx, table_bs):
        if only is not None and any(cfg.get(k) != v for k, v in only["cfg"].items()):
            continue
        base, big = lengths_for(cfg["bs"], ctx.rng, ctx.thorough)
        if cfg["bs"] not in table_bs and cfg["bs"] != 8:
            big = big[:1]
        if only is not None:
            base, big = [only["payload_len"]], []
        p, sink, eng = toy_packetizer(cfg)
        seq = 0
        if builds is not None:
            # length 0 (and two more) through _build_packet directly
            for n in ([0, 1, cfg["bs"] - 4] if only is None else base):
                summ, case = build_only(ctx, cfg, p, n)
                ctx.count(("build", tuple(sorted(cfg.items(), key=str)), n), nontrivial=True, kind="build-only")
                if summ is not None:
                    builds.append((build_input(cfg, n), summ, case))
            if only is not None:
                continue
        for n in base + big:
            summ, case, flen = toy_one(ctx, cfg, p, sink, eng, n, seq)
            if summ is not INDEX_ERR:
                seq += 1
            mode = "clear" if not cfg["enc"] else ("etm" if cfg["etm"] else ("aead" if cfg["aead"] else "classic"))
            if cfg.get("comp"):
                mode += "-compressed"
            ctx.count(("toy", tuple(sorted(cfg.items(), key=str)), n), nontrivial=True, kind="toy-" + mode)
            if summ is not None:
                results.append((toy_input(cfg, n, flen), summ, dict(case, payload_len=n, framed_len=flen)))
    return results


def switch_modes():
    mk = lambda **kw: dict(dict(enc=True, etm=False, aead=False, sdctr=False, atag=16, set_bs=True, comp=None), **kw)
    return [mk(bs=16, mac=12, digest=20, hash="sha1"),                      # classic, aes-cbc like
            mk(bs=8, mac=16, digest=16, hash="md5"),                        # classic, 3des like
            mk(bs=16, mac=20, digest=20, hash="sha1", sdctr=True),          # classic, ctr
            mk(bs=16, mac=32, digest=32, hash="sha256", etm=True),          # EtM
            mk(bs=8, mac=64, digest=64, hash="sha512", etm=True),           # EtM, 8-byte blocks
            mk(bs=16, mac=16, digest=20, hash="sha1", aead=True)]           # AEAD


def run_switch_drive(ctx, only=None):
    """Key switches: ONE Packetizer taken through a sequence of set_outbound_cipher calls across framing modes
    (re-key with different algorithms); framing is checked after every switch.  All ordered pairs of modes plus
    seeded longer sequences."""
    modes = switch_modes()
    seqs = [[a, b] for a in range(len(modes)) for b in range(len(modes)) if a != b]
    for _ in range(40 if ctx.thorough else 8):
        k = ctx.rng.randrange(3, 6)
        sq = [ctx.rng.randrange(len(modes))]
        while len(sq) < k:
            nxt = ctx.rng.randrange(len(modes))
            if nxt != sq[-1]:
                sq.append(nxt)
        seqs.append(sq)
    if only is not None:
        seqs = [only]
    results = []
    for sq in seqs:
        from paramiko.packet import Packetizer
        sink = Sink()
        p = Packetizer(sink)
        seq = 0
        for step, mi in enumerate(sq):
            cfg = modes[mi]
            eng = toy_install(p, cfg)
            bs = cfg["bs"]
            lens = [1, bs] if (step == 0 and only is None) else list(range(1, bs + 9)) + [4 * bs + 8]
            for n in lens:
                summ, case, flen = toy_one(ctx, cfg, p, sink, eng, n, seq,
                                           case_extra={"drive": "switch", "sequence": sq, "step": step})
                seq += 1
                ctx.count(("switch", tuple(sq), step, n), nontrivial=True,
                          kind="switch-%s-after-%s" % (mode_name(cfg), "none" if step == 0 else mode_name(modes[sq[step - 1]])))
                if summ is not None:
                    results.append((toy_input(cfg, n, flen), summ, dict(case, payload_len=n, framed_len=flen)))
    return results


def run_partial_send_drive(ctx, only=None):
    """SHORT WRITES: the socket takes 1, 7, block size - 1 or random counts of bytes per send() and raises
    socket.timeout / EAGAIN in between; the concatenation of what it accepted must be exactly the framed packet."""
    clear = dict(enc=False, etm=False, aead=False, sdctr=False, bs=8, mac=0, digest=0, atag=16, hash=None,
                 set_bs=False, comp=None)
    modes = [clear] + switch_modes()
    results = []
    for mi, cfg in enumerate(modes):
        policies = [1, 7, cfg["bs"] - 1, cfg["bs"], "random"]
        for policy in policies:
            if only is not None and (only["mode"] != mi or only["policy"] != policy):
                continue
            p, sink, eng = toy_packetizer(cfg, sink=ChoppySink(policy, ctx.seed))
            bs = cfg["bs"]
            lens = [1, bs - 5, bs, 2 * bs + 3, 300] + ([ctx.rng.randrange(20, 2000)] if only is None else [])
            if only is not None and only["payload_len"] not in lens:
                lens.append(only["payload_len"])
            for seq, n in enumerate(lens):
                summ, case, flen = toy_one(ctx, cfg, p, sink, eng, n, seq,
                                           case_extra={"drive": "partial-send", "mode": mi, "policy": policy})
                ctx.count(("partial", mi, policy, n), nontrivial=True, kind="partial-send-" + mode_name(cfg))
                if summ is not None:
                    results.append((toy_input(cfg, n, flen), summ, dict(case, payload_len=n, framed_len=flen)))
    return results


def run_two_objects_drive(ctx, only=None):
    """TWO LIVE Packetizers with different suites in one process (state that is per instance must stay so): the
    first is used again after the second was configured and used."""
    from paramiko.packet import Packetizer
    modes = switch_modes()
    pairs = [(a, b) for a in range(len(modes)) for b in range(len(modes)) if a != b]
    if not ctx.thorough and only is None:
        pairs = [pq for k, pq in enumerate(pairs) if (k + ctx.seed) % 3 == 0]
    if only is not None:
        pairs = [tuple(only)]
    results = []
    for a, b in pairs:
        objs = []
        for m in (a, b):
            sink = Sink()
            p = Packetizer(sink)
            objs.append([p, sink, None, modes[m], 0])
        plan = [(0, "install", None), (0, "send", [1, modes[a]["bs"]]), (1, "install", None),
                (1, "send", [1, modes[b]["bs"]]), (0, "send", list(range(1, modes[a]["bs"] + 9))),
                (1, "send", list(range(1, modes[b]["bs"] + 9)))]
        for who, what, lens in plan:
            o = objs[who]
            if what == "install":
                o[2] = toy_install(o[0], o[3])
                continue
            for n in lens:
                summ, case, flen = toy_one(ctx, o[3], o[0], o[1], o[2], n, o[4],
                                           case_extra={"drive": "two-objects", "pair": [a, b], "object": who})
                o[4] += 1
                ctx.count(("two", a, b, who, o[4], n), nontrivial=True, kind="two-objects-" + mode_name(o[3]))
                if summ is not None:
                    results.append((toy_input(o[3], n, flen), summ, dict(case, payload_len=n, framed_len=flen)))
    return results


def mode_name(cfg):
    return "clear" if not cfg["enc"] else ("etm" if cfg["etm"] else ("aead" if cfg["aead"] else "classic"))


def pick_remote(items, i, marker_key, size_key):
    """A table entry for the opposite direction that frames differently from entry i (EtM-ness and size)."""
    n = len(items)
    order = [(i + d) % n for d in range(1, n)]
    for j in order:
        if marker_key(items[j]) != marker_key(items[i]) and size_key(items[j]) != size_key(items[i]):
            return j
    for j in order:
        if marker_key(items[j]) != marker_key(items[i]) or size_key(items[j]) != size_key(items[i]):
            return j
    return order[0] if order else i


def suite_plan(ctx, ciphers, macs, ci, mi):
    """Seed-rotated parameters of one table-drive session."""
    nc, nm = len(ciphers), len(macs)
    rc = pick_remote(ciphers, ci, lambda x: bool(x[1].get("is_aead", False)), lambda x: x[1]["block-size"])
    rm = pick_remote(macs, mi, lambda x: ETM_MARKER in x[0], lambda x: x[1]["size"])
    # re-key partner: another cipher class and a MAC of the other EtM-ness (EtM/AEAD -> classic and back)
    ci2 = (ci + 4 + ctx.seed) % nc
    flip = [j for j in range(nm) if (ETM_MARKER in macs[j][0]) != (ETM_MARKER in macs[mi][0])]
    mi2 = flip[(mi + ctx.seed) % len(flip)] if flip else (mi + 1) % nm
    return dict(server_mode=bool((ci + mi + ctx.seed) % 2),
                compression="zlib" if (ci + 2 * mi + ctx.seed) % 3 == 0 else "none",
                remote=(ciphers[rc][0], macs[rm][0]), rekey_to=(ci2, mi2))


def compare(ctx, fn, ty, results, what):
    if not results:
        return
    # the model is a function of the case input alone: evaluate each distinct (input, observed summary) once
    seen = set()
    uniq = []
    for r in results:
        k = (r[0], tuple(r[1]))
        if k not in seen:
            seen.add(k)
            uniq.append(r)
    results = uniq
    shard = max(200, -(-len(results) // 8))       # at most 8 case files: one round of parallel coqc
    try:
        bad = ctx.model_mismatches(fn, ty, [(i, s) for i, s, _ in results], shard=shard)
    except Exception as e:      # a model that cannot be evaluated never hides what the oracle found
        ctx.disagree("%s: the model could not be evaluated (%s: %s)" % (what, type(e).__name__, str(e)[-400:]))
        return
    for k in bad[:3]:
        ctx.disagree("%s: packet summary [L, pad, padbytes, zeropad, packet_len, enc_off, enc_len, tag, wire_len] "
                     "differs from the model" % what, case=results[k][2], impl=results[k][1])


def run(ctx):
    ctx.rule = ("exhaustive: toy drive = every framing mode (clear, classic, EtM, AEAD, etm+aead) x sdctr x every "
                "block size of the generated table (+8; 24, 32, 64, 248 in the thorough tier) x payload lengths "
                "0..4*bs+8 plus seeded large lengths; table drive = every (cipher, MAC) pair of the live tables "
                "configured by the real _activate_outbound with real engines x lengths 0..4*bs+8 (+ large); length 0 "
                "goes through send_message (IndexError expected) and through _build_packet directly; compress-then-"
                "frame: one toy configuration per framing mode (paramiko's ZlibCompressor or an expanding stand-in) "
                "and a seed-rotated third of the table suites with local_compression=zlib, independently inflated. "
                "Key switches on the SAME Packetizer: toy drive = all ordered pairs of six framing modes plus seeded "
                "sequences of 3-5 switches; table drive = every session re-keys once to a suite of another class "
                "(second real _activate_outbound on the same Transport), and the algorithms of the opposite "
                "direction (remote_cipher / remote_mac) always differ from the outbound ones.  Two live Packetizers "
                "with different suites, the first used again after the second.  Short writes: sockets that accept 1, 7, "
                "bs-1, bs or random byte counts per send() with socket.timeout / EAGAIN in between (the accepted bytes "
                "must be exactly the framed packet); a third of the end-to-end sessions use a 13-byte-per-send "
                "socket.  END TO END: two real Transports "
                "negotiate (SecurityOptions restricted to one cipher/MAC/compression; every pair of the tables each "
                "run, a seed-rotated subset compared with the model in the quick tier) and the client's wire bytes "
                "are received independently (own RFC 4253 7.2 key derivation).  Every table entry is compared with an "
                "independent reference of what its NAME means (RFC 4253 6.3/6.4, 4344, 5647, 6668, OpenSSH PROTOCOL). "
                "Every case is a distinct (configuration, length) and non-trivial (a packet is built, written, "
                "decrypted and parsed).")
    ctx.trusted += ["gen/c03.py AST translator (fail-closed) and the wrappers in coq/Model/C03.v",
                    "library engines: update() preserves length, AESGCM.encrypt appends a 16-byte tag, "
                    "HMAC digest sizes (exercised with the real engines in the table drive)"]
    ctx.assumptions += ["the compressor is a library primitive: any function; the framing theorems are about the "
                        "compressed data, whose length is an input of the model",
                        "os.urandom is pinned to a constant in the harness process (padding content is an input)"]
    try:
        ctx.prove()
    except Exception as e:      # the implementation-level oracle below runs whatever happens to the proofs
        ctx.disagree("building the proofs raised %s: %s" % (type(e).__name__, str(e)[-600:]))
    ciphers, macs = live_tables()
    table_bs = sorted({info["block-size"] for _, info in ciphers})

    check_table_entries(ctx, ciphers, macs)
    with pinned_urandom():
        builds = []
        toy = run_toy_drive(ctx, table_bs, builds=builds)
        toy += run_switch_drive(ctx)
        toy += run_two_objects_drive(ctx)
        toy += run_partial_send_drive(ctx)
        table = []
        for ci, (cname, cinfo) in enumerate(ciphers):
            for mi, (mname, minfo) in enumerate(macs):
                base, big = lengths_for(cinfo["block-size"], ctx.rng, ctx.thorough)
                if not ctx.thorough and (ci + mi + ctx.seed) % 4:
                    big = []
                plan = suite_plan(ctx, ciphers, macs, ci, mi)
                bs2 = ciphers[plan["rekey_to"][0]][1]["block-size"]
                table_suite(ctx, ci, cname, cinfo, mi, mname, minfo, base + big, results=table,
                            rekey_lens=(list(range(0, 4 * bs2 + 9)) if ctx.thorough else list(range(0, bs2 + 9))),
                            **plan)
        # END TO END through the public entry points: every MAC (and a seed-rotated cipher) each quick run, every
        # pair in the thorough tier
        e2e = []
        pairs = [(ci, mi) for ci in range(len(ciphers)) for mi in range(len(macs))]
        # every pair goes through the oracle in both tiers (30 ms each); the quick tier compares a seed-rotated
        # subset (every MAC, every cipher) with the model
        to_model = set(pairs) if ctx.thorough else set(
            [((3 * mi + ctx.seed) % len(ciphers), mi) for mi in range(len(macs))]
            + [(ci, (ci + ctx.seed) % len(macs)) for ci in range(len(ciphers))])
        e2e_all = 0
        for k, (ci, mi) in enumerate(pairs):
            bs = ciphers[ci][1]["block-size"]
            sizes = list(range(0, bs + 8)) + [ctx.rng.randrange(100, 3000)]
            res = []
            e2e_session(ctx, ci, ciphers[ci][0], ciphers[ci][1], mi, macs[mi][0], macs[mi][1], sizes,
                        "zlib" if (k + ctx.seed) % 4 == 0 else "none", res)
            e2e_all += len(res)
            if (ci, mi) in to_model:
                e2e += res
    ctx.exhaustive = True
    ctx.log("toy drive: %d packets; table drive: %d packets over %d suites; end-to-end: %d packets "
            "(%d to the model)" % (len(toy), len(table), len(ciphers) * len(macs), e2e_all, len(e2e)))
    compare(ctx, "run_build", "((bool * bool * bool * bool) * Z * Z)", builds, "_build_packet")
    compare(ctx, "run_toy", "((bool * bool * bool * bool) * (Z * Z * Z * Z) * (Z * Z))", toy, "toy drive")
    if not ctx.thorough:
        # every packet above went through the RFC oracle; for the model comparison the quick tier keeps all
        # lengths for the first suite of each framing class (block size, aead, sdctr, etm, tag, digest) and a
        # few lengths for the suites that frame identically
        first = {}
        sel = []
        for r in table:
            c = r[2]
            k = tuple(c["framing_class"][:6])       # the model is over the framed length: compression apart
            first.setdefault(k, (c["cipher"], c["mac"]))
            n, bs = c["payload_len"], c["framing_class"][0]
            if c.get("phase") == "after re-key":
                if n in (0, 1, bs - 5, bs, bs + 8):
                    sel.append(r)
                continue
            if first[k] == (c["cipher"], c["mac"]) or n in (0, 1, bs - 5, bs, 4 * bs + 8) or n > 4 * bs + 8:
                sel.append(r)
        ctx.notes.append("quick tier: %d of %d table-drive packets compared with the model (all %d checked by "
                         "the RFC oracle)" % (len(sel), len(table), len(table)))
        table = sel
    compare(ctx, "run_table", "(Z * Z * (Z * Z))", table + e2e, "table / end-to-end drive")
    for r in (e2e[-1:] + toy[:2] + table[40:42] + table[-1:]):
        ctx.sample({"case": r[2], "impl_summary": r[1]})


def replay(ctx, rep):
    case = rep["case"]
    ciphers, macs = live_tables()
    with pinned_urandom():
        if case.get("drive") == "entry":
            check_table_entries(ctx, ciphers, macs)
        elif case.get("drive") == "build":
            res = []
            run_toy_drive(ctx, sorted({info["block-size"] for _, info in ciphers}),
                          only={"cfg": case["cfg"], "payload_len": case["payload_len"]}, builds=res)
            compare(ctx, "run_build", "((bool * bool * bool * bool) * Z * Z)", res, "_build_packet")
        elif case.get("drive") == "toy":
            res = run_toy_drive(ctx, sorted({info["block-size"] for _, info in ciphers}),
                                only={"cfg": case["cfg"], "payload_len": case["payload_len"]})
            ctx.count(("replay", repr(case)[:200]))
            compare(ctx, "run_toy", "((bool * bool * bool * bool) * (Z * Z * Z * Z) * (Z * Z))", res, "toy drive")
        elif case.get("drive") == "switch":
            res = run_switch_drive(ctx, only=list(case["sequence"]))
            compare(ctx, "run_toy", "((bool * bool * bool * bool) * (Z * Z * Z * Z) * (Z * Z))", res, "key switches")
        elif case.get("drive") == "partial-send":
            res = run_partial_send_drive(ctx, only={"mode": case["mode"], "policy": case["policy"],
                                                    "payload_len": case["payload_len"]})
            compare(ctx, "run_toy", "((bool * bool * bool * bool) * (Z * Z * Z * Z) * (Z * Z))", res, "short writes")
        elif case.get("drive") == "two-objects":
            res = run_two_objects_drive(ctx, only=list(case["pair"]))
            compare(ctx, "run_toy", "((bool * bool * bool * bool) * (Z * Z * Z * Z) * (Z * Z))", res, "two objects")
        elif case.get("drive") == "e2e":
            res = []
            for ci, (cname, cinfo) in enumerate(ciphers):
                for mi, (mname, minfo) in enumerate(macs):
                    if cname == case["cipher"] and mname == case["mac"]:
                        e2e_session(ctx, ci, cname, cinfo, mi, mname, minfo,
                                    list(range(0, cinfo["block-size"] + 8)), case.get("compression", "none"), res)
            compare(ctx, "run_table", "(Z * Z * (Z * Z))", res, "end-to-end drive")
        elif case.get("drive") == "table":
            res = []
            ses = case.get("session") or {"cipher": case["cipher"], "mac": case["mac"]}
            for ci, (cname, cinfo) in enumerate(ciphers):
                for mi, (mname, minfo) in enumerate(macs):
                    if cname == ses["cipher"] and mname == ses["mac"]:
                        # the whole session again: same stream positions as the recorded case
                        lens = list(range(0, 4 * cinfo["block-size"] + 9))
                        n = case.get("payload_len", 0)
                        if n not in lens and case.get("phase") != "after re-key":
                            lens.append(n)
                        rk = tuple(ses["rekey_to"]) if ses.get("rekey_to") else None
                        rl = None
                        if rk is not None:
                            rl = list(range(0, 4 * ciphers[rk[0]][1]["block-size"] + 9))
                            if n not in rl and case.get("phase") == "after re-key":
                                rl.append(n)
                        table_suite(ctx, ci, cname, cinfo, mi, mname, minfo, lens,
                                    server_mode=bool(ses.get("server_mode")), results=res,
                                    compression=ses.get("compression", "none"), rekey_to=rk,
                                    remote=tuple(ses["remote"]) if ses.get("remote") else None, rekey_lens=rl)
            compare(ctx, "run_table", "(Z * Z * (Z * Z))", res, "table drive")
        else:
            run(ctx)
