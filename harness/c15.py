"""C15 — unauthenticated clients cannot reach connection-layer services.

Proof: coq/Props/C15_props.v over coq/Model/C15.v (run-loop dispatch of types 80..100 and
Transport._ensure_authed) on top of the shared server-side auth model coq/Model/C14.v.
Tie: real loopback server Transport (scripted ServerInterface, stub GSS context) + raw client peer that
sends arbitrary auth-layer prefixes (failed / partial / pending interactive / gssapi) followed by every
connection-layer type 80..100 with random payloads; the model's own definitions run inside Coq
(vm_compute) on the same packet lists.  Search oracle: no application callback for channel opens /
global requests, no channel object, empty accept() queue, refusal replies, for every pre-auth packet.
"""
import os
import struct
import threading
import time

from common import coq
import c14
from c14 import s_, RES, CB

PID = "C15"
GENS = c14.GENS
LEVEL_TEXT = ("Machine-checked proof (Coq) that in the model of Transport.run's dispatch an unauthenticated server "
              "never consults the application, never creates a channel, never delivers channel traffic and never "
              "runs a connection-layer handler for any message type 80..100 — per step from every state, and over "
              "every history of auth-layer and connection-layer packets that does not end authenticated (induction "
              "over packet lists).  Tied to transport.py / auth_handler.py by a differential run of the model "
              "(vm_compute) against real loopback server transports driven by a raw peer every run.")
LEVEL_NOTE = ("Trusted: Coq kernel + vm_compute; hand-written model whose tables (Transport._handler_table, "
              "_channel_handler_table), bound HIGHEST_USERAUTH_MESSAGE_ID, message numbers and the shape of the "
              "_ensure_authed guard (no try/except, no return other than the reply after it) are regenerated from the "
              "source each run by the fail-closed translator gen/c14.py; UTF-8 validity of the channel kind is an "
              "oracle bit of the packet; the handlers' "
              "behaviour once allowed is abstract; types 81/82/91/92 pre-auth kill the transport with IndexError and "
              "93..100 end the run loop (availability: C38), 83..89 are C12's; thread timing outside the model.")
TECHNIQUE = ("Coq proof (case analysis + induction over packet lists) over source-generated tables + vm_compute "
             "differential correspondence on real transports")

HANDLER_TYPES = (80, 81, 82, 90, 91, 92)
CHANNEL_TYPES = tuple(range(93, 101))


def make_classes():
    import paramiko
    from paramiko.packet import Packetizer
    from paramiko.server import InteractiveQuery

    class ServerPacketizer(Packetizer):
        """Counts completed reads and records plaintext messages sent once armed."""

        def __init__(self, sock):
            super().__init__(sock)
            self.v_idle = threading.Event()
            self.v_nread = 0
            self.v_sent = []
            self.v_armed = False

        def read_message(self):
            self.v_idle.set()
            r = super().read_message()
            self.v_idle.clear()
            self.v_nread += 1
            return r

        def send_message(self, data):
            r = super().send_message(data)      # an empty message raises IndexError here: nothing is sent
            if self.v_armed:
                self.v_sent.append(data.asbytes())
            return r

    class QuietPacketizer(Packetizer):
        """Client side: once quiet, every incoming message is logged and handed on as MSG_IGNORE."""

        def __init__(self, sock):
            super().__init__(sock)
            self.v_quiet = False
            self.v_pass_kex = False
            self.v_log = []

        def read_message(self):
            ptype, m = super().read_message()
            if self.v_quiet and not (self.v_pass_kex and (ptype in (20, 21) or 30 <= ptype <= 49)):
                self.v_log.append(m.asbytes())
                return 2, m
            return ptype, m

    class Srv(paramiko.ServerInterface):
        def __init__(self, sess):
            self.s = sess

        def _res(self, kind, user):
            r = self.s.env["res"]
            self.s.trace.append(("cb", kind, user, r))
            if r == 3:
                return InteractiveQuery("q", "", ("p:", False))
            return r

        def check_auth_none(self, username):
            return self._res("none", username)

        def check_auth_password(self, username, password):
            return self._res("password", username)

        def check_auth_publickey(self, username, key):
            return self._res("publickey", username)

        def check_auth_interactive(self, username, submethods):
            return self._res("interactive", username)

        def check_auth_interactive_response(self, responses):
            return self._res("interactive_response", None)

        def check_auth_gssapi_with_mic(self, username, gss_authenticated=2, cc_file=None):
            return self._res("gssapi_with_mic", username)

        def check_auth_gssapi_keyex(self, username, gss_authenticated=2, cc_file=None):
            return self._res("gssapi_keyex", username)

        def enable_auth_gssapi(self):
            return self.s.env["gss"]

        def get_allowed_auths(self, username):
            return "publickey,password"

        def get_banner(self):
            return ("hello", "en-US") if self.s.env["banner"] else (None, None)

        # ---- connection layer: must never run before authentication
        def check_channel_request(self, kind, chanid):
            self.s.trace.append(("app", 90, "check_channel_request"))
            return 0 if self.s.app_ok else 1

        def check_global_request(self, kind, msg):
            self.s.trace.append(("app", 80, "check_global_request"))
            return False

        def check_port_forward_request(self, address, port):
            self.s.trace.append(("app", 80, "check_port_forward_request"))
            return False

        def cancel_port_forward_request(self, address, port):
            self.s.trace.append(("app", 80, "cancel_port_forward_request"))

        def check_channel_shell_request(self, channel):
            self.s.trace.append(("app", 98, "check_channel_shell_request"))
            return False

        def check_channel_exec_request(self, channel, command):
            self.s.trace.append(("app", 98, "check_channel_exec_request"))
            return False

        def check_channel_pty_request(self, *a):
            self.s.trace.append(("app", 98, "check_channel_pty_request"))
            return False

        def check_channel_subsystem_request(self, channel, name):
            self.s.trace.append(("app", 98, "check_channel_subsystem_request"))
            return False

        def check_channel_env_request(self, channel, name, value):
            self.s.trace.append(("app", 98, "check_channel_env_request"))
            return False

    class GssCtx:
        def __init__(self, sess):
            self.s = sess

        def ssh_check_mech(self, desired_mech):
            return self.s.env["mechok"]

        def ssh_gss_oids(self, mode="client"):
            return c14.GSS_OIDS

        def ssh_accept_sec_context(self, hostname, recv_token, username=None):
            t = self.s.env["tok"]
            if t == 0:
                raise c14.GssStubError("accept failed")
            return None if t == 1 else b"srvtok"

        def ssh_check_mic(self, mic_token, session_id, username=None):
            if not self.s.env["micok"]:
                raise c14.GssStubError("bad mic")

    class Session:
        def __init__(self, hostkey):
            from _loop import LoopSocket
            import logging
            lg = logging.getLogger("paramiko")
            if not lg.handlers:
                lg.addHandler(logging.NullHandler())
            lg.propagate = False
            self.trace = []
            self.env = {"res": 2, "gss": False, "mechok": True, "tok": 1, "micok": True, "kexctx": False,
                        "banner": False}
            self.app_ok = True
            sa, sb = LoopSocket(), LoopSocket()
            sa.link(sb)
            self.tc = paramiko.Transport(sa, packetizer_class=QuietPacketizer)
            self.ts = paramiko.Transport(sb, packetizer_class=ServerPacketizer)
            self.gss = GssCtx(self)
            self.ts.add_server_key(hostkey)
            self.ts.start_server(threading.Event(), Srv(self))
            self.tc.start_client(timeout=15)
            self.tc.packetizer.v_quiet = True
            # the server must have consumed the client's NEWKEYS and be waiting for the next packet
            deadline = time.time() + 10
            while time.time() < deadline and not (self.ts.auth_handler is not None
                                                  and self.ts.packetizer.v_idle.is_set()):
                time.sleep(0.002)
            self.ts.packetizer.v_armed = True
            self.hang = False

        def authed(self):
            h = self.ts.auth_handler
            h = getattr(h, "_delegate", h)
            return bool(h is not None and h.authenticated)

        def alive(self):
            return bool(self.ts.active and self.ts.is_alive())

        def send(self, ptype, payload, env, app_ok):
            """Send one raw packet and wait until the server has processed it (or died)."""
            from paramiko.message import Message
            self.env = env
            self.app_ok = app_ok
            self.ts.kexgss_ctxt = self.gss if env["kexctx"] else None
            self.trace = []
            pk = self.ts.packetizer
            pk.v_sent = []
            target = pk.v_nread + 1
            m = Message()
            m.add_byte(bytes([ptype]))
            m.add_bytes(payload)
            try:
                self.tc._send_message(m)
            except Exception:
                return False
            deadline = time.time() + 8
            while time.time() < deadline:
                if not self.ts.is_alive():
                    break
                if pk.v_nread >= target and pk.v_idle.is_set():
                    break
                time.sleep(0.002)
            else:
                self.hang = True
            return True

        def client_rekey(self):
            """A complete client-initiated key re-exchange (KEXINIT .. NEWKEYS); the peer stays deaf to everything else."""
            self.tc.packetizer.v_pass_kex = True
            try:
                self.tc.renegotiate_keys()
            except Exception:
                return False
            finally:
                self.tc.packetizer.v_pass_kex = False
            deadline = time.time() + 8
            while time.time() < deadline and self.ts.is_alive() and (
                    self.ts.in_kex or not self.ts.packetizer.v_idle.is_set()):
                time.sleep(0.002)
            return True

        def start_server_rekey(self):
            """First half of Transport.renegotiate_keys(): our KEXINIT goes out, in_kex is set; the quiet peer never
            answers, so the exchange stays in flight."""
            self.ts.completion_event = threading.Event()
            self.ts._send_kex_init()
            return bool(self.ts.in_kex)

        def close(self):
            try:
                self.tc.close()
            finally:
                self.ts.close()

    return Session


# --------------------------------------------------------------------------
# generation

def gen_conn(rng, ptype, authed_hint=False, chans=()):
    """payload + the fields the run loop reads (chanid)."""
    from paramiko.message import Message
    if ptype == 80:
        name = rng.choice([b"tcpip-forward", b"cancel-tcpip-forward", b"keepalive@openssh.com", b"x", b""])
        payload = s_(name) + bytes([rng.randrange(2)]) + s_(b"127.0.0.1") + struct.pack(">I", rng.randrange(65536))
        if rng.random() < 0.2:
            payload = payload[:rng.randrange(len(payload) + 1)]
        if rng.random() < 0.15:
            payload = s_(b"\xfftcpip") + payload     # malformed prefix before a well-formed request
        if authed_hint:
            payload = s_(name or b"x") + b"\x01" + s_(b"127.0.0.1") + struct.pack(">I", 2222)
        return payload, 0
    if ptype == 90:
        kind = b"session" if authed_hint else rng.choice([b"session", b"direct-tcpip", b"x11", b"forwarded-tcpip",
                                                            b"auth-agent@openssh.com", b"zz", b""])
        chanid = rng.choice([0, 1, 7, 0xfeffffff, 0xff000000, 2 ** 32 - 1, rng.randrange(2 ** 32)])
        payload = s_(kind) + struct.pack(">III", chanid, 2 ** 21, 2 ** 15)
        if kind == b"direct-tcpip":
            payload += s_(b"127.0.0.1") + struct.pack(">I", 22) + s_(b"127.0.0.1") + struct.pack(">I", 4000)
        if not authed_hint and rng.random() < 0.2:
            payload = payload[:rng.randrange(len(payload) + 1)]
        if not authed_hint and rng.random() < 0.25:
            # malformed prefix: a first string that is not valid UTF-8, followed by a well-formed open
            junk = rng.choice([b"\xff", b"\xc3", b"sess\xe2\x28ion", b"\x80abc", b"\xf0\x9f"])
            payload = s_(junk) + rng.choice([b"", s_(b"session")]) + struct.pack(">III", chanid, 2 ** 21, 2 ** 15)
        m = Message(payload)
        m.get_binary()
        return payload, m.get_int()
    if ptype in CHANNEL_TYPES:
        chanid = rng.choice(list(chans) + [0, 1, 5, 2 ** 32 - 1, rng.randrange(2 ** 32)]) if not authed_hint \
            else rng.choice([0, 0, 3])
        payload = struct.pack(">I", chanid) + (s_(b"data") if authed_hint else b"") + rng.choice([b"", s_(b"data"), s_(b"shell") + b"\x01",
                                                           struct.pack(">I", 1) + s_(b"ext"),
                                                           bytes(rng.randrange(256) for _ in range(rng.randrange(12)))])
        if not authed_hint and rng.random() < 0.1:      # (delivery to an existing channel is observed through its data)
            payload = payload[:rng.randrange(4)]
        return payload, Message(payload).get_int()
    payload = bytes(rng.randrange(256) for _ in range(rng.randrange(0, 16)))
    return payload, Message(payload).get_int() if ptype in (91, 92) else 0


def kind_ok(payload):
    """Is the first string of the payload (what _ensure_authed reads as the channel kind) valid UTF-8?"""
    from paramiko.message import Message
    try:
        Message(payload).get_binary().decode("utf-8")
        return True
    except UnicodeDecodeError:
        return False


def gen_auth(rng, last=False, success_bias=0.0):
    """An auth-layer packet without publickey (session id of a real transport is random)."""
    env = c14.gen_env(rng, "mixed")
    if rng.random() < success_bias:
        env["res"] = 0
    r = rng.random()
    if r < 0.12:
        service = rng.choice([b"ssh-userauth", b"ssh-userauth", b"ssh-connection"])
        return 5, s_(service), env, ("Msg5", service)
    if r < 0.22:
        return 61, struct.pack(">I", 1) + s_(b"resp"), env, ("Msg61",)
    user = b"alice" if rng.random() < 0.9 else b"bob"
    service = b"ssh-connection" if rng.random() < 0.95 else b"other"
    methods = ["none", "password", "keyboard-interactive", "gssapi-keyex", "hostbased"]
    if last:
        methods.append("gssapi-with-mic")
    method = rng.choice(methods)
    head = s_(user) + s_(service) + s_(method.encode())
    if method == "none":
        return 50, head, env, ("Msg50", user, service, ("BNone",))
    if method == "password":
        change = rng.random() < 0.1
        return 50, head + bytes([int(change)]) + s_(b"pw") + (s_(b"n") if change else b""), env, \
            ("Msg50", user, service, ("BPassword", change))
    if method == "keyboard-interactive":
        return 50, head + s_(b"") + s_(b""), env, ("Msg50", user, service, ("BInteractive",))
    if method == "gssapi-keyex":
        return 50, head + s_(b"mic"), env, ("Msg50", user, service, ("BGssKeyex",))
    if method == "gssapi-with-mic":
        env["mechok"] = True
        return 50, head + struct.pack(">I", 1) + s_(b"\x06\x09mech"), env, ("Msg50", user, service, ("BGssMic", 1))
    return 50, head + b"zz", env, ("Msg50", user, service, ("BOther",))


def gen_session(rng):
    """[(ptype, payload, env, model_packet, app_ok)]"""
    steps = []
    control = rng.random() < 0.18          # authenticated contrast sessions
    n_auth = rng.randrange(0, 5)
    for i in range(n_auth):
        p, pl, env, mm = gen_auth(rng, last=(i == n_auth - 1 and not control))
        steps.append((p, pl, env, ("PAuth", mm), True))
    if control:
        env = c14.gen_env(rng, "mixed")
        env["res"] = 0
        steps.append((50, s_(b"alice") + s_(b"ssh-connection") + s_(b"none"), env,
                      ("PAuth", ("Msg50", b"alice", b"ssh-connection", ("BNone",))), True))
    n_conn = rng.randrange(1, 4)
    for j in range(n_conn):
        lastp = j == n_conn - 1
        types = list(HANDLER_TYPES) * 3 + list(CHANNEL_TYPES) * 2 + (list(range(83, 90)) if lastp else [])
        if control:
            types = [80, 90, 90] + ([94] if lastp else [])
        pt = rng.choice(types)
        env = c14.gen_env(rng, "mixed")
        app_ok = rng.random() < 0.7
        payload, chanid = gen_conn(rng, pt, authed_hint=control)
        steps.append((pt, payload, env, ("PConn", pt, chanid, app_ok, kind_ok(payload)), app_ok))
        if rng.random() < 0.25 and not lastp:
            p, pl, env2, mm = gen_auth(rng)
            steps.append((p, pl, env2, ("PAuth", mm), True))
    # a server-initiated key exchange in flight from some point on (dispatch must not depend on it)
    rekey_at = rng.randrange(len(steps)) if rng.random() < 0.3 else None
    return steps, control, rekey_at


def model_case(steps):
    return coq([((pk[0], c14.coq_msg(pk[1])) if pk[0] == "PAuth" else pk, c14.coq_env(env))
                for (_, _, env, pk, _) in steps])


def case_repr(steps, rekey_at=None):
    if rekey_at is not None and rekey_at < len(steps):
        return {"server_rekey_before_step": rekey_at, "steps": case_repr(steps)["steps"]}
    return {"steps": [{"ptype": p, "payload": pl, "env": dict(env), "app_ok": ok} for (p, pl, env, _, ok) in steps]}


def conn_state(ts, alive=True):
    """Connection-layer state of a Transport that an unauthenticated peer must not be able to touch."""
    def msg(x):
        return None if x is None else (x.asbytes() if hasattr(x, "asbytes") else repr(x))
    st = {"global_response": msg(getattr(ts, "global_response", None)),
          "channels": sorted(c.get_id() for c in ts._channels.values()),
          "channels_seen": sorted(getattr(ts, "channels_seen", {}) or []),
          "channel_events": sorted(getattr(ts, "channel_events", {}) or []),
          "accept_queue": len(ts.server_accepts),
          "channel_counter": getattr(ts, "_channel_counter", None),
          "forward_handlers": [getattr(ts, n, None) is not None for n in
                               ("_forward_agent_handler", "_x11_handler", "_tcp_handler")],
          "subsystems": sorted(getattr(ts, "subsystem_table", {}) or [])}
    if alive:       # (when the run loop ended it stored its own reason there)
        e = ts.saved_exception
        st["saved_exception"] = None if e is None else "%s: %s" % (type(e).__name__, str(e)[:80])
    return st


def run_session(ctx, Session, hostkey, steps, stats, control=True, rekey_at=None):
    """Drive one real session; returns (canonical list, number of steps used) -- None when a timing problem
    was seen.  A session that got authenticated by chance stops before its first connection-layer packet
    (payloads for authenticated handlers are only crafted in the contrast sessions)."""
    sess = Session(hostkey)
    canon = []
    try:
        dead = False
        known = set()
        for i, (ptype, payload, env, pk, app_ok) in enumerate(steps):
            pre_authed = sess.authed()
            pre_alive = sess.alive()
            known |= set(c.get_id() for c in sess.ts._channels.values())
            pre_chans = sorted(known)
            if not pre_alive:
                dead = True
            if dead:
                canon += [-20, 0, int(pre_authed), len(pre_chans)]
                continue
            if pk[0] == "PConn" and pre_authed and not control:
                return canon, i
            if rekey_at == i:
                sess.start_server_rekey()
                stats["server_rekeys"] = stats.get("server_rekeys", 0) + 1
            in_kex = bool(sess.ts.in_kex)
            state_before = conn_state(sess.ts)
            sess.send(ptype, payload, env, app_ok)
            if sess.hang:
                return None
            # not part of the comparison: a late EXT_INFO of the handshake, our own KEXINIT
            sent = [m for m in sess.ts.packetizer.v_sent if m[:1] not in (b"\x07", b"\x14")]
            trace = list(sess.trace)
            alive = sess.alive()
            authed = sess.authed()
            known |= set(c.get_id() for c in sess.ts._channels.values())
            chans = sorted(known)
            queue = len(sess.ts.server_accepts)
            exc = sess.ts.saved_exception
            is_conn = pk[0] == "PConn"
            if is_conn:
                stats["conn"] = stats.get("conn", 0) + 1
                key = "%d:%s%s:%s" % (ptype, "authed" if pre_authed else "preauth", "+in_kex" if in_kex else "",
                                    "alive" if alive else "dead(%s)" % type(exc).__name__)
                stats.setdefault("outcomes", {})
                stats["outcomes"][key] = stats["outcomes"].get(key, 0) + 1
            ctx.count((ptype, payload, repr(sorted(env.items())), pre_authed, tuple(pre_chans), i),
                      nontrivial=True, kind=("conn-%d" % ptype) if is_conn else "auth-%d" % ptype)
            # ---- the property, directly
            if is_conn and 80 <= ptype <= 100 and not pre_authed:
                apps = [ev for ev in trace if ev[0] == "app"]
                bad = None
                refusal = False
                if apps:
                    bad = "the application was consulted (%s) before authentication" % apps[0][2]
                elif chans or queue:
                    bad = "a channel was created / queued for accept() before authentication"
                elif any(state_before.get(k) != v for k, v in conn_state(sess.ts, alive).items()):
                    now = conn_state(sess.ts, alive)
                    diff = {k: (state_before.get(k), v) for k, v in now.items() if state_before.get(k) != v}
                    bad = "connection-layer state of the transport changed before authentication: %r" % (diff,)
                elif authed:
                    bad = "a connection-layer message authenticated the client"
                elif not alive and all(m[:1] == b"\x01" for m in sent):
                    pass            # the run loop ended (e.g. MessageOrderError while a packet was expected): nothing reached
                elif ptype == 80 and sent != [b"\x52"]:
                    bad = "a pre-auth global request was not answered by exactly one REQUEST_FAILURE"
                elif ptype == 90:
                    bad = refusal_defect(sent, pk[2])
                    refusal = bool(bad)
                elif ptype not in (80, 90) and any(m[:1] not in (b"\x03", b"\x01") for m in sent):
                    bad = "unexpected reply to a pre-auth connection-layer message"
                if bad:
                    ctx.fail(("preauth-refusal-malformed:%d%s" if refusal else "preauth-service-reached:%d%s") % (
                                 ptype, ":in-kex" if in_kex else ""),
                             bad + (" (server-initiated key exchange in flight)" if in_kex else ""),
                             case=case_repr(steps[:i + 1], rekey_at),
                             expected="refusal only, no callback, no channel",
                             observed={"sent": sent, "callbacks": [ev[2] for ev in apps], "channels": chans,
                                       "accept_queue": queue})
            # ---- canonical form for the model comparison
            drop_sends = is_conn and (pre_authed or (83 <= ptype <= 89 and alive))
            if not drop_sends:
                for m in sent:
                    canon += [-10, 0] + list(m)
            for ev in trace:
                if ev[0] == "cb":
                    canon += [-11, CB[ev[1]], ev[3]]
                elif ev[0] == "app" and ev[1] in (80, 90):
                    canon += [-17, ev[1]]
            for c in chans:
                if c not in pre_chans:
                    canon += [-18, c]
            if is_conn and ptype == 94 and pk[2] in pre_chans:
                ch = sess.ts._channels.get(pk[2])
                if ch is not None and ch.recv_ready():
                    canon += [-19, 94, pk[2]]
            if is_conn and 83 <= ptype <= 89 and (alive or isinstance(exc, KeyError)):
                stats.setdefault("unhandled", set()).add("alive+UNIMPLEMENTED" if alive else "dead:" + type(exc).__name__)
                alive_c = 1          # C12's matter: model says "unhandled", whatever the loop then does
                dead = not alive
            else:
                alive_c = int(alive)
            canon += [-20, alive_c, int(authed), len(chans)]
    finally:
        sess.close()
    return canon, len(steps)


def gss_swap_sessions(ctx, Session, hostkey, stats):
    """What a real server does while a gssapi-with-mic exchange is pending (oracle only)."""
    base = {"res": 0, "gss": True, "mechok": True, "tok": 1, "micok": True, "kexctx": True, "banner": False}
    req = (50, s_(b"alice") + s_(b"ssh-connection") + s_(b"gssapi-with-mic") + struct.pack(">I", 1)
           + s_(b"\x06\x09mech"))
    for follow in ((61, s_(b"tok")), (66, s_(b"mic")), (80, s_(b"x") + b"\x01"), (90, s_(b"session") + struct.pack(">III", 1, 1, 1)),
                   (98, struct.pack(">I", 0) + s_(b"shell") + b"\x01")):
        sess = Session(hostkey)
        try:
            sess.send(req[0], req[1], base, True)
            sess.send(follow[0], follow[1], base, True)
            exc = sess.ts.saved_exception
            apps = [ev for ev in sess.trace if ev[0] in ("app", "cb")]
            ctx.count(("gss-swap", follow[0]), kind="gss-swap")
            stats.setdefault("gss_swap", {})[follow[0]] = "alive" if sess.alive() else "dead(%s)" % type(exc).__name__
            if apps or sess.authed() or sess.ts._channels.values() or sess.ts.server_accepts:
                ctx.fail("preauth-service-reached:gss-%d" % follow[0],
                         "during a pending gssapi-with-mic exchange message %d reached the application" % follow[0],
                         case={"steps": [{"ptype": req[0], "payload": req[1]}, {"ptype": follow[0], "payload": follow[1]}]},
                         observed=repr(apps))
        finally:
            sess.close()


def refusal_defect(sent, sender_channel):
    """Decode what the peer received for an unauthenticated CHANNEL_OPEN and compare it field by field with the
    SSH_MSG_CHANNEL_OPEN_FAILURE RFC 4254 section 5.1 prescribes for THAT request:
    byte 92, uint32 recipient channel (= the request's sender channel), uint32 reason code, string description,
    string language tag, nothing else."""
    if len(sent) != 1:
        return "a pre-auth channel open was answered by %d messages instead of one CHANNEL_OPEN_FAILURE" % len(sent)
    raw = sent[0]
    if raw[:1] != b"\x5c":
        return "a pre-auth channel open was answered by message type %d, not CHANNEL_OPEN_FAILURE" % (raw[0] if raw else -1)
    if len(raw) < 9:
        return "CHANNEL_OPEN_FAILURE too short to hold recipient channel and reason code"
    recipient, reason = struct.unpack(">II", raw[1:9])
    if recipient != sender_channel:
        return ("CHANNEL_OPEN_FAILURE names recipient channel %d (0x%x) but the request's sender channel was %d (0x%x)"
                % (recipient, recipient, sender_channel, sender_channel))
    if reason != 1:
        return "CHANNEL_OPEN_FAILURE reason code %d, expected SSH_OPEN_ADMINISTRATIVELY_PROHIBITED (1)" % reason
    rest = raw[9:]
    fields = []
    for _ in range(2):
        if len(rest) < 4 or len(rest) < 4 + struct.unpack(">I", rest[:4])[0]:
            return "CHANNEL_OPEN_FAILURE description / language tag strings are malformed"
        n = struct.unpack(">I", rest[:4])[0]
        fields.append(rest[4:4 + n])
        rest = rest[4 + n:]
    if rest:
        return "CHANNEL_OPEN_FAILURE carries %d trailing bytes" % len(rest)
    if fields != [b"", b"en"]:
        return "CHANNEL_OPEN_FAILURE description / language tag are %r" % fields
    return None


def refusal_sessions(ctx, Session, hostkey, stats):
    """Several unauthenticated requests in a row on ONE transport, with different sender channels (boundary values
    of the uint32 / adaptive-int encodings), kinds and request types, before and after failed / partial auth: each
    refusal is decoded and must answer THAT request.  Returns [(steps, canonical)] for the model comparison."""
    base = {"res": 2, "gss": False, "mechok": True, "tok": 1, "micok": True, "kexctx": False, "banner": False}

    def chopen(chanid, kind=b"session"):
        return (90, s_(kind) + struct.pack(">III", chanid, 2 ** 21, 2 ** 15), dict(base),
                ("PConn", 90, chanid, True, True), True)

    def greq(name=b"tcpip-forward", want=True):
        return (80, s_(name) + bytes([int(want)]) + s_(b"127.0.0.1") + struct.pack(">I", 2222), dict(base),
                ("PConn", 80, 0, True, True), True)

    def auth(method, res):
        body = {b"password": b"\x00" + s_(b"pw"), b"none": b""}[method]
        mm = ("Msg50", b"alice", b"ssh-connection", ("BPassword", False) if method == b"password" else ("BNone",))
        return (50, s_(b"alice") + s_(b"ssh-connection") + s_(method) + body, dict(base, res=res), ("PAuth", mm), True)

    bounds = [0, 0xfeffffff, 0xff000000, 2 ** 32 - 1, 7, 7, 0xff000001, 1]
    hists = [[chopen(c) for c in bounds],
             [chopen(c) for c in reversed(bounds)],
             [greq(), chopen(2 ** 32 - 1), greq(b"keepalive@openssh.com", False), chopen(0), greq(), chopen(0xff000000)],
             [chopen(5), auth(b"password", 2), chopen(0xff000000, b"direct-tcpip"), auth(b"none", 1), chopen(6, b"x11"),
              greq(b"cancel-tcpip-forward"), chopen(0xfeffffff, b"")],
             [chopen(ctx.rng.randrange(2 ** 32)) for _ in range(6)]]
    out = []
    for steps in hists:
        res = run_session(ctx, Session, hostkey, steps, stats, True, None)
        if res is not None:
            out.append((steps, res[0]))
    return out


def gss_mic_loopback(ctx):
    """C14 on a real server transport for gssapi-with-mic (stub GSS context): request, token, MIC.  While
    GssapiWithMicAuthHandler's table holds unbound functions the first TOKEN ends the transport (nobody is
    authenticated); once it dispatches, the client is authenticated iff the MIC verifies AND the callback approves."""
    import paramiko
    Session = make_classes()
    hostkey = paramiko.RSAKey.from_private_key_file(os.path.join(ctx.repo, "tests", "_support", "rsa.key"))
    holder = {}
    req = s_(b"alice") + s_(b"ssh-connection") + s_(b"gssapi-with-mic") + struct.pack(">I", 1) + s_(b"\x06\x09mech")
    outcome = set()
    with c14.gss_patch(holder):
        for res in (0, 1, 2):
            for micok in (True, False):
                sess = Session(hostkey)
                holder["world"] = sess
                env = {"res": res, "gss": True, "mechok": True, "tok": 2, "micok": micok, "kexctx": False, "banner": False}
                steps = [(50, req), (61, s_(b"clienttoken")), (66, s_(b"mic"))]
                try:
                    success_sent, asked = False, []
                    for pt, pl in steps:
                        if not sess.alive():
                            break
                        sess.send(pt, pl, env, True)
                        success_sent = success_sent or b"\x34" in sess.ts.packetizer.v_sent
                        asked += [ev for ev in sess.trace if ev[0] == "cb"]
                    exc = sess.ts.saved_exception
                    outcome.add("dispatches" if sess.alive() or asked or not isinstance(exc, paramiko.SSHException)
                                or "TypeError" not in str(exc) else "dead: first TOKEN raises TypeError (fail-closed)")
                    got = sess.authed() or success_sent
                    live = bool(asked) or sess.alive()
                    want = res == 0 and micok and live
                    ctx.count(("gss-mic-loopback", res, micok), kind="gss-mic-loopback")
                    if got != want:
                        ctx.fail("gssapi-with-mic-ignores-callback" if got and res != 0 else
                                 "gssapi-success-without-valid-mic" if got else "valid-gss-rejected",
                                 "real server transport, gssapi-with-mic: callback result %d, MIC %s -> authenticated=%r "
                                 "(must be %r)" % (res, "valid" if micok else "INVALID", got, want),
                                 case={"sid": b"", "steps": [{"ptype": pt, "payload": pl, "env": env} for pt, pl in steps]},
                                 expected="authenticated == %r" % want, observed=repr(asked))
                finally:
                    sess.close()
    return sorted(outcome)


def dialogue_loopback(ctx):
    """C14 on real server transports: the dialogue histories of c14.dialogue_histories() (keyboard-interactive; the
    gssapi-with-mic dialogue only when its handler dispatches), additionally with a complete client-initiated re-key
    placed at every point of the dialogue.  WHO ends up authenticated is compared with who was approved, and the
    server's pinned username / failure count must survive each re-key."""
    import paramiko
    Session = make_classes()
    hostkey = paramiko.RSAKey.from_private_key_file(os.path.join(ctx.repo, "tests", "_support", "rsa.key"))
    holder = {}
    n = 0
    hists = []
    for name, hist in c14.dialogue_histories():
        if name.startswith("gssapi"):
            continue                    # dead on a real transport while the handler table is unbound (see gss_mic_loopback)
        hists.append((name, hist))
        # the same history with a re-key right before the inserted messages, and one right after them
        ins = [i for i, st in enumerate(hist) if st[3] != "dialogue"]
        hists.append((name + " + re-key before", hist[:ins[0]] + ["rekey"] + hist[ins[0]:]))
        hists.append((name + " + re-key after", hist[:ins[-1] + 1] + ["rekey"] + hist[ins[-1] + 1:]))
    # re-key alone at every point of the plain dialogue
    plain = [st for st in next(iter(c14.dialogue_histories()))[1] if st[3] == "dialogue"]
    for k in range(len(plain) + 1):
        hists.append(("keyboard-interactive, re-key before message %d" % k, plain[:k] + ["rekey"] + plain[k:]))
    with c14.gss_patch(holder):
        for name, hist in hists:
            sess = Session(hostkey)
            holder["world"] = sess
            asked, log = [], []
            try:
                for st in hist:
                    if not sess.alive():
                        break
                    if st == "rekey":
                        h = getattr(sess.ts.auth_handler, "_delegate", sess.ts.auth_handler)
                        before = (h.auth_username, h.auth_fail_count)
                        log.append("re-key")
                        if sess.client_rekey() and sess.alive():
                            h2 = getattr(sess.ts.auth_handler, "_delegate", sess.ts.auth_handler)
                            after = (getattr(h2, "auth_username", None), getattr(h2, "auth_fail_count", None))
                            if after != before:
                                ctx.fail("rekey-resets-auth-state", "history [%s]: a re-key during the dialogue changed the "
                                         "server's pinned username / failure count from %r to %r" % (name, before, after),
                                         case={"loopback_dialogue": log}, expected=before, observed=after)
                        continue
                    sess.send(st[0], st[1], st[2], True)
                    log.append("type %d %s" % (st[0], st[1].hex()))
                    asked += [ev[2] for ev in sess.trace if ev[0] == "cb" and ev[1] != "interactive_response"]
                n += 1
                ctx.count(("dialogue-loopback", name), kind="dialogue-loopback")
                h = getattr(sess.ts.auth_handler, "_delegate", sess.ts.auth_handler)
                authed = bool(h is not None and h.authenticated)
                who = h.get_username() if h is not None else None
                bad = c14.who_defect(authed, who, asked)
                intruder = any(st != "rekey" and st[3] == "intruder" for st in hist)
                if bad is None and not intruder and not authed:
                    bad = ("valid-dialogue-rejected", "alice's approved dialogue did not authenticate her")
                if bad:
                    ctx.fail(bad[0] + ":loopback:" + ("re-key" if "rekey" in hist else "no-re-key"),
                             "real server transport, history [%s]: %s" % (name, bad[1]),
                             case={"loopback_dialogue": log}, expected="only alice can be authenticated / evaluated",
                             observed={"authenticated": authed, "get_username": who, "asked": asked})
            finally:
                sess.close()
    return "%d histories" % n


def gated_type_sessions(ctx, Session, hostkey, stats):
    """Every connection-layer type 80..100 sent to an unauthenticated server with a payload its handler would act on
    (answers to requests nobody made, traffic for channels nobody opened), before any auth attempt and after a failed
    and a partial one.  Oracle only (run_session): no callback, no channel, no state change."""
    base = {"res": 2, "gss": False, "mechok": True, "tok": 1, "micok": True, "kexctx": False, "banner": False}
    payloads = {80: s_(b"tcpip-forward") + b"\x01" + s_(b"0.0.0.0") + struct.pack(">I", 2222),
                81: struct.pack(">I", 4242), 82: b"",
                90: s_(b"session") + struct.pack(">III", 9, 2 ** 21, 2 ** 15),
                91: struct.pack(">IIII", 0, 5, 2 ** 21, 2 ** 15),
                92: struct.pack(">II", 0, 2) + s_(b"Connect failed") + s_(b"en")}
    for t in CHANNEL_TYPES:
        payloads[t] = struct.pack(">I", 0) + {93: struct.pack(">I", 1000), 94: s_(b"data"), 95: struct.pack(">I", 1) + s_(b"err"),
                                               98: s_(b"shell") + b"\x01"}.get(t, b"")
    prefixes = [[], [(50, s_(b"alice") + s_(b"ssh-connection") + s_(b"password") + b"\x00" + s_(b"pw"), dict(base, res=2),
                      ("PAuth", ("Msg50", b"alice", b"ssh-connection", ("BPassword", False))), True)],
                [(50, s_(b"alice") + s_(b"ssh-connection") + s_(b"none"), dict(base, res=1),
                  ("PAuth", ("Msg50", b"alice", b"ssh-connection", ("BNone",))), True)]]
    for i, pre in enumerate(prefixes):
        for t in sorted(payloads):
            if i and t in CHANNEL_TYPES and t not in (94, 98):
                continue
            chanid = 9 if t == 90 else 0
            steps = list(pre) + [(t, payloads[t], dict(base), ("PConn", t, chanid, True, True), True)]
            if t in (80, 90):       # a refused request is followed by the answer types on the same transport
                steps += [(x, payloads[x], dict(base), ("PConn", x, 0, True, True), True) for x in (92, 81)][:1 if t == 80 else 2]
            run_session(ctx, Session, hostkey, steps, stats, True, None)


def forged_proofs(key, alg, blob, other, rng):
    """(name, signature blob) pairs that are NOT valid proofs for `blob` under `key`, built per key class around the
    values its verify code treats specially."""
    import paramiko
    from paramiko.message import Message

    def mp(*ints, tail=b""):
        m = Message()
        for i in ints:
            m.add_mpint(i)
        return m.asbytes() + tail

    good = Message(key.sign_ssh_data(blob, alg).asbytes())
    good.get_binary()
    raw = good.get_binary()
    out = [("empty-blob", b""), ("from-another-key", None), ("one-bit-flipped", raw[:-1] + bytes([raw[-1] ^ 1])),
           ("first-bit-flipped", bytes([raw[0] ^ 0x40]) + raw[1:])]
    if isinstance(key, paramiko.ECDSAKey):
        inner = Message(raw)
        r, s_int = inner.get_mpint(), inner.get_mpint()
        n = {256: 0xFFFFFFFF00000000FFFFFFFFFFFFFFFFBCE6FAADA7179E84F3B9CAC2FC632551}.get(key.get_bits(), 1 << key.get_bits())
        out += [("negative-r", mp(-r, s_int)), ("negative-s", mp(r, -s_int)), ("both-negative", mp(-1, -1)),
                ("r=-1", mp(-1, s_int)), ("zero-r", mp(0, s_int)), ("zero-s", mp(r, 0)), ("zero-zero", mp(0, 0)),
                ("oversize-r", mp(r + n, s_int)), ("huge-r", mp(1 << 600, s_int)), ("huge-s", mp(r, 1 << 600)),
                ("trailing-bytes", mp(r, s_int, tail=b"\x00")), ("trailing-mpint", mp(r, s_int, 1)),
                ("only-r", mp(r)), ("swapped-r-s", mp(s_int, r)), ("r-plus-one", mp(r + 1, s_int))]
    elif isinstance(key, paramiko.Ed25519Key):
        out += [("length-63", raw[:63]), ("length-65", raw + b"\x00"), ("length-0-string", b""), ("all-zero-64", b"\x00" * 64),
                ("all-ff-64", b"\xff" * 64), ("random-64", bytes(rng.randrange(256) for _ in range(64))),
                ("halves-swapped", raw[32:] + raw[:32]), ("length-32", raw[:32]), ("length-128", raw + raw)]
    else:
        k = len(raw)
        nmod = key.public_numbers.n
        out += [("zero", b"\x00" * k), ("one", (1).to_bytes(k, "big")), ("n-minus-1", (nmod - 1).to_bytes(k, "big")),
                ("n", nmod.to_bytes(k, "big")), ("length-minus-1-tail", raw[:-1]), ("length-plus-1", b"\x00" + raw),
                ("length-plus-1-tail", raw + b"\x00"), ("all-ff", b"\xff" * k), ("truncated-half", raw[:k // 2])]
    if not (isinstance(key, (paramiko.ECDSAKey, paramiko.Ed25519Key))) and raw[:1] != b"\x00":
        # RSAKey.verify_ssh_sig left-pads a short signature with zeros (PuTTY sends them stripped), so dropping a
        # LEADING zero byte is the same signature in another spelling, not a forgery (1 genuine signature in 256
        # starts with 00): only a non-zero first byte may be dropped
        out.append(("length-minus-1", raw[1:]))
    res = []
    for name, rawsig in out:
        if name == "from-another-key":
            if other is None:
                continue
            m = Message(other.sign_ssh_data(blob, alg).asbytes())
            m.get_binary()
            rawsig = m.get_binary()
        res.append((name, s_(alg.encode()) + s_(rawsig)))
    res.append(("no-inner-string", s_(alg.encode())))
    res.append(("empty-signature", b""))
    return res


def forged_proof_loopback(ctx):
    """C14 end to end: real server Transport, real key classes (RSA x3 algorithms, ECDSA 256/384/521, Ed25519), an
    application that accepts the key (fully or partially): the genuine signature is the only proof that may be
    acknowledged; every forged blob must end in USERAUTH_FAILURE with partial_success false (or end the connection)
    and never in SUCCESS / partial_success true."""
    import paramiko
    Session = make_classes()
    tests = os.path.join(ctx.repo, "tests")
    hostkey = paramiko.RSAKey.from_private_key_file(os.path.join(tests, "_support", "rsa.key"))
    specs = [("_support/rsa.key", paramiko.RSAKey, ["rsa-sha2-512", "rsa-sha2-256", "ssh-rsa"]),
             ("_support/ecdsa-256.key", paramiko.ECDSAKey, ["ecdsa-sha2-nistp256"]),
             ("test_ecdsa_384.key", paramiko.ECDSAKey, ["ecdsa-sha2-nistp384"]),
             ("test_ecdsa_521.key", paramiko.ECDSAKey, ["ecdsa-sha2-nistp521"]),
             ("_support/ed25519.key", paramiko.Ed25519Key, ["ssh-ed25519"])]
    others = {paramiko.RSAKey: paramiko.RSAKey.generate(2048), paramiko.ECDSAKey: None, paramiko.Ed25519Key: None}
    holder = {}
    n, died = 0, {}
    user, service = b"alice", b"ssh-connection"
    with c14.gss_patch(holder):
        for fn, cls, algs in specs:
            path = os.path.join(tests, fn)
            if not os.path.exists(path):
                continue
            key = cls.from_private_key_file(path)
            other = others[cls]
            if cls is paramiko.ECDSAKey:
                other = paramiko.ECDSAKey.generate(bits=key.get_bits())
            for alg in algs:
                # blob depends on the session id: forge per session
                names = None
                idx = 0
                while names is None or idx < len(names):
                    sess = Session(hostkey)
                    holder["world"] = sess
                    try:
                        blob = c14.my_blob(sess.ts.session_id, user, service, alg.encode(), key.asbytes())
                        forged = [("genuine", key.sign_ssh_data(blob, alg).asbytes())] + forged_proofs(key, alg, blob, other, ctx.rng)
                        names = [f[0] for f in forged]
                        name, sig = forged[idx]
                        res = 1 if (idx % 3 == 2 and name != "genuine") else 0
                        env = {"res": res, "gss": False, "mechok": True, "tok": 1, "micok": True, "kexctx": False,
                               "banner": False}
                        payload = s_(user) + s_(service) + s_(b"publickey") + b"\x01" + s_(alg.encode()) \
                            + s_(key.asbytes()) + s_(sig)
                        sess.send(50, payload, env, True)
                        sent = [m for m in sess.ts.packetizer.v_sent if m[:1] not in (b"\x07", b"\x14")]
                        told = ("success" if b"\x34" in sent or sess.authed() else
                                "partial" if any(m[:1] == b"\x33" and m[-1:] == b"\x01" for m in sent) else
                                "failure" if any(m[:1] == b"\x33" for m in sent) else
                                "connection-ended" if not sess.alive() else "nothing")
                        n += 1
                        ctx.count(("forged-proof", alg, name, res), kind="forged-proof:" + cls.__name__)
                        want = ("success",) if name == "genuine" else ("failure", "connection-ended")
                        if told == "connection-ended":
                            died.setdefault(alg, []).append(name)
                        if told not in want:
                            ctx.fail(("bad-signature-accepted:" if told == "success" else
                                      "partial-success-without-proof:" if told == "partial" else
                                      "valid-signature-rejected:" if name == "genuine" else "publickey-answer-wrong:")
                                     + cls.__name__ + ":" + name,
                                     "real server transport, %s key, algorithm %s, application answers %s, signature blob "
                                     "[%s]: the client is told %r" % (cls.__name__, alg, RES[res], name, told),
                                     case={"sid": sess.ts.session_id, "steps": [{"ptype": 50, "payload": payload, "env": env}],
                                           "real_key": fn, "algorithm": alg, "forgery": name},
                                     expected=" / ".join(want), observed=[m.hex() for m in sent])
                    finally:
                        sess.close()
                    idx += 1
    return "%d proofs; ended the connection instead of answering: %s" % (n, died or "none")


def inkex_sessions(ctx, Session, hostkey, stats):
    """Deterministic: every connection-layer type right after the server started a key exchange, before any
    authentication and after a failed / partial one."""
    base = {"res": 2, "gss": False, "mechok": True, "tok": 1, "micok": True, "kexctx": False, "banner": False}
    conn = {80: s_(b"tcpip-forward") + b"\x01" + s_(b"127.0.0.1") + struct.pack(">I", 2222),
            90: s_(b"session") + struct.pack(">III", 3, 2 ** 21, 2 ** 15)}
    prefixes = [[], [(50, s_(b"alice") + s_(b"ssh-connection") + s_(b"password") + b"\x00" + s_(b"pw"), dict(base, res=2),
                      ("PAuth", ("Msg50", b"alice", b"ssh-connection", ("BPassword", False))), True)],
                [(50, s_(b"alice") + s_(b"ssh-connection") + s_(b"none"), dict(base, res=1),
                  ("PAuth", ("Msg50", b"alice", b"ssh-connection", ("BNone",))), True)]]
    for pre in prefixes:
        for pt in (80, 80, 90):
            name = b"tcpip-forward" if pt == 80 and pre else b"keepalive@x"
            payload = conn[pt] if pt == 90 else s_(name) + conn[80][4 + 13:]
            steps = list(pre) + [(pt, payload, dict(base), ("PConn", pt, 3 if pt == 90 else 0, True, True), True)]
            run_session(ctx, Session, hostkey, steps, stats, True, len(pre))


def run(ctx):
    import paramiko
    ctx.rule = ("seeded generator (random.Random('C15-<seed>')): sessions on a real loopback server transport: 0-4 "
                "auth-layer packets (service request, none/password/keyboard-interactive/gssapi-keyex/gssapi-with-mic/"
                "unknown method with failed/partial/success/query outcomes, info responses, wrong service / username), "
                "then 1-3 connection-layer packets of every type 80..100 (valid, random and truncated payloads, "
                "channel ids 0 / max / random), auth packets interleaved; 18% authenticated contrast sessions; a "
                "step counts when it was sent to a live server and is distinct by (packet, oracle, state)")
    ctx.trusted += ["model coq/Model/C15.v + C14.v hand-written; tied to transport.py/auth_handler.py by this differential run",
                    "quiescence detection (server back in read_message) by a counting packetizer_class"]
    ctx.prove(GENS)
    c14.gss_witness(ctx)        # the shared auth model is of the repaired gssapi paths: name the input if they regress
    Session = make_classes()
    hostkey = paramiko.RSAKey.from_private_key_file(os.path.join(ctx.repo, "tests", "_support", "rsa.key"))
    nsess = 600 if ctx.thorough else 110
    holder = {}
    stats = {}
    cases, kept = [], []
    def mk(hk):
        sess = Session(hk)
        holder["world"] = sess          # gss_patch hands out holder["world"].gss
        return sess

    with c14.gss_patch(holder):
        for _ in range(nsess):
            steps, control, rekey_at = gen_session(ctx.rng)
            res = None
            for attempt in range(2):        # retry once before believing a timing problem
                res = run_session(ctx, mk, hostkey, steps, stats, control, rekey_at)
                if res is not None:
                    break
            if res is not None:
                canon, used = res
                steps = steps[:used]
            if res is None:
                ctx.fail("server-hang", "the server transport neither processed the packet nor died within 8 s (twice)",
                         case=case_repr(steps, rekey_at))
                continue
            if len(canon) < 3800:
                cases.append((model_case(steps), canon))
                kept.append((steps, canon))
            if len(ctx.samples) < 3:
                ctx.sample({"steps": [repr(s[3]) for s in steps], "impl": canon[:80]})
        gss_swap_sessions(ctx, mk, hostkey, stats)
        inkex_sessions(ctx, mk, hostkey, stats)
        gated_type_sessions(ctx, mk, hostkey, stats)
        for steps, canon in refusal_sessions(ctx, mk, hostkey, stats):
            cases.append((model_case(steps), canon))
            kept.append((steps, canon))
    bad = c14.guarded_mismatches(ctx, "run_loop", "(list (packet * env))", cases, shard=60,
                                 imports="From PV Require Import C39 C14 C15.")
    for i in bad[:3]:
        ctx.disagree("server transport behaviour differs from model (run_loop)", case=case_repr(kept[i][0]),
                     impl=kept[i][1])
    ctx.notes.append("pre-auth / authed outcomes per type (type:state:outcome -> count): %s" % (
        sorted(stats.get("outcomes", {}).items()),))
    ctx.notes.append("types 83..89 (no handler): %s; pending gssapi-with-mic exchange then message N: %s" % (
        sorted(stats.get("unhandled", [])), stats.get("gss_swap")))


def replay(ctx, rep):
    import paramiko
    case = rep.get("case") or {}
    if str(rep.get("key", "")).startswith("gssapi-"):
        return c14.replay(ctx, rep)
    if "steps" not in case or "app_ok" not in (case["steps"] or [{}])[0]:
        return run(ctx)
    Session = make_classes()
    hostkey = paramiko.RSAKey.from_private_key_file(os.path.join(ctx.repo, "tests", "_support", "rsa.key"))
    from paramiko.message import Message
    steps = []
    for s in case["steps"]:
        payload = bytes.fromhex(s["payload"]["hex"])
        p = s["ptype"]
        if 80 <= p <= 100:
            m = Message(payload)
            if p == 90:
                m.get_binary()
            pk = ("PConn", p, m.get_int(), s["app_ok"], kind_ok(payload))
        else:
            pk = ("PAuth", None)
        steps.append((p, payload, s["env"], pk, s["app_ok"]))
    holder = {}

    def mk(hk):
        sess = Session(hk)
        holder["world"] = sess
        return sess

    with c14.gss_patch(holder):
        run_session(ctx, mk, hostkey, steps, {}, True, case.get("server_rekey_before_step"))
