"""C27 — remote SFTP files behave like local Python binary files.

Three-way differential on random programs:
  real SFTPClient/SFTPFile against a real SFTPServer (in-process loopback, temp directory)
  vs the Coq model coq/Model/C27.v (SFTPFile on the C42 BufferedFile model over the server handle)
  vs a local file opened with the same mode (the oracle), itself compared with coq/Lib/FileSpec.v.
Oracle: real SFTP == local file (each value-returning call, final contents).
Correspondence: model == real SFTP; FileSpec == local file.
"""
import os
import shutil
import struct
import tempfile
import threading

from common import coq

PID = "C27"
GENS = ["c42", "c27"]       # C27 builds on the C42 model: both translators run first
LEVEL_TEXT = ("Machine-checked proof (Coq, closed under the global context) that, on the model of SFTPFile over "
              "BufferedFile over the server handle (with its __tell cache), EVERY program that shows none of the "
              "seven registered known-finding shapes returns exactly the values of the reference binary-file "
              "semantics (Lib/FileSpec.v) and ends with the same contents (C27_refines_outside_findings): all op "
              "kinds -- read(n), read(), readline(size), readlines, write, seek with the three whences incl. "
              "refused negative targets, tell, truncate, flush -- every mode (r, r+, w, w+, a, a+, x), every "
              "buffer size (unbuffered, line-buffered, block-buffered, 32768-byte request splitting), existing "
              "or missing file.  The shapes are a boolean predicate on the state each call meets "
              "(no_finding_shape / first_finding); C27_shape_partition shows every program is in exactly one of "
              "the eight classes, and each of the seven finding classes has a _refuted witness on the model "
              "(C27_refuted_shapes ties witness to class), reproduced on the real code on every run and recorded "
              "as a known finding.  The differential run (model == real SFTP == local file) generates programs "
              "of both kinds, recognises the class on the real object and checks it against the model's "
              "first_finding for every program.")
LEVEL_NOTE = ("The unrestricted property is false for the code as it is (seven known findings); the theorem covers "
              "exactly the complement of their shapes.  A finding shape is a superset of the actual divergences "
              "(e.g. any call after truncate counts, although flush after truncate is harmless); the oracle "
              "therefore accepts as the registered stale-after-truncate finding only its own observables (wrong "
              "READ results; positions/contents in append mode or when read-ahead was pending at the truncate) "
              "and reports any other disagreement after a truncate (tell, where a write lands, final contents) as "
              "a violation.  The theorem "
              "carries the hypothesis fuel_suffices (the executable model's loop bound is large enough -- a model "
              "artefact, evaluated on every generated program by the run).  Mutators returning None in paramiko "
              "but a count in Python are compared by effect only; Python 'x' is compared with paramiko 'wx'; for "
              "a/a+ the reference is the unbuffered local file.  The Python file object behind the server handle "
              "is not modelled: programs that read after a truncate are excluded from the model-vs-real "
              "comparison (they are in the stale-after-truncate class).  Constants (buffer size, flag values, "
              "MAX_REQUEST_SIZE, open-mode and pflag tables) are regenerated from the source every run and tied "
              "to the model by proved equalities.  Trusted: Coq kernel + vm_compute; hand-written models C27.v / "
              "C42.v / FileSpec.v validated by the differential run.")
TECHNIQUE = "Coq refinement proof outside the finding shapes (simulation invariant) + partition lemma + _refuted witnesses + source-derived constants + vm_compute three-way differential incl. shape classification"

MODES = ["r", "r+", "w", "w+", "a", "a+", "x"]
MODE_CODE = {"r": 0, "r+": 1, "w": 2, "w+": 3, "a": 4, "a+": 5, "x": 6, "xbare": 7}
BUFSIZES = [-1, 0, 1, 2, 3, 5, 8, 64, 8192, 65536]
READ_OPS = ("FRead", "FReadline", "FReadlines")

KEYS = {
    "bare-x-mode-not-writable": "a file opened with the bare mode 'x' is neither readable nor writable "
                                "(sftp_client.open / _set_mode ignore 'x' for access); Python's 'x' is writable",
    "seek-to-negative-position-accepted": "SFTPFile.seek accepts a negative resulting position (later reads/"
                                          "writes fail with struct.error); a local file raises on the seek",
    "read-with-unflushed-write-buffer": "read/readline with data pending in the write buffer does not flush "
                                        "first: stale data is returned and the pending data is later written "
                                        "at the wrong offset",
    "tell-ignores-unflushed-write-buffer": "tell() does not count data pending in the write buffer",
    "write-with-nonempty-read-buffer": "write after a buffered read/readline lands at _realpos (end of the "
                                       "read-ahead) instead of the logical position",
    "truncate-ignores-unflushed-write-buffer": "truncate() does not flush pending writes first",
    "truncate-allowed-on-read-only-file": "truncate() succeeds on a file opened with mode 'r'",
    "state-stale-after-truncate": "after truncate() the client read buffer, the append-mode _size and the "
                                  "server-side file object's buffer are stale (reads return old data, "
                                  "append-mode tell is off)",
}


# ------------------------------------------------------------------ loopback --
class Loop:
    def __init__(self, repo):
        import paramiko
        from _loop import LoopSocket
        from _stub_sftp import StubServer, StubSFTPServer
        self.root = tempfile.mkdtemp(prefix="verif-c27-")
        StubSFTPServer.ROOT = self.root
        socks, sockc = LoopSocket(), LoopSocket()
        sockc.link(socks)
        self.tc = paramiko.Transport(sockc)
        self.ts = paramiko.Transport(socks)
        self.ts.add_server_key(paramiko.RSAKey.from_private_key_file(os.path.join(repo, "tests", "_support", "rsa.key")))
        ev = threading.Event()
        self.ts.set_subsystem_handler("sftp", paramiko.SFTPServer, StubSFTPServer)
        self.ts.start_server(ev, StubServer())
        self.tc.connect(username="slowdive", password="pygmalion")
        ev.wait(10)
        self.sftp = paramiko.SFTPClient.from_transport(self.tc)

    def close(self):
        for t in (self.tc, self.ts):
            try:
                t.close()
            except Exception:
                pass
        shutil.rmtree(self.root, ignore_errors=True)


# ------------------------------------------------------------------ running ---
def apply(f, o):
    """one call; canonical result"""
    try:
        k = o[0]
        if k == "FRead":
            b = f.read() if o[1] is None else f.read(o[1])
            return [1, len(b)] + list(b)
        if k == "FReadline":
            b = f.readline() if o[1] is None else f.readline(o[1])
            return [1, len(b)] + list(b)
        if k == "FReadlines":
            ls = f.readlines()
            out = [2, len(ls)]
            for l in ls:
                out += [len(l)] + list(l)
            return out
        if k == "FWrite":
            f.write(o[1])
            return [3]
        if k == "FSeek":
            f.seek(o[1], o[2])
            return [3]
        if k == "FTell":
            return [4, f.tell()]
        if k == "FTruncate":
            f.truncate(o[1])
            return [3]
        if k == "FFlush":
            f.flush()
            return [3]
    except (IOError, OSError, ValueError, struct.error):
        return [0]
    raise AssertionError(o)


def prepare(path, exists, init):
    if os.path.exists(path):
        os.remove(path)
    if exists:
        with open(path, "wb") as fh:
            fh.write(init)


def run_local(loop, case):
    mode, bufsize, exists, init, ops = case[:5]
    path = os.path.join(loop.root, "L")
    prepare(path, exists, init)
    pymode = {"xbare": "x"}.get(mode, mode) + "b"
    readable = mode in ("r", "r+", "w+", "a+")
    try:
        # append modes: unbuffered reference (CPython's buffered writer reports positions in append mode
        # as if pending data landed at the seek position; the OS semantics is the reference)
        f = open(path, pymode, buffering=0) if mode in ("a", "a+") else open(path, pymode)
    except (IOError, OSError):
        return None, None
    res = []
    for o in ops:
        if o[0] in READ_OPS and not readable:
            res.append([0])     # (io.BufferedWriter.readline(0) returns b'' instead of raising: Python quirk)
            continue
        res.append(apply(f, o))
    f.close()
    with open(path, "rb") as fh:
        return res, fh.read()


def run_sftp(loop, case, pipelined):
    """returns (results, final content, per-op pre-states (len rbuffer, len wbuffer))"""
    mode, bufsize, exists, init, ops = case[:5]
    path = os.path.join(loop.root, "R")
    prepare(path, exists, init)
    pmode = {"x": "wx", "xbare": "x"}.get(mode, mode) + "b"
    try:
        f = loop.sftp.open("/R", pmode, bufsize)
    except (IOError, OSError):
        return None, None, None
    if pipelined:
        f.set_pipelined(True)
    res, pre = [], []
    for o in ops:
        pre.append((len(f._rbuffer), f._wbuffer.tell()))
        res.append(apply(f, o))
    try:
        f.close()
    except (IOError, OSError, ValueError, struct.error):
        f._closed = True
        try:
            loop.sftp._request(4, f.handle)    # CMD_CLOSE so the handle does not leak
        except Exception:
            pass
    with open(path, "rb") as fh:
        return res, fh.read(), pre


# ------------------------------------------------------------------ generation -
def gen_op(rng, maxoff):
    k = rng.choice(["read", "read", "readall", "readline", "readline", "readline_n", "readlines", "write", "write",
                    "write", "seek0", "seek1", "seek2", "tell", "tell", "flush", "truncate"])
    if k == "read":
        return ("FRead", rng.choice([0, 1, 2, 3, 5, 8, rng.randrange(0, 30)]))
    if k == "readall":
        return ("FRead", rng.choice([None, None, -1]))
    if k == "readline":
        return ("FReadline", None)
    if k == "readline_n":
        return ("FReadline", rng.choice([-1, 0, 1, 2, 3, 5, rng.randrange(0, 20)]))
    if k == "readlines":
        return ("FReadlines",)
    if k == "write":
        n = rng.choice([0, 1, 2, 3, 5, 9, rng.randrange(0, 20)])
        return ("FWrite", bytes(rng.choice(b"ab\nc\n\r") for _ in range(n)))
    if k == "seek0":
        return ("FSeek", rng.randrange(0, maxoff), 0)
    if k == "seek1":
        return ("FSeek", rng.randrange(-8, 9), 1)
    if k == "seek2":
        return ("FSeek", rng.randrange(-10, 4), 2)
    if k == "tell":
        return ("FTell",)
    if k == "flush":
        return ("FFlush",)
    return ("FTruncate", rng.randrange(0, maxoff))


def discipline(ops, mode):
    """rewrite a program into one that follows the documented stdio discipline:
    seek(0, 1) between a write and a following read/tell/truncate and between a read and a following write;
    truncate only as the last call and not on a read-only file"""
    out = []
    last = None
    for o in ops:
        k = o[0]
        if k == "FTruncate":
            continue
        if k in READ_OPS or k == "FTell":
            if last == "write":
                out.append(("FSeek", 0, 1))
                last = None
            if k in READ_OPS:
                last = "read"
        elif k == "FWrite":
            if last == "read":
                out.append(("FSeek", 0, 1))
            last = "write"
        elif k in ("FSeek", "FFlush"):
            if k == "FSeek":
                # every seek flushes first, but only a seek that is certainly ACCEPTED (absolute, non-negative, or
                # seek(0, 1)) drops the read-ahead: a refused negative seek leaves the read buffer in place
                if last == "write" or (o[2] == 0 and o[1] >= 0) or (o[2] == 1 and o[1] == 0):
                    last = None
            elif last == "write":
                # flush alone empties the write buffer but the positions are only resynchronised by seek
                pass
        out.append(o)
    return out


def gen_case(rng, disciplined):
    mode = rng.choice(MODES) if disciplined or rng.random() < 0.9 else "xbare"
    bufsize = rng.choice(BUFSIZES) if rng.random() < 0.8 else rng.randrange(2, 65537)
    exists = rng.random() < (0.1 if mode in ("x", "xbare") else 0.95 if mode in ("r", "r+") else 0.85)
    alphabet = rng.choice([b"xy\n", b"xyz\n\n", b"ab\r\n", b"a\r\r\n\x0b\x0c\x1c\x1d\x1e\x85", bytes(range(256))])
    init = bytes(rng.choice(alphabet) for _ in range(rng.choice([0, 1, 3, 10, 20, rng.randrange(0, 60)])))
    n = rng.choice([1, 2, 3, 5, 8, 12, 20, 40])
    ops = [gen_op(rng, 40) for _ in range(n)]
    if mode == "a+" and rng.random() < 0.5:
        # structured pattern aimed at the server handle's cached position: read up to p, append k bytes,
        # then read again exactly at p + k (where a stale cache would sit)
        a = rng.randrange(0, max(1, len(init)))
        nrd = rng.randrange(1, 6)
        d = bytes(rng.choice(b"ab\n") for _ in range(rng.randrange(1, 5)))
        got = len(init[a:a + nrd])
        pat = [("FSeek", a, 0), ("FRead", nrd), ("FSeek", 0, 1), ("FWrite", d), ("FSeek", a + got + len(d), 0),
               ("FRead", rng.randrange(1, 8)), ("FTell",)]
        k = rng.randrange(0, len(ops) + 1)
        ops = ops[:k] + pat + ops[k:]
    if mode in ("r", "r+", "a+") and rng.random() < 0.35:
        # size-limited readline out of a filled read buffer (newline before / at / after the limit), then
        # positions and the rest: exercises the truncated-line bookkeeping of BufferedFile.readline
        pat = [("FReadline", None), ("FReadline", rng.randrange(1, 7)), ("FTell",), ("FRead", rng.randrange(0, 5)),
               ("FReadline", rng.randrange(1, 4)), ("FReadline", None), ("FTell",)]
        k = rng.randrange(0, len(ops) + 1)
        ops = ops[:k] + pat + ops[k:]
    if mode in ("r", "r+", "a+", "w+") and rng.random() < 0.35:
        # a REFUSED seek (negative target through each whence) right after a buffered read that leaves
        # read-ahead, then more reads / tell / write: the refused call must leave the file untouched
        neg = rng.choice([("FSeek", -rng.randrange(1, 9), 0), ("FSeek", -rng.randrange(70, 200), 1),
                          ("FSeek", -rng.randrange(70, 200), 2)])
        first = rng.choice([("FReadline", None), ("FReadline", rng.randrange(1, 5)), ("FRead", rng.randrange(1, 4))])
        pat = [first, neg, ("FTell",), rng.choice([("FReadline", None), ("FRead", rng.randrange(1, 6))]), ("FTell",),
               ("FRead", None)]
        k = rng.randrange(0, len(ops) + 1)
        ops = ops[:k] + pat + ops[k:]
    if not disciplined and mode in ("r+", "w+", "w", "x") and rng.random() < 0.4:
        # truncate BELOW the current position with nothing pending, then tell / write (must leave a zero-filled
        # hole) / tell / flush: a local file keeps its position across truncate()
        p0 = rng.randrange(4, 30)
        cut = rng.randrange(0, p0)
        pat = [("FSeek", p0, 0)] if rng.random() < 0.5 else [("FWrite", bytes(rng.choice(b"ab\n") for _ in range(p0))),
                                                             ("FSeek", 0, 1)]
        pat += [("FTruncate", cut), ("FTell",), ("FWrite", bytes(rng.choice(b"cd") for _ in range(rng.randrange(1, 4)))),
                ("FSeek", 0, 1), ("FTell",)]
        ops = ops[:rng.randrange(0, 3)] + [("FSeek", 0, 1)] + pat
    if mode in ("r", "r+") and exists and rng.random() < 0.4:
        # the server handle caches the position of its file object: sequential read up to P, a read of n bytes
        # at another offset Q, then a read at exactly P + n -- the offset a stale cache would hold.  P and n
        # are the SERVER-side request sizes (max(bufsize, size) when read-buffered), computed here.
        if len(init) < 40:
            init = bytes(rng.randrange(256) for _ in range(rng.randrange(40, 90)))

        def req(size):
            b = bufsize if bufsize > 1 else (8192 if bufsize == 1 else 0)
            return max(b, size) if bufsize >= 1 else size
        n1 = rng.randrange(1, 9)
        p1 = min(req(n1), len(init))
        q = rng.randrange(0, len(init) - 5)
        n2 = rng.randrange(1, 7)
        got2 = min(req(n2), len(init) - q)
        tgt = p1 + got2
        pat = [("FRead", n1), ("FSeek", q, 0), ("FRead", n2), ("FSeek", tgt, 0), ("FRead", rng.randrange(1, 9)),
               ("FTell",), ("FSeek", rng.randrange(0, 10), 0), ("FReadline", None)]
        ops = pat + ops
    if mode in ("r+", "w+") and (exists or mode == "w+") and rng.random() < 0.4:
        # write-side twin of the cached-position probe: ONE server-side write of n bytes at offset X != 0 (no newline,
        # flushed by seek(0, 1), so that the request carries exactly these n bytes), then a read or a write at offset
        # exactly n (where a cache wrongly set to the LENGTH would sit), then at X + n (which must keep working)
        x = rng.randrange(1, 21)
        n = rng.choice([k for k in range(1, 9) if k != x])
        d = bytes(rng.choice(b"MNOPQ") for _ in range(n))
        probe = [("FRead", rng.randrange(1, 5))] if rng.random() < 0.5 else \
                [("FWrite", bytes(rng.choice(b"stu") for _ in range(rng.randrange(1, 4))))]
        probe2 = [("FRead", rng.randrange(1, 5))] if rng.random() < 0.5 else [("FWrite", b"vw")]
        pat = [("FSeek", x, 0), ("FWrite", d), ("FSeek", 0, 1), ("FSeek", n, 0)] + probe + \
              [("FSeek", 0, 1), ("FTell",), ("FSeek", x + n, 0)] + probe2 + [("FSeek", 0, 0), ("FRead", None)]
        ops = pat + ops
    if disciplined:
        ops = discipline(ops, mode)
        if mode != "r" and rng.random() < 0.25:
            if ops and ops[-1][0] == "FWrite":
                ops.append(("FSeek", 0, 1))
            ops.append(("FTruncate", rng.randrange(0, 40)))
        ops = ops[:40]
    pipelined = rng.random() < 0.5
    return [mode, bufsize, exists, init, ops, pipelined]


def trim_negative_seeks(loop, case, disciplined):
    """run on the local file; disciplined: drop seeks the reference rejects; undisciplined: cut after the first"""
    for _ in range(6):
        res, _ = run_local(loop, case)
        if res is None:
            return
        bad = [i for i, (o, r) in enumerate(zip(case[4], res)) if o[0] == "FSeek" and r == [0]]
        if not bad:
            return
        if disciplined:
            case[4] = [o for i, o in enumerate(case[4]) if i not in bad]
        else:
            case[4] = case[4][:bad[0] + 1]
            return


# ------------------------------------------------------------------ classification
WITNESSES = [
    ["r+", 8, True, b"\n\ny\ny", [("FWrite", b"a\naa"), ("FReadline", None)], False],
    ["w", 65536, True, b"", [("FWrite", b"abc"), ("FTell",)], False],
    ["r+", 0, True, b"a\nb\nc", [("FReadline", None), ("FWrite", b"X")], False],
    ["w", 64, True, b"", [("FWrite", b"ab"), ("FTruncate", 0)], False],
    ["r", 0, True, b"abc", [("FTruncate", 1)], False],
    ["a", 0, True, b"", [("FWrite", b"ab"), ("FTruncate", 0), ("FWrite", b"c"), ("FTell",)], False],
    ["xbare", 0, False, b"", [("FWrite", b"a")], False],
]

SHAPES = ["none", "bare-x-mode-not-writable", "read-with-unflushed-write-buffer",
          "tell-ignores-unflushed-write-buffer", "write-with-nonempty-read-buffer",
          "truncate-ignores-unflushed-write-buffer", "truncate-allowed-on-read-only-file",
          "state-stale-after-truncate"]


def shape_code(case, pre):
    """first known-finding shape of the whole program, recognised on the state of the REAL object before
    each call (0 = none); the same predicate as first_finding / no_finding_shape in coq/Model/C27.v"""
    mode, ops = case[0], case[4]
    if mode == "xbare":
        return 1
    truncated = False
    for i, o in enumerate(ops):
        rb, wb = pre[i]
        k = o[0]
        if truncated:
            return 7
        if k in READ_OPS and wb > 0:
            return 2
        if k == "FTell" and wb > 0:
            return 3
        if k == "FWrite" and rb > 0:
            return 4
        if k == "FTruncate":
            if mode == "r":
                return 6
            if wb > 0:
                return 5
            truncated = True
    return 0


def first_guard(case, local_res, sftp_res, pre, upto, content_only=False):
    mode, ops = case[0], case[4]
    if mode == "xbare":
        return "bare-x-mode-not-writable"
    truncated = False
    rb_at_trunc = 0
    for i, o in enumerate(ops[:upto + 1]):
        rb, wb = pre[i]
        k = o[0]
        if k == "FSeek" and local_res[i] == [0] and sftp_res[i] != [0]:
            return "seek-to-negative-position-accepted"
        if k in READ_OPS and wb > 0:
            return "read-with-unflushed-write-buffer"
        if k == "FTell" and wb > 0:
            return "tell-ignores-unflushed-write-buffer"
        if k == "FWrite" and rb > 0:
            return "write-with-nonempty-read-buffer"
        if k == "FTruncate":
            if mode == "r":
                return "truncate-allowed-on-read-only-file"
            if wb > 0:
                return "truncate-ignores-unflushed-write-buffer"
            if not truncated:
                rb_at_trunc = rb
            truncated = True
    if truncated:
        # (other finding shapes met after the truncate were recognised above and take precedence)
        # the registered finding is about what truncate() leaves STALE: the client read buffer (if it held
        # read-ahead), the append-mode _size/_pos, and the served file object's own buffer -- observable as
        # wrong READ results, or as wrong positions/contents in append mode or after a truncate with
        # read-ahead pending.  Anything else that differs after a truncate (tell(), the offset a write lands
        # at, the final contents of a non-append file whose read buffer was empty) is NOT that finding.
        if rb_at_trunc > 0 or mode in ("a", "a+") or (not content_only and ops[upto][0] in READ_OPS):
            return "state-stale-after-truncate"
        return None
    return None


def coq_op(o):
    k = o[0]
    if k in ("FRead", "FReadline"):
        return "(%s %s)" % (k, "None" if o[1] is None else "(Some %s)" % coq(o[1]))
    if k == "FWrite":
        return "(FWrite %s)" % coq(list(o[1]))
    if k == "FSeek":
        return "(FSeek %s %s)" % (coq(o[1]), coq(o[2]))
    if k == "FTruncate":
        return "(FTruncate %s)" % coq(o[1])
    return k


def coq_case27(case):
    mode, bufsize, exists, init, ops = case[:5]
    return "(%d, %s, (%s, %s), [%s])" % (MODE_CODE[mode], coq(bufsize), coq(exists), coq(list(init)),
                                        ";".join(coq_op(o) for o in ops))


def coq_case_ref(case):
    mode, bufsize, exists, init, ops = case[:5]
    return "(%d, (%s, %s), [%s])" % (MODE_CODE[mode], coq(exists), coq(list(init)),
                                    ";".join(coq_op(o) for o in ops))


def run_opens(case):
    """does open() succeed for this case (same rule on both sides, checked by the oracle)"""
    mode, exists = case[0], case[2]
    if mode in ("r", "r+"):
        return exists
    if mode in ("x", "xbare"):
        return not exists
    return True


def flat(res, content):
    if res is None:
        return [-9]
    out = []
    for r in res:
        out += r
    return out + [-1] + list(content)


def case_desc(case):
    return {"mode": case[0], "bufsize": case[1], "exists": case[2], "init": case[3],
            "ops": [list(o) for o in case[4]], "pipelined": case[5]}


def evaluate(ctx, loop, case, disciplined, want_model=True):
    """oracle on one case; returns (model-correspondence tuple or None, ref-correspondence tuple or None)"""
    lres, lcont = run_local(loop, case)
    sres, scont, pre = run_sftp(loop, case, case[5])
    desc = case_desc(case)
    model_ok = True
    if (lres is None) != (sres is None):
        if case[0] == "xbare":
            pass
        ctx.fail("open-differs", "open() succeeds on one side and raises on the other", case=desc,
                 expected="raises" if lres is None else "opens", observed="raises" if sres is None else "opens")
    elif lres is not None:
        diff = next((i for i, (a, b) in enumerate(zip(sres, lres)) if a != b), None)
        if diff is None and scont != lcont:
            diff = len(case[4]) - 1
            what = "final file contents differ from the local file"
        elif diff is not None:
            what = "call %d (%s) returns a different value than on the local file" % (diff, case[4][diff][0])
        if diff is not None or scont != lcont:
            content_only = all(a == b for a, b in zip(sres, lres))
            key = first_guard(case, lres, sres, pre, max(diff, 0) if diff is not None else len(case[4]) - 1,
                              content_only)
            if key is None:
                sc = shape_code(case, pre)
                key = "refinement:" + ("no-finding-shape" if sc == 0 else
                                       "after-truncate-position-or-contents" if sc == 7 else
                                       "before-the-first-finding-shape")
            ctx.fail(key, KEYS.get(key, what) if key in KEYS else what, case=desc,
                     expected={"results": lres, "content": lcont}, observed={"results": sres, "content": scont})
        # programs outside the model: reads after truncate (server-side file-object buffer), negative positions
        seen_trunc = False
        for o, r in zip(case[4], lres):
            if seen_trunc and o[0] in READ_OPS:
                model_ok = False
            if o[0] == "FTruncate":
                seen_trunc = True
    mc = (coq_case27(case), flat(sres, scont)) if (want_model and model_ok) else None
    rc = (coq_case_ref(case), flat(lres, lcont)) if want_model else None
    shape = shape_code(case, pre) if sres is not None else None
    return mc, rc, shape


def big_cases(ctx, loop, rng, n):
    """oracle only: contents around MAX_REQUEST_SIZE / _DEFAULT_BUFSIZE (too large for Coq literals)"""
    for _ in range(n):
        mode = rng.choice(["r", "r+", "w+", "a+", "w"])
        size = rng.choice([8191, 8192, 8193, 32767, 32768, 32769, 70000])
        init = bytes(rng.choice(b"xyz\n") if rng.random() < 0.02 else 120 for _ in range(size))
        wr = bytes(rng.choice(b"ab\n") for _ in range(rng.choice([32768, 32769, 40000, 70001])))
        ops = [("FRead", rng.choice([8192, 32768, 40000])), ("FTell",), ("FSeek", 0, 1), ("FWrite", wr), ("FTell",),
               ("FSeek", rng.choice([0, 100, 32768]), 0), ("FReadline", None), ("FRead", None), ("FTell",)]
        case = [mode, rng.choice([-1, 0, 1, 8192, 65536]), True, init, ops, rng.random() < 0.5]
        ctx.count(("big", mode, size, len(wr), case[1]), kind="big-oracle-only")
        evaluate(ctx, loop, case, True, want_model=False)


def run(ctx):
    rng = ctx.rng
    scale = 4 if ctx.thorough else 1
    ctx.rule = ("seeded generator (random.Random('C27-<seed>')): mode in r/r+/w/w+/a/a+/x (x = paramiko 'wx'; bare "
                "'x' in the undisciplined stream), bufsize in {-1,0,1,2..65536}, pipelined on/off, existing or "
                "missing file with 0..60 bytes over newline-dense / binary alphabets, programs of 1..40 calls from "
                "read(n)/read()/readline(size)/readlines/write/seek(3 whences)/tell/flush/truncate; 2/3 of the "
                "programs are rewritten to follow the stdio discipline (seek(0,1) between writes and reads, "
                "truncate last, no rejected seeks) -- there any disagreement with the local file is a violation; "
                "1/3 are arbitrary -- disagreements are classified by the first discipline rule broken (known "
                "findings) and anything unclassified is a violation; plus large-content cases (8191..70000 "
                "bytes) for the oracle only; non-trivial = distinct and at least one call succeeds")
    ctx.trusted += ["models coq/Model/C27.v, C42.v and coq/Lib/FileSpec.v are hand-written; tied to sftp_file.py, "
                    "file.py, sftp_handle.py, sftp_client.open, sftp_server._convert_pflags and to CPython's "
                    "file objects by this three-way differential run",
                    "tests/_stub_sftp.py (StubSFTPServer) provides the served file objects",
                    "close-then-use and programs inside the seven finding shapes are outside the positive theorem"]
    ctx.assumptions += ["mutators that return None in paramiko but a count in Python are compared by effect only",
                        "Python mode 'x' is compared with paramiko mode 'wx'"]
    ctx.prove(GENS)
    loop = Loop(ctx.repo)
    try:
        mcases, rcases, kept, scases = [], [], [], []
        for j in range(-len(WITNESSES), 360 * scale):
            disciplined = (j >= 0 and j % 3 != 0)
            # the seven _refuted witnesses of Props/C27_props.v run first, so that every known-finding class
            # is replayed on the real code on every run
            case = list(WITNESSES[j + len(WITNESSES)]) if j < 0 else gen_case(rng, disciplined)
            mc, rc, shape = evaluate(ctx, loop, case, disciplined)
            nontrivial = len(case[4]) > 0
            ctx.count(case, nontrivial=nontrivial,
                      kind="%s/%s" % (case[0], "disciplined" if disciplined else "arbitrary"))
            for o in case[4]:
                ctx.dist["op-" + o[0]] = ctx.dist.get("op-" + o[0], 0) + 1
            if mc is not None:
                mcases.append(mc)
                kept.append(case)
            # which class of the partition (C27_shape_partition) is the program in?  recognised on the real object
            # here and by first_finding on the model below; both classes are generated and compared
            scases.append((coq_case27(case), [-9] if shape is None else [shape, 1], case))
            name = "open-raises" if shape is None else SHAPES[shape]
            ctx.dist["shape-" + name] = ctx.dist.get("shape-" + name, 0) + 1
            if disciplined and shape not in (None, 0):
                ctx.disagree("the generator's discipline no longer keeps programs outside the finding shapes",
                             case=case_desc(case), impl=SHAPES[shape])
            if rc is not None:
                rcases.append((rc, case))
        big_cases(ctx, loop, rng, 8 * scale)
    finally:
        loop.close()
    def safe(fn, ty, cases, imports):
        # the oracle above is independent of the model: a model/translator failure is reported, not raised
        try:
            return ctx.model_mismatches(fn, ty, cases, imports=imports)
        except Exception as e:      # noqa
            ctx.corr_broken.append({"what": "model evaluation failed for " + fn, "error": str(e)[-1500:]})
            return []
    bad = safe("run_c27", "(Z * Z * (bool * list Z) * list fop)", mcases,
               "From PV Require Import C42 FileSpec C27.")
    for i in bad[:3]:
        ctx.disagree("real SFTPFile differs from the model", case=case_desc(kept[i]), impl=mcases[i][1])
    bad = safe("run_ref", "(Z * (bool * list Z) * list fop)", [rc for rc, _ in rcases],
               "From PV Require Import C42 FileSpec.")
    for i in bad[:3]:
        ctx.disagree("local Python file differs from the reference model Lib/FileSpec.v",
                     case=case_desc(rcases[i][1]), impl=rcases[i][0][1])
    bad = safe("run_c27_shape", "(Z * Z * (bool * list Z) * list fop)", [(t, e) for t, e, _ in scases],
               "From PV Require Import C42 FileSpec C27.")
    for i in bad[:3]:
        ctx.disagree("finding shape recognised on the real object differs from first_finding / fuel_suffices on "
                     "the model", case=case_desc(scases[i][2]), impl=scases[i][1])
    if kept:
        ctx.sample({"case": case_desc(kept[0]), "sftp": mcases[0][1]})
        ctx.sample({"case": case_desc(kept[-1]), "sftp": mcases[-1][1]})


def replay(ctx, rep):
    c = rep.get("case") or {}
    if "ops" not in c:
        return run(ctx)

    def unhex(v):
        return bytes.fromhex(v["hex"]) if isinstance(v, dict) else v
    ops = [tuple(unhex(x) for x in o) for o in c["ops"]]
    case = [c["mode"], c["bufsize"], c["exists"], unhex(c["init"]), ops, c.get("pipelined", False)]
    loop = Loop(ctx.repo)
    try:
        ctx.count(case)
        ctx.count(("replay", case))
        evaluate(ctx, loop, case, rep.get("key", "").endswith(":disciplined"), want_model=False)
    finally:
        loop.close()
