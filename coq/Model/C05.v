(* C05 - algorithm negotiation (paramiko/transport.py: _filter_algorithm, preferred_*,
   _send_kex_init (advertised lists), _parse_kex_init (agreement filters)).

   Definitions only.  Algorithm names are byte lists (list Z), so unknown peer names are
   representable.  The model is of the code WITH the repair fixes/C05-gex-advertised-without-moduli.diff
   (kex_algos re-read after the group-exchange removal); [advertised_unrepaired] keeps the previous
   behaviour for the refutation witness. *)
From Coq Require Import ZArith List Bool.
Import ListNotations.
From PV Require Import Bytes C05_gen.
Open Scope Z_scope.

Definition name := list Z.

(* Python `x in l` / `l.__contains__` on lists or tuples of str *)
Definition mem (x : name) (l : list name) : bool := existsb (zlist_eqb x) l.

(* str.startswith *)
Fixpoint starts_with (p s : list Z) : bool :=
  match p, s with
  | [], _ => true
  | a :: p', b :: s' => (a =? b) && starts_with p' s'
  | _ :: _, [] => false
  end.

(* _parse_kex_init: algo.startswith("ext-info-") / algo.startswith("kex-strict-") *)
Definition is_marker (x : name) : bool :=
  starts_with lit_ext_info_pfx x || starts_with lit_kex_strict_pfx x.

(* the to_pop loop: every marker entry is removed from kex_algo_list, wherever it stands *)
Definition strip_markers (l : list name) : list name := filter (fun x => negb (is_marker x)) l.

(* ... literally, as the source does it:
     to_pop = []
     for i, algo in enumerate(kex_algo_list):
         if algo.startswith("ext-info-"): to_pop.insert(0, i)
         elif algo.startswith("kex-strict-"): to_pop.insert(0, i)
     for i in to_pop: kex_algo_list.pop(i)
   list.pop(i) with i out of range raises IndexError (None here).  Proofs/C05_proofs.v shows
   strip_markers_loop l = Some (strip_markers l) for every l, so negotiate uses the filter. *)
Fixpoint to_pop_loop (i : nat) (l : list name) (to_pop : list nat) : list nat :=
  match l with
  | [] => to_pop
  | algo :: r => to_pop_loop (S i) r (if is_marker algo then i :: to_pop else to_pop)
  end.
Fixpoint pop_at (i : nat) (l : list name) : option (list name) :=
  match i, l with
  | _, [] => None
  | O, _ :: r => Some r
  | S i', x :: r => match pop_at i' r with Some r' => Some (x :: r') | None => None end
  end.
Fixpoint pop_all (to_pop : list nat) (l : list name) : option (list name) :=
  match to_pop with
  | [] => Some l
  | i :: rest => match pop_at i l with Some l' => pop_all rest l' | None => None end
  end.
Definition strip_markers_loop (l : list name) : option (list name) :=
  pop_all (to_pop_loop 0 l []) l.

(* Transport._filter_algorithm *)
Definition filter_alg (prefs disabled : list name) : list name :=
  filter (fun x => negb (mem x disabled)) prefs.

Inductive role := Client | Server.

(* the part of a Transport's state the negotiation reads *)
Record config := mkConfig {
  p_kex : list name;        (* _preferred_kex *)
  p_keys : list name;       (* _preferred_keys *)
  p_ciphers : list name;    (* _preferred_ciphers *)
  p_macs : list name;       (* _preferred_macs *)
  p_comp : list name;       (* _preferred_compression *)
  d_kex : list name;        (* disabled_algorithms["kex"] *)
  d_keys : list name;
  d_ciphers : list name;
  d_macs : list name;
  d_comp : list name;
  server_keys : list name;  (* server_key_dict.keys() *)
  have_moduli : bool;       (* _modulus_pack is not None *)
  strict : bool             (* advertise_strict_kex *)
}.

Definition preferred_kex (c : config) := filter_alg (p_kex c) (d_kex c).
Definition preferred_ciphers (c : config) := filter_alg (p_ciphers c) (d_ciphers c).
Definition preferred_macs (c : config) := filter_alg (p_macs c) (d_macs c).
Definition preferred_compression (c : config) := filter_alg (p_comp c) (d_comp c).
(* preferred_keys: the filtered names followed by their certificate variants *)
Definition preferred_keys (c : config) : list name :=
  let f := filter_alg (p_keys c) (d_keys c) in
  f ++ map (fun x => x ++ lit_cert_suffix) f.

Definition is_gex (x : name) : bool := starts_with lit_gex_pfx x.

(* preferred_kex as seen by _parse_kex_init, i.e. after _send_kex_init ran (it always runs first,
   see _negotiate_keys): a server without a modulus pack removes the group-exchange methods from
   _preferred_kex through SecurityOptions.kex *)
Definition kex_after_send (r : role) (c : config) : list name :=
  match r with
  | Client => preferred_kex c
  | Server =>
      if negb (have_moduli c) && existsb is_gex (preferred_kex c)
      then filter_alg (filter (fun k => negb (is_gex k)) (p_kex c)) (d_kex c)
      else preferred_kex c
  end.

(* available_server_keys (server mode, both in _send_kex_init and _parse_kex_init) *)
Definition available_server_keys (c : config) : list name :=
  filter (fun x => mem x (server_keys c)) (preferred_keys c).

(* the eight name-lists of a KEXINIT message *)
Record kexinit := mkKI {
  ki_kex : list name;
  ki_keys : list name;
  ki_enc_c2s : list name;
  ki_enc_s2c : list name;
  ki_mac_c2s : list name;
  ki_mac_s2c : list name;
  ki_comp_c2s : list name;
  ki_comp_s2c : list name
}.

Definition kex_markers (r : role) (c : config) : list name :=
  (match r with Client => [lit_ext_info_c] | Server => [] end) ++
  (if strict c then [match r with Server => lit_kex_strict_s | Client => lit_kex_strict_c end] else []).

Definition local_keys (r : role) (c : config) : list name :=
  match r with Server => available_server_keys c | Client => preferred_keys c end.

(* _send_kex_init (repaired): what this side lists *)
Definition advertised (r : role) (c : config) : kexinit :=
  mkKI (kex_after_send r c ++ kex_markers r c)
       (local_keys r c)
       (preferred_ciphers c) (preferred_ciphers c)
       (preferred_macs c) (preferred_macs c)
       (preferred_compression c) (preferred_compression c).

(* _send_kex_init before the repair: kex_algos was read before the group-exchange removal *)
Definition advertised_unrepaired (r : role) (c : config) : kexinit :=
  mkKI (preferred_kex c ++ kex_markers r c)
       (local_keys r c)
       (preferred_ciphers c) (preferred_ciphers c)
       (preferred_macs c) (preferred_macs c)
       (preferred_compression c) (preferred_compression c).

Inductive category :=
  | CKex | CHostKey | CEncC2S | CEncS2C | CMacC2S | CMacS2C | CCompC2S | CCompS2C.

Definition all_categories : list category :=
  [CKex; CHostKey; CEncC2S; CEncS2C; CMacC2S; CMacS2C; CCompC2S; CCompS2C].

(* what a KEXINIT offers in a category; for kex the marker pseudo-algorithms are stripped *)
Definition offer (cat : category) (m : kexinit) : list name :=
  match cat with
  | CKex => strip_markers (ki_kex m)
  | CHostKey => ki_keys m
  | CEncC2S => ki_enc_c2s m
  | CEncS2C => ki_enc_s2c m
  | CMacC2S => ki_mac_c2s m
  | CMacS2C => ki_mac_s2c m
  | CCompC2S => ki_comp_c2s m
  | CCompS2C => ki_comp_s2c m
  end.

(* the local list _parse_kex_init filters with, per category *)
Definition mine (r : role) (c : config) (cat : category) : list name :=
  match cat with
  | CKex => kex_after_send r c
  | CHostKey => local_keys r c
  | CEncC2S | CEncS2C => preferred_ciphers c
  | CMacC2S | CMacS2C => preferred_macs c
  | CCompC2S | CCompS2C => preferred_compression c
  end.

(* the two filter directions of the source:
     server:  list(filter(mine.__contains__, theirs))   (peer's order)
     client:  list(filter(theirs.__contains__, mine))   (own order) *)
Definition agree (r : role) (mine_l theirs : list name) : list name :=
  match r with
  | Server => filter (fun x => mem x mine_l) theirs
  | Client => filter (fun x => mem x theirs) mine_l
  end.

Definition agreed (r : role) (c : config) (peer : kexinit) (cat : category) : list name :=
  agree r (mine r c cat) (offer cat peer).

Record agreement := mkAg {
  a_kex : name;             (* key of _kex_info whose class kex_engine is an instance of *)
  a_hostkey : name;         (* host_key_type *)
  a_local_cipher : name;
  a_remote_cipher : name;
  a_local_mac : name;
  a_remote_mac : name;
  a_local_comp : name;
  a_remote_comp : name
}.

Inductive kind := Enc | Mac | Comp.
Definition c2s (k : kind) := match k with Enc => CEncC2S | Mac => CMacC2S | Comp => CCompC2S end.
Definition s2c (k : kind) := match k with Enc => CEncS2C | Mac => CMacS2C | Comp => CCompS2C end.
(* local = what this side sends with: client -> c2s lists, server -> s2c lists *)
Definition local_cat (r : role) (k : kind) := match r with Client => c2s k | Server => s2c k end.
Definition remote_cat (r : role) (k : kind) := match r with Client => s2c k | Server => c2s k end.

Definition first_or_fail (l : list name) : result name :=
  match l with [] => Raise IncompatiblePeer | x :: _ => Ok x end.
(* `if len(a) == 0 or len(b) == 0: raise IncompatiblePeer` then a[0], b[0] *)
Definition both_or_fail (a b : list name) : result (name * name) :=
  match a, b with
  | x :: _, y :: _ => Ok (x, y)
  | _, _ => Raise IncompatiblePeer
  end.

(* get_server_key() is None, server mode only *)
Definition server_key_missing (r : role) (c : config) (hk : name) : bool :=
  match r with Server => negb (mem hk (server_keys c)) | Client => false end.

(* _parse_kex_init (m.seqno = 0, so the strict-kex MessageOrderError branch is not taken) *)
Definition negotiate (r : role) (c : config) (peer : kexinit) : result agreement :=
  let ag := agreed r c peer in
  bind (first_or_fail (ag CKex)) (fun k =>
  if negb (mem k kex_info_keys) then Raise KeyErr      (* self._kex_info[agreed_kex[0]] *)
  else
  bind (first_or_fail (ag CHostKey)) (fun hk =>
  if server_key_missing r c hk then Raise IncompatiblePeer
  else
  bind (both_or_fail (ag (local_cat r Enc)) (ag (remote_cat r Enc))) (fun e =>
  bind (both_or_fail (ag (local_cat r Mac)) (ag (remote_cat r Mac))) (fun m =>
  bind (both_or_fail (ag (local_cat r Comp)) (ag (remote_cat r Comp))) (fun z =>
  Ok (mkAg k hk (fst e) (snd e) (fst m) (snd m) (fst z) (snd z))))))).

(* ---- specification vocabulary ------------------------------------------------------- *)

(* first element of the client's list that the server also lists *)
Definition first_common (client_l server_l : list name) : option name :=
  hd_error (filter (fun x => mem x server_l) client_l).

(* the KEXINIT of the client / of the server in a run seen from role r *)
Definition client_msg (r : role) (c : config) (peer : kexinit) : kexinit :=
  match r with Client => advertised Client c | Server => peer end.
Definition server_msg (r : role) (c : config) (peer : kexinit) : kexinit :=
  match r with Server => advertised Server c | Client => peer end.

(* what role r holds for a category after a successful negotiation *)
Definition chosen (r : role) (cat : category) (a : agreement) : name :=
  match cat with
  | CKex => a_kex a
  | CHostKey => a_hostkey a
  | CEncC2S => match r with Client => a_local_cipher a | Server => a_remote_cipher a end
  | CEncS2C => match r with Client => a_remote_cipher a | Server => a_local_cipher a end
  | CMacC2S => match r with Client => a_local_mac a | Server => a_remote_mac a end
  | CMacS2C => match r with Client => a_remote_mac a | Server => a_local_mac a end
  | CCompC2S => match r with Client => a_local_comp a | Server => a_remote_comp a end
  | CCompS2C => match r with Client => a_remote_comp a | Server => a_local_comp a end
  end.

Definition swap_ag (a : agreement) : agreement :=
  mkAg (a_kex a) (a_hostkey a) (a_remote_cipher a) (a_local_cipher a)
       (a_remote_mac a) (a_local_mac a) (a_remote_comp a) (a_local_comp a).
Definition swap_result (x : result agreement) : result agreement :=
  match x with Ok a => Ok (swap_ag a) | Raise e => Raise e end.

(* a name of preference list p that the disabled list d does not contain *)
Definition enabled (p d : list name) (x : name) : Prop := In x p /\ ~ In x d.

(* "not disabled", per category.  Host keys: preferred_keys appends the certificate variant of
   every enabled base name, so a chosen host key is an enabled base name or the certificate
   variant of one (disabled_algorithms values are documented to be members of _preferred_keys). *)
Definition allowed (c : config) (cat : category) (x : name) : Prop :=
  match cat with
  | CKex => enabled (p_kex c) (d_kex c) x
  | CHostKey => enabled (p_keys c) (d_keys c) x \/
                exists b, enabled (p_keys c) (d_keys c) b /\ x = b ++ lit_cert_suffix
  | CEncC2S | CEncS2C => enabled (p_ciphers c) (d_ciphers c) x
  | CMacC2S | CMacS2C => enabled (p_macs c) (d_macs c) x
  | CCompC2S | CCompS2C => enabled (p_comp c) (d_comp c) x
  end.

(* what SecurityOptions._set enforces on the preference tuples: members of the tables *)
Definition subset_b (l t : list name) : bool := forallb (fun x => mem x t) l.
Definition cfg_in_tables (c : config) : bool :=
  subset_b (p_kex c) kex_info_keys && subset_b (p_keys c) key_info_keys &&
  subset_b (p_ciphers c) cipher_info_keys && subset_b (p_macs c) mac_info_keys &&
  subset_b (p_comp c) compression_info_keys.

(* Transport.__init__: gss_kex=True prepends _preferred_gsskex to the instance's kex tuple *)
Definition init_kex (gss_kex : bool) : list name :=
  if gss_kex then pref_gsskex ++ pref_kex else pref_kex.

(* the class-level defaults, from Gen *)
Definition default_cfg (skeys : list name) (moduli strict_kex : bool) : config :=
  mkConfig pref_kex pref_keys pref_ciphers pref_macs pref_compression [] [] [] [] []
           skeys moduli strict_kex.

(* ---- canonical encodings for the correspondence run ---------------------------------- *)

Definition enc_name (x : name) : list Z := Z.of_nat (length x) :: x.
Definition enc_names (l : list name) : list Z :=
  Z.of_nat (length l) :: concat (map enc_name l).

Definition enc_ki (m : kexinit) : list Z :=
  enc_names (ki_kex m) ++ enc_names (ki_keys m) ++ enc_names (ki_enc_c2s m) ++
  enc_names (ki_enc_s2c m) ++ enc_names (ki_mac_c2s m) ++ enc_names (ki_mac_s2c m) ++
  enc_names (ki_comp_c2s m) ++ enc_names (ki_comp_s2c m).

Definition enc_result (x : result agreement) : list Z :=
  match x with
  | Ok a => 0 :: enc_names [a_kex a; a_hostkey a; a_local_cipher a; a_remote_cipher a;
                            a_local_mac a; a_remote_mac a; a_local_comp a; a_remote_comp a]
  | Raise e => [1; exn_code e]
  end.

Definition run_advertised (rc : role * config) : list Z :=
  enc_ki (advertised (fst rc) (snd rc)).

Definition run_negotiate (x : role * config * kexinit) : list Z :=
  enc_result (negotiate (fst (fst x)) (snd (fst x)) (snd x)).

(* compact case files: the implementation's result is part of the input (names abbreviated by the
   nm_<i> constants of Gen); the comparison itself is done here, on the byte lists.
   Output [1] = equal; otherwise 0 :: the model's own encoding. *)
Definition run_advertised_chk (x : role * config * kexinit) : list Z :=
  let r := run_advertised (fst x) in
  if zlist_eqb r (enc_ki (snd x)) then [1] else 0 :: r.

Definition run_negotiate_chk (x : role * config * kexinit * result agreement) : list Z :=
  let r := run_negotiate (fst x) in
  if zlist_eqb r (enc_result (snd x)) then [1] else 0 :: r.

(* one entry point so that a run needs a single batch of case files *)
Inductive ccase :=
  | CaseAdv (r : role) (c : config) (own : kexinit)
  | CaseNeg (r : role) (c : config) (peer : kexinit) (impl : result agreement).
Definition run_case (x : ccase) : list Z :=
  match x with
  | CaseAdv r c own => run_advertised_chk (r, c, own)
  | CaseNeg r c peer impl => run_negotiate_chk (r, c, peer, impl)
  end.
