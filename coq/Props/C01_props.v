From PV Require Import Bytes C01 C01_proofs.
Open Scope Z_scope.
Theorem C01_stub : True.
Proof. exact stub_true. Qed.
Print Assumptions C01_stub.
