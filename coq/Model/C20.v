(* C20 -- definitions on top of the flow-control model of Model/C19.v: both ends run paramiko, so the
   sender's initial window is the window the receiver advertised (its in_window_size); a fair
   "round" of a transfer, used to state termination.  Definitions only. *)
From Coq Require Import ZArith List Bool Lia.
From PV Require Import Bytes C19_gen C19.
Import ListNotations.
Open Scope Z_scope.

(* W = the receiver's in_window_size, which it advertised and the sender took as out_window_size *)
Definition init2 (W P dmp : Z) (c : bool) : st := init W P W dmp c.

(* nothing in anybody's hand, nothing in flight toward the receiver, the application has read
   everything: `quiescent` (Model/C19.v); additionally no adjust in flight: *)
Definition settled (s : st) : Prop := quiescent s /\ awire s = [].

(* bytes sent by the peer that have reached neither the application nor the discard branch yet,
   or have but are not yet part of a computed adjust *)
Definition outstanding (s : st) : Z :=
  in_hand s + dsum (dwire s) + bout s + berr s + sofar s + g_lost s + sum (abox s) + sum (awire s).

(* the environment keeps reading and the transport keeps delivering: *)
Definition flush_out (s : st) : st := run s (repeat (OEmit 0) (length (obox s))).
Definition drain_data (s : st) : st := run s (repeat ODeliver (length (dwire s))).
Definition read_all (s : st) : st :=
  let s1 := fst (step s (ORecv false (bout s))) in fst (step s1 (ORecv true (berr s1))).
Definition flush_adj (s : st) : st := run s (repeat (OEmitAdj 0) (length (abox s))).
Definition drain_adj (s : st) : st := run s (repeat ODeliverAdj (length (awire s))).
Definition settle (s : st) : st := drain_adj (flush_adj (read_all (drain_data (flush_out s)))).

(* one iteration of sendall / sendall_stderr (one send call) followed by the environment settling;
   returns the new state and what is still pending *)
Definition round (k : option Z) (pending : Z) (s : st) : st * Z :=
  let '(s1, r) := step s (OSend k pending) in (settle s1, pending - Z.max r 0).

Fixpoint transfer (fuel : nat) (k : option Z) (pending : Z) (s : st) : st * Z :=
  match fuel with
  | O => (s, pending)
  | S f => if pending <=? 0 then (s, pending)
           else let '(s', p') := round k pending s in transfer f k p' s'
  end.

(* correspondence: number of send calls a transfer of n bytes takes, and the final counters.
   case = (W, P, n, code, fuel): code < 0 = CHANNEL_DATA, otherwise EXTENDED_DATA of that type;
   fuel is small (the harness picks the number of send calls the real transfer took, plus slack) *)
Definition run_transfer (c : Z * Z * Z * Z * Z) : list Z :=
  let '(W, P, n, code, fuel) := c in
  let k := if code <? 0 then None else Some code in
  let '(s, p) := transfer (Z.to_nat (Z.min fuel 5000)) k n (init2 W P DEFAULT_MAX_PACKET_SIZE false) in
  [p; ow s; sofar s; emitted s; g_cons s; g_grant s; g_adjin s; Z.of_nat (length (elog s))].
