(* C12 - proofs over Model/C12.v and the generated tables Gen/C12_gen.v *)
From Coq Require Import ZArith List Bool Lia ZifyBool.
From PV Require Import Bytes C12_gen C12.
Import ListNotations.
Open Scope Z_scope.

Definition st_of (sm au : bool) (a : ah_kind) (s rk : bool) : state := mkState sm au a s rk [].

Lemma state_shape st : expected st = [] ->
  st = st_of (server_mode st) (authed st) (ah st) (srt st) (rekey st).
Proof. destruct st as [sm au a s rk e]; cbn; intros ->; reflexivity. Qed.

Lemma in_types256 p : 0 <= p < 256 -> In p types256.
Proof.
  intros H. unfold types256. rewrite <- (Z2Nat.id p) by lia.
  apply in_map. apply in_seq. lia.
Qed.

(* an unhandled type (in the independent sense of `unhandled`) reaches the fallback branch *)
Lemma prelude_lookup_none br p : mem p (map fst br) = false -> prelude_lookup br p = None.
Proof.
  induction br as [|[t stops] br IH]; cbn; [reflexivity|].
  intros H. apply orb_false_iff in H as [H1 H2]. rewrite H1. exact (IH H2).
Qed.

Lemma prelude_lookup_some br p b : prelude_lookup br p = Some b -> mem p (map fst br) = true.
Proof.
  induction br as [|[t stops] br IH]; cbn; [discriminate|].
  destruct (p =? t); [reflexivity|]. intros H. cbn. exact (IH H).
Qed.

Lemma prelude_lookup_none_inv br p : prelude_lookup br p = None -> mem p (map fst br) = false.
Proof.
  induction br as [|[t stops] br IH]; cbn; [reflexivity|].
  destruct (p =? t); [discriminate|]. intros H. cbn. exact (IH H).
Qed.

Lemma dispatch_unhandled st p sq :
  expected st = [] -> unhandled st p = true ->
  dispatch st p sq = fallback (send_blocked (rekey st)) p sq.
Proof.
  intros He Hu. unfold unhandled, special in Hu.
  repeat (apply andb_true_iff in Hu; destruct Hu as [Hu ?]).
  apply negb_true_iff in Hu, H, H0, H1.
  unfold dispatch. rewrite (prelude_lookup_none _ _ Hu), He. unfold ladder. rewrite H1, H0, H. reflexivity.
Qed.

(* the finite sweep: in every state, every unhandled type number 0..255 passes the reader's logging,
   has a name or a tolerant lookup in the fallback, and the reply is sent without waiting *)
Definition name_safe (p : Z) : bool := negb name_lookup_strict || mem p msg_names.

Definition type_safe (st : state) (p : Z) : bool :=
  reader_ok p && name_safe p && negb (send_blocked (rekey st)).

Definition sweep_state (st : state) : bool :=
  forallb (fun p => implb (unhandled st p) (type_safe st p)) types256.

Lemma sweep_all sm au a s rk : sweep_state (st_of sm au a s rk) = true.
Proof. destruct sm, au, a, s, rk; vm_compute; reflexivity. Qed.

Lemma name_of_safe p : name_safe p = true -> name_of p = Ok tt.
Proof.
  unfold name_safe, name_of. intros H. destruct (mem p msg_names); [reflexivity|].
  rewrite orb_false_r in H. apply negb_true_iff in H. rewrite H. reflexivity.
Qed.

Lemma unhandled_type_safe st p :
  expected st = [] -> 0 <= p < 256 -> unhandled st p = true -> type_safe st p = true.
Proof.
  intros He Hp Hu. rewrite (state_shape st He) in Hu |- *.
  pose proof (sweep_all (server_mode st) (authed st) (ah st) (srt st) (rekey st)) as Hs.
  unfold sweep_state in Hs. rewrite forallb_forall in Hs.
  specialize (Hs p (in_types256 p Hp)). rewrite Hu in Hs. exact Hs.
Qed.

Lemma fallback_reply p sq :
  name_safe p = true -> 0 <= sq < 2 ^ 32 ->
  fallback false p sq = Fallback (if p =? MSG_UNIMPLEMENTED then None
                                  else Some (MSG_UNIMPLEMENTED :: be_encode 4 sq)).
Proof.
  intros Hn Hs. unfold fallback. rewrite (name_of_safe p Hn).
  destruct (p =? MSG_UNIMPLEMENTED); cbn [negb]; [reflexivity|].
  assert (E : (0 <=? sq) && (sq <? 2 ^ 32) = true) by (apply andb_true_iff; split; lia).
  rewrite E. reflexivity.
Qed.

Lemma receive_unhandled_reply st p sq :
  expected st = [] -> 0 <= p < 256 -> 0 <= sq < 2 ^ 32 -> unhandled st p = true ->
  receive st p sq = Fallback (if p =? MSG_UNIMPLEMENTED then None
                              else Some (MSG_UNIMPLEMENTED :: be_encode 4 sq)).
Proof.
  intros He Hp Hs Hu.
  pose proof (unhandled_type_safe st p He Hp Hu) as Ht. unfold type_safe in Ht.
  apply andb_true_iff in Ht as [Ht Hb]. apply andb_true_iff in Ht as [Hr Hn].
  apply negb_true_iff in Hb.
  unfold receive. rewrite Hr. rewrite (dispatch_unhandled st p sq He Hu), Hb.
  apply fallback_reply; assumption.
Qed.

Lemma unimplemented st p sq :
  expected st = [] -> 0 <= p < 256 -> 0 <= sq < 2 ^ 32 ->
  unhandled st p = true -> p <> MSG_UNIMPLEMENTED ->
  receive st p sq = Fallback (Some (MSG_UNIMPLEMENTED :: be_encode 4 sq)) /\
  alive (receive st p sq) = true.
Proof.
  intros He Hp Hs Hu Hn. rewrite (receive_unhandled_reply st p sq He Hp Hs Hu).
  destruct (p =? MSG_UNIMPLEMENTED) eqn:E; [lia|]. split; reflexivity.
Qed.

(* the reply decodes to exactly that packet's sequence number *)
Lemma reply_carries_seqno sq : 0 <= sq < 2 ^ 32 -> be_decode (be_encode 4 sq) = sq.
Proof. intros H. apply be_decode_encode. change (256 ^ Z.of_nat 4) with (2 ^ 32). exact H. Qed.

(* an inbound UNIMPLEMENTED is never answered, whatever the state *)
Lemma unimpl_unhandled sm au a s rk : unhandled (st_of sm au a s rk) MSG_UNIMPLEMENTED = true.
Proof. destruct sm, au, a, s, rk; vm_compute; reflexivity. Qed.

Lemma unimpl_name_safe : name_safe MSG_UNIMPLEMENTED = true.
Proof. vm_compute. reflexivity. Qed.

Lemma unimpl_reader_ok : reader_ok MSG_UNIMPLEMENTED = true.
Proof. vm_compute. reflexivity. Qed.

Lemma fallback_unimpl b sq : fallback b MSG_UNIMPLEMENTED sq = Fallback None.
Proof. unfold fallback. rewrite (name_of_safe _ unimpl_name_safe), Z.eqb_refl. reflexivity. Qed.

Lemma no_reply_to_unimplemented st sq :
  expected st = [] ->
  receive st MSG_UNIMPLEMENTED sq = Fallback None /\ alive (receive st MSG_UNIMPLEMENTED sq) = true.
Proof.
  intros He.
  assert (Hu : unhandled st MSG_UNIMPLEMENTED = true)
    by (rewrite (state_shape st He); apply unimpl_unhandled).
  unfold receive. rewrite unimpl_reader_ok.
  rewrite (dispatch_unhandled st _ sq He Hu), fallback_unimpl. split; reflexivity.
Qed.

Lemma never_answers_unimplemented st sq m :
  receive st MSG_UNIMPLEMENTED sq <> Fallback (Some m).
Proof.
  destruct (expected st) as [|e es] eqn:He.
  - rewrite (proj1 (no_reply_to_unimplemented st sq He)). discriminate.
  - unfold receive. rewrite unimpl_reader_ok.
    assert (Hu : unhandled (st_of (server_mode st) (authed st) (ah st) (srt st) (rekey st)) MSG_UNIMPLEMENTED = true)
      by apply unimpl_unhandled.
    pose proof (dispatch_unhandled (st_of (server_mode st) (authed st) (ah st) (srt st) (rekey st))
                  MSG_UNIMPLEMENTED sq eq_refl Hu) as Hd.
    assert (Hp : prelude_lookup prelude MSG_UNIMPLEMENTED = None) by (vm_compute; reflexivity).
    assert (Hk : (KEX_LO <=? MSG_UNIMPLEMENTED) && (MSG_UNIMPLEMENTED <=? KEX_HI) = false)
      by (vm_compute; reflexivity).
    unfold dispatch in *. rewrite Hp in *. cbn [expected st_of rekey] in Hd. rewrite He.
    destruct (negb (mem MSG_UNIMPLEMENTED (e :: es))); [discriminate|].
    rewrite Hk.
    assert (Hl : ladder st MSG_UNIMPLEMENTED sq =
                 ladder (st_of (server_mode st) (authed st) (ah st) (srt st) (rekey st)) MSG_UNIMPLEMENTED sq)
      by (destruct st; reflexivity).
    rewrite Hl, Hd, fallback_unimpl. discriminate.
Qed.

(* a handled type never reaches the fallback: `unhandled` is exactly the fallback's domain *)
Lemma handled_not_fallback st p sq rep :
  expected st = [] -> unhandled st p = false -> receive st p sq <> Fallback rep.
Proof.
  intros He Hu. unfold receive. destruct (reader_ok p); [|discriminate].
  unfold dispatch, ladder. rewrite He. unfold unhandled, special in Hu.
  destruct (prelude_lookup prelude p) as [[]|] eqn:El; try discriminate.
  rewrite (prelude_lookup_none_inv _ _ El) in Hu.
  destruct (mem p (transport_table st)).
  - destruct (ensure_authed_blocks st p); discriminate.
  - destruct (mem p channel_handler_table); [discriminate|].
    destruct (mem p (auth_table st)); [discriminate|]. cbn in Hu. discriminate.
Qed.

(* streams of unhandled packets of any length: each is answered in order with its own
   sequence number (wrapping at 2^32), and the loop is still running at the end *)
Lemma next_seq_range sq : 0 <= next_seq sq < 2 ^ 32.
Proof. unfold next_seq. apply Z.mod_pos_bound. reflexivity. Qed.

Lemma stream st pkts : forall sq,
  expected st = [] -> 0 <= sq < 2 ^ 32 ->
  Forall (fun p => 0 <= p < 256 /\ unhandled st p = true) pkts ->
  run_stream st sq pkts = (expected_replies sq pkts, true).
Proof.
  induction pkts as [|p r IH]; intros sq He Hs Hall; [reflexivity|].
  inversion Hall as [|? ? [Hp Hu] Hr]; subst.
  cbn [run_stream expected_replies].
  rewrite (receive_unhandled_reply st p sq He Hp Hs Hu).
  rewrite (IH (next_seq sq) He (next_seq_range sq) Hr).
  destruct (p =? MSG_UNIMPLEMENTED); reflexivity.
Qed.

(* non-vacuity: there are unhandled types without a debug name in every state *)
Lemma unnamed_unhandled_exists sm au a s rk :
  exists p, 0 <= p < 256 /\ unhandled (st_of sm au a s rk) p = true /\ mem p msg_names = false.
Proof.
  assert (H : existsb (fun p => unhandled (st_of sm au a s rk) p && negb (mem p msg_names)) types256 = true)
    by (destruct sm, au, a, s, rk; vm_compute; reflexivity).
  apply existsb_exists in H as [p [Hin Hp]]. exists p.
  apply andb_true_iff in Hp as [H1 H2]. apply negb_true_iff in H2.
  unfold types256 in Hin. apply in_map_iff in Hin as [n [<- Hn]]. apply in_seq in Hn.
  repeat split; try assumption; lia.
Qed.

(* the defect repaired by fixes/C12-msg-names-keyerror.diff: with the subscript lookup the
   transport dies on some unhandled type, in every state *)
Lemma v0_dies sm au a s rk sq :
  exists p, 0 <= p < 256 /\ unhandled (st_of sm au a s rk) p = true /\ fallback_v0 p sq = Die KeyErr.
Proof.
  destruct (unnamed_unhandled_exists sm au a s rk) as [p [Hp [Hu Hn]]].
  exists p. repeat split; try assumption; try lia. unfold fallback_v0. rewrite Hn. reflexivity.
Qed.

(* role-inappropriate types have no handler: a client (either transport class, any auth handler the client
   side installs) for the client-to-server-only types, a classic server-mode Transport for the
   server-to-client-only ones *)
Lemma wrong_direction_client au a s rk :
  a <> AHGss ->
  forallb (unhandled (st_of false au a s rk)) client_to_server_only = true.
Proof. intros Ha. destruct au, a, s, rk; try congruence; vm_compute; reflexivity. Qed.

Lemma wrong_direction_server au a rk :
  forallb (unhandled (st_of true au a false rk)) server_to_client_only = true.
Proof. destruct au, a, rk; vm_compute; reflexivity. Qed.
