(* C06 -- proofs.  See Model/C06.v for the definitions and Props/C06_props.v for the statements. *)
From Coq Require Import ZArith List Bool Lia Zpow_facts.
From PV Require Import Bytes C39 C39_proofs C06_gen C06.
Import ListNotations.
Open Scope Z_scope.

(* ---- Diffie-Hellman commutes ---------------------------------------------------------------- *)
Lemma dh_agree g x y p :
  0 < p -> 0 <= x -> 0 <= y -> (g ^ x mod p) ^ y mod p = (g ^ y mod p) ^ x mod p.
Proof.
  intros Hp Hx Hy. rewrite <- !Zpower_mod by lia. rewrite <- !Z.pow_mul_r by lia.
  f_equal. f_equal. lia.
Qed.

Lemma modpow_pos_correct a n p : p <> 0 -> modpow_pos a n p = a ^ Zpos n mod p.
Proof.
  intros Hp. induction n as [n IH | n IH |].
  - cbn [modpow_pos]. rewrite IH. rewrite Pos2Z.inj_xI.
    replace (2 * Z.pos n + 1) with (Z.pos n + Z.pos n + 1) by lia.
    rewrite !Z.pow_add_r by lia. rewrite Z.pow_1_r.
    rewrite (Z.mul_mod (a ^ Z.pos n * a ^ Z.pos n) a p) by lia.
    rewrite (Z.mul_mod (a ^ Z.pos n) (a ^ Z.pos n) p) by lia. reflexivity.
  - cbn [modpow_pos]. rewrite IH. rewrite Pos2Z.inj_xO.
    replace (2 * Z.pos n) with (Z.pos n + Z.pos n) by lia.
    rewrite Z.pow_add_r by lia. rewrite (Z.mul_mod (a ^ Z.pos n) (a ^ Z.pos n) p) by lia. reflexivity.
  - cbn [modpow_pos]. now rewrite Z.pow_1_r.
Qed.

Lemma modpow_correct a n p : p <> 0 -> modpow a n p = a ^ n mod p.
Proof.
  intros Hp. destruct n as [|n|n]; cbn [modpow].
  - now rewrite Z.pow_0_r.
  - now apply modpow_pos_correct.
  - rewrite Z.pow_neg_r by lia. now rewrite Z.mod_0_l.
Qed.

Lemma run_dh_agree g p x y e f k1 k2 :
  0 < p -> 0 <= x -> 0 <= y -> run_dh (g, p, x, y) = [e; f; k1; k2] ->
  e = g ^ x mod p /\ f = g ^ y mod p /\ k1 = f ^ x mod p /\ k2 = e ^ y mod p /\ k1 = k2.
Proof.
  intros Hp Hx Hy H. unfold run_dh in H. rewrite !modpow_correct in H by lia.
  injection H as <- <- <- <-. repeat split; try reflexivity. symmetry. now apply dh_agree.
Qed.

(* ---- both roles of an engine build the same layout ------------------------------------------- *)
Lemma layout_same f : layout f Client = layout f Server.
Proof. destruct f; reflexivity. Qed.

Lemma reply_wire_same f : reply_sent f = reply_read f.
Proof. destruct f; reflexivity. Qed.

Lemma same_H f t : exchange_hash_input f Client t = exchange_hash_input f Server t.
Proof. unfold exchange_hash_input, hash_fields. now rewrite layout_same. Qed.

Lemma t_wf_same f t : t_wf f Client t = t_wf f Server t.
Proof. unfold t_wf, hash_fields. now rewrite layout_same. Qed.

(* ---- the transcript encoding is injective ---------------------------------------------------- *)
Lemma entry_kind t1 t2 e : kind_of (entry_field t1 e) = kind_of (entry_field t2 e).
Proof. destruct e; reflexivity. Qed.

Lemma kinds_indep f r t1 t2 :
  t_old t1 = t_old t2 -> map kind_of (hash_fields f r t1) = map kind_of (hash_fields f r t2).
Proof.
  intros E. unfold hash_fields. rewrite E, !map_map. apply map_ext. intros e. apply entry_kind.
Qed.

Lemma hash_input_injective f r t1 t2 bs :
  t_old t1 = t_old t2 -> t_wf f r t1 = true -> t_wf f r t2 = true ->
  exchange_hash_input f r t1 = Ok bs -> exchange_hash_input f r t2 = Ok bs ->
  hash_fields f r t1 = hash_fields f r t2.
Proof.
  intros E W1 W2 H1 H2. eapply encode_injective; eauto using kinds_indep.
Qed.

Lemma map_eq_In {A B} (f g : A -> B) l x : map f l = map g l -> In x l -> f x = g x.
Proof.
  induction l as [|a l IH]; intros E H; [destruct H|].
  cbn in E. injection E as E1 E2. destruct H as [-> | H]; auto.
Qed.

Lemma fields_slot f r t1 t2 g e :
  t_old t1 = t_old t2 -> hash_fields f r t1 = hash_fields f r t2 ->
  In (g, e) (layout f r) -> guard_on (t_old t1) g = true -> entry_field t1 e = entry_field t2 e.
Proof.
  intros E H Hin Hg. unfold hash_fields in H. rewrite <- E in H.
  eapply map_eq_In; [exact H|]. unfold active.
  change e with (snd (g, e)). apply in_map. apply filter_In. split; assumption.
Qed.

Lemma injective_slots f r t1 t2 bs :
  t_old t1 = t_old t2 -> t_wf f r t1 = true -> t_wf f r t2 = true ->
  exchange_hash_input f r t1 = Ok bs -> exchange_hash_input f r t2 = Ok bs ->
  forall g e, In (g, e) (layout f r) -> guard_on (t_old t1) g = true -> entry_field t1 e = entry_field t2 e.
Proof.
  intros E W1 W2 H1 H2 g e. apply fields_slot; [assumption|]. eapply hash_input_injective; eauto.
Qed.

(* every engine hashes V_C, V_S, I_C, I_S, K_S and K, unconditionally *)
Lemma layout_has_common f r :
  In (GAlways, EStr SVC) (layout f r) /\ In (GAlways, EStr SVS) (layout f r) /\
  In (GAlways, EStr SIC) (layout f r) /\ In (GAlways, EStr SIS) (layout f r) /\
  In (GAlways, EStr SKS) (layout f r) /\ In (GAlways, EMpint SK) (layout f r).
Proof. destruct f, r; cbn; intuition. Qed.

(* the public values: e and f as mpints for the DH families, Q_C and Q_S as strings otherwise *)

Lemma layout_has_pub f r :
  In (GAlways, fst (pub_entries f)) (layout f r) /\ In (GAlways, snd (pub_entries f)) (layout f r).
Proof. destruct f, r; cbn; intuition. Qed.

Lemma layout_gex_params r :
  In (GAlways, EU32 SN) (layout FGex r) /\ In (GAlways, EMpint SP) (layout FGex r) /\
  In (GAlways, EMpint SG) (layout FGex r) /\ In (GNotOld, EU32 SMin) (layout FGex r) /\
  In (GNotOld, EU32 SMax) (layout FGex r).
Proof. destruct r; cbn; intuition. Qed.

Lemma injective_reply_fields f r t1 t2 bs :
  t_old t1 = t_old t2 -> t_wf f r t1 = true -> t_wf f r t2 = true ->
  exchange_hash_input f r t1 = Ok bs -> exchange_hash_input f r t2 = Ok bs ->
  t_vc t1 = t_vc t2 /\ t_vs t1 = t_vs t2 /\ t_ic t1 = t_ic t2 /\ t_is t1 = t_is t2 /\
  t_ks t1 = t_ks t2 /\ t_k t1 = t_k t2 /\
  entry_field t1 (fst (pub_entries f)) = entry_field t2 (fst (pub_entries f)) /\
  entry_field t1 (snd (pub_entries f)) = entry_field t2 (snd (pub_entries f)).
Proof.
  intros E W1 W2 H1 H2.
  pose proof (injective_slots f r t1 t2 bs E W1 W2 H1 H2) as S.
  destruct (layout_has_common f r) as (A1 & A2 & A3 & A4 & A5 & A6).
  destruct (layout_has_pub f r) as (B1 & B2).
  pose proof (S _ _ A1 eq_refl) as C1. pose proof (S _ _ A2 eq_refl) as C2.
  pose proof (S _ _ A3 eq_refl) as C3. pose proof (S _ _ A4 eq_refl) as C4.
  pose proof (S _ _ A5 eq_refl) as C5. pose proof (S _ _ A6 eq_refl) as C6.
  cbn in C1, C2, C3, C4, C5, C6.
  repeat split; try congruence; apply S with (g := GAlways); auto.
Qed.

Lemma same_H_full f t :
  exchange_hash_input f Client t = exchange_hash_input f Server t /\
  layout f Client = layout f Server /\ reply_sent f = reply_read f.
Proof. split; [apply same_H | split; [apply layout_same | apply reply_wire_same]]. Qed.

Lemma injective_full f r t1 t2 bs :
  t_old t1 = t_old t2 -> t_wf f r t1 = true -> t_wf f r t2 = true ->
  exchange_hash_input f r t1 = Ok bs -> exchange_hash_input f r t2 = Ok bs ->
  (forall g e, In (g, e) (layout f r) -> guard_on (t_old t1) g = true -> entry_field t1 e = entry_field t2 e) /\
  t_vc t1 = t_vc t2 /\ t_vs t1 = t_vs t2 /\ t_ic t1 = t_ic t2 /\ t_is t1 = t_is t2 /\
  t_ks t1 = t_ks t2 /\ t_k t1 = t_k t2 /\
  entry_field t1 (fst (pub_entries f)) = entry_field t2 (fst (pub_entries f)) /\
  entry_field t1 (snd (pub_entries f)) = entry_field t2 (snd (pub_entries f)).
Proof.
  intros E W1 W2 H1 H2. split.
  - exact (injective_slots f r t1 t2 bs E W1 W2 H1 H2).
  - exact (injective_reply_fields f r t1 t2 bs E W1 W2 H1 H2).
Qed.

(* ---- _check_banner keeps the peer's identification line as it came ---------------------------- *)
Lemma version_exact line : stored_version line = line.
Proof. reflexivity. Qed.

(* ---- connect(hostkey=...) goes on to authenticate only towards exactly the pinned key -------- *)
Lemma pinned_key_exact sn pn sb pb :
  connect_pin sn pn sb pb = Ok tt <-> (sn = pn /\ sb = pb).
Proof.
  unfold connect_pin, pin_rejects, pin_combine. split.
  - destruct (zlist_eqb sn pn) eqn:A, (zlist_eqb sb pb) eqn:B; cbn; try discriminate.
    intros _. apply zlist_eqb_eq in A. apply zlist_eqb_eq in B. auto.
  - intros [-> ->]. assert (E : forall l, zlist_eqb l l = true) by (intros l; now apply zlist_eqb_eq).
    rewrite !E. reflexivity.
Qed.

(* ---- _set_K_H and the session-id latch ------------------------------------------------------- *)
Lemma setkh_K st k h : s_K (set_K_H st k h) = Some (PInt k).
Proof. destruct st as [a b [c|] d]; reflexivity. Qed.
Lemma setkh_H st k h : s_H (set_K_H st k h) = Some (PBytes h).
Proof. destruct st as [a b [c|] d]; reflexivity. Qed.
Lemma setkh_sid st k h :
  s_sid (set_K_H st k h) = match s_sid st with Some v => Some v | None => Some (PBytes h) end.
Proof. destruct st as [a b [c|] d]; reflexivity. Qed.
Lemma setkh_hostkey st k h : s_hostkey (set_K_H st k h) = s_hostkey st.
Proof. destruct st as [a b [c|] d]; reflexivity. Qed.

Lemma sid_events st l :
  s_sid (run_events st l) =
  match s_sid st with Some v => Some v | None => option_map PBytes (first_H l) end.
Proof.
  revert st. induction l as [|e l IH]; intros st.
  - cbn. now destruct (s_sid st).
  - unfold run_events in *. cbn [fold_left]. rewrite IH. destruct e as [k h|]; cbn [step first_H].
    + rewrite setkh_sid. destruct (s_sid st); reflexivity.
    + cbn. destruct (s_sid st); reflexivity.
Qed.

Lemma session_id_latch l : s_sid (run_events init_state l) = option_map PBytes (first_H l).
Proof. now rewrite sid_events. Qed.

Lemma session_id_first k h l : s_sid (run_events init_state (EvKex k h :: l)) = Some (PBytes h).
Proof. now rewrite session_id_latch. Qed.

(* ---- _verify_key ------------------------------------------------------------------------------- *)
Section Sym.
  Variable hash : list Z -> list Z.
  Variable sign : Z -> list Z -> list Z.
  Variable verify : list Z -> list Z -> list Z -> bool.
  Variable sig_alg_ok : list Z -> bool.
  Variable sig_canonical : list Z -> bool.
  Variable pubblob : Z -> list Z.
  Variable ec_pub : family -> Z -> list Z.
  Variable ec_dh : family -> Z -> list Z -> Z.

  Lemma verify_key_ok_inv st hk sg d st' :
    s_H st = Some (PBytes d) -> verify_key verify sig_alg_ok sig_canonical st hk sg = Ok st' ->
    verify hk d sg = true /\ s_hostkey st' = Some hk /\ s_K st' = s_K st /\ s_H st' = s_H st /\ s_sid st' = s_sid st.
  Proof.
    intros HH. unfold verify_key, vsrc_val, verify_over, verify_key_from_arg, verify_sig_from_arg,
      verify_raises, verify_stores_key. rewrite HH.
    destruct ((verify_alg_guard && negb (sig_alg_ok sg)) || (verify_canonical_guard && negb (sig_canonical sg))); [discriminate|].
    destruct (verify hk d sg); [|discriminate]. intros E. injection E as <-. cbn. auto.
  Qed.

  Lemma verify_key_ok_guards st hk sg st' :
    verify_key verify sig_alg_ok sig_canonical st hk sg = Ok st' ->
    (verify_alg_guard = true -> sig_alg_ok sg = true) /\ (verify_canonical_guard = true -> sig_canonical sg = true).
  Proof.
    unfold verify_key, verify_sig_from_arg. destruct (vsrc_val st) as [[z|d]|]; try discriminate.
    destruct (verify_alg_guard && negb (sig_alg_ok sg)) eqn:A; [discriminate|].
    destruct (verify_canonical_guard && negb (sig_canonical sg)) eqn:C; [discriminate|].
    intros _. split; intros G; rewrite G in *; cbn in *.
    - now destruct (sig_alg_ok sg).
    - now destruct (sig_canonical sg).
  Qed.

  Lemma verify_key_fail st hk sg d :
    s_H st = Some (PBytes d) -> verify hk d sg = false -> verify_key verify sig_alg_ok sig_canonical st hk sg = Raise SSHExc.
  Proof.
    intros HH V. unfold verify_key, vsrc_val, verify_over, verify_key_from_arg, verify_sig_from_arg,
      verify_raises, verify_stores_key. rewrite HH, V.
    destruct ((verify_alg_guard && negb (sig_alg_ok sg)) || (verify_canonical_guard && negb (sig_canonical sg))); reflexivity.
  Qed.

  Lemma verify_key_ok st hk sg d :
    s_H st = Some (PBytes d) -> verify hk d sg = true -> sig_alg_ok sg = true -> sig_canonical sg = true ->
    verify_key verify sig_alg_ok sig_canonical st hk sg = Ok (mkS (s_K st) (s_H st) (s_sid st) (Some hk)).
  Proof.
    intros HH V A C. unfold verify_key, vsrc_val, verify_over, verify_key_from_arg, verify_sig_from_arg,
      verify_raises, verify_stores_key. rewrite HH, V, A, C. cbn [negb]. rewrite !andb_false_r. reflexivity.
  Qed.

  Notation client_handle := (client_handle hash verify sig_alg_ok sig_canonical ec_dh).
  Notation server_handle := (server_handle hash sign pubblob ec_pub ec_dh).
  Notation client_transcript := (client_transcript ec_dh).
  Notation server_transcript := (server_transcript pubblob ec_pub ec_dh).

  Lemma client_accept_inv f x t0 st r st' :
    client_handle f x t0 st r = Ok st' ->
    exists bc, exchange_hash_input f Client (client_transcript f x t0 r) = Ok bc /\
               verify (r_ks r) (hash bc) (r_sig r) = true /\
               s_K st' = Some (PInt (t_k (client_transcript f x t0 r))) /\
               s_H st' = Some (PBytes (hash bc)) /\ s_hostkey st' = Some (r_ks r).
  Proof.
    unfold C06.client_handle. intros H.
    destruct (exchange_hash_input f Client (client_transcript f x t0 r)) as [bc|e] eqn:E; [|discriminate].
    cbn [bind] in H. exists bc. split; [reflexivity|].
    eapply verify_key_ok_inv in H; [|apply setkh_H].
    destruct H as (V & A & B & C & D). rewrite setkh_K in B. rewrite setkh_H in C. auto.
  Qed.

  (* the premise about the library's curve arithmetic *)
  Hypothesis ec_comm : forall f x y, ec_dh f x (ec_pub f y) = ec_dh f y (ec_pub f x).

  (* both sides compute the same K when nothing was altered *)
  Lemma secret_agree f x y o tb :
    0 < t_p tb -> 0 <= x -> 0 <= y ->
    let t0 := with_client_pub ec_pub f x tb in
    let ts := server_transcript f y o t0 in
    client_secret ec_dh f x (with_reply t0 (t_ks ts) (t_f ts) (t_qs ts) 0) = server_secret ec_dh f y t0.
  Proof.
    intros Hp Hx Hy. destruct f; cbn; try apply ec_comm; symmetry; now apply dh_agree.
  Qed.

  Lemma honest_transcript f x y o tb :
    0 < t_p tb -> 0 <= x -> 0 <= y ->
    let t0 := with_client_pub ec_pub f x tb in
    let ts := server_transcript f y o t0 in
    forall sg, client_transcript f x t0 (mkR (t_ks ts) (t_f ts) (t_qs ts) sg) = ts.
  Proof.
    intros Hp Hx Hy t0 ts sg. unfold C06.client_transcript. cbn [r_ks r_f r_qs].
    pose proof (secret_agree f x y o tb Hp Hx Hy) as SA. cbv zeta in SA. fold t0 in SA. fold ts in SA.
    rewrite SA. reflexivity.
  Qed.

  (* the client's transcript depends on the reply only through K_S and the public value *)
  Lemma client_transcript_ext f x t0 r r' :
    r_ks r' = r_ks r -> r_f r' = r_f r -> r_qs r' = r_qs r ->
    client_transcript f x t0 r' = client_transcript f x t0 r.
  Proof. intros A B C. unfold C06.client_transcript. now rewrite A, B, C. Qed.

  Lemma server_handle_inv f y o t0 st st' r :
    server_handle f y o t0 st = Ok (st', r) ->
    exists bs, exchange_hash_input f Server (server_transcript f y o t0) = Ok bs /\
               r = mkR (t_ks (server_transcript f y o t0)) (t_f (server_transcript f y o t0))
                       (t_qs (server_transcript f y o t0)) (sign o (hash bs)) /\
               st' = set_K_H st (t_k (server_transcript f y o t0)) (hash bs).
  Proof.
    unfold C06.server_handle. intros H.
    destruct (exchange_hash_input f Server (server_transcript f y o t0)) as [bs|e]; [|discriminate].
    cbn [bind] in H. injection H as <- <-. eauto.
  Qed.

  (* an honest, unaltered run completes with the same K and H on both sides, and the client ends
     up holding the host key whose owner signed H *)
  Hypothesis verify_complete : forall o m, verify (pubblob o) m (sign o m) = true.
  Hypothesis alg_complete : forall o m, sig_alg_ok (sign o m) = true.
  Hypothesis canonical_complete : forall o m, sig_canonical (sign o m) = true.

  Lemma honest_run f x y o tb st_c st_s st_s' r :
    0 < t_p tb -> 0 <= x -> 0 <= y ->
    let t0 := with_client_pub ec_pub f x tb in
    server_handle f y o t0 st_s = Ok (st_s', r) ->
    exists st_c' k h,
      client_handle f x t0 st_c r = Ok st_c' /\
      s_K st_c' = Some (PInt k) /\ s_K st_s' = Some (PInt k) /\
      s_H st_c' = Some (PBytes h) /\ s_H st_s' = Some (PBytes h) /\
      s_hostkey st_c' = Some (pubblob o) /\ verify (pubblob o) h (r_sig r) = true.
  Proof.
    intros Hp Hx Hy t0 HS. apply server_handle_inv in HS. destruct HS as (bs & E & -> & ->).
    set (ts := server_transcript f y o t0) in *.
    unfold C06.client_handle. fold t0.
    rewrite (honest_transcript f x y o tb Hp Hx Hy). fold t0. fold ts.
    rewrite same_H, E. cbn [bind r_ks r_sig].
    assert (KS : t_ks ts = pubblob o) by reflexivity.
    rewrite (verify_key_ok _ _ _ (hash bs)); [|apply setkh_H|rewrite KS; apply verify_complete|apply alg_complete|apply canonical_complete].
    eexists _, (t_k ts), (hash bs). split; [reflexivity|]. cbn [s_K s_H s_hostkey].
    rewrite !setkh_K, !setkh_H, KS. repeat split; try reflexivity. apply verify_complete.
  Qed.

  (* ---- symbolic signatures and an injective hash: altered replies are refused ------------------ *)
  Hypothesis hash_inj : forall a b, hash a = hash b -> a = b.
  Hypothesis verify_sym : forall blob m sg, verify blob m sg = true -> exists o, blob = pubblob o /\ sg = sign o m.
  Hypothesis sign_inj : forall o m o' m', sign o m = sign o' m' -> o = o' /\ m = m'.
  Hypothesis pubblob_inj : forall o o', pubblob o = pubblob o' -> o = o'.

  Lemma wire_pub_entry f x t0 r :
    wire_pub f r = entry_field (client_transcript f x t0 r) (snd (pub_entries f)).
  Proof. destruct f; reflexivity. Qed.

  Lemma server_pub_entry f ts sg :
    wire_pub f (mkR (t_ks ts) (t_f ts) (t_qs ts) sg) = entry_field ts (snd (pub_entries f)).
  Proof. destruct f; reflexivity. Qed.


  Lemma tamper_abort f x y o tb st_c st_s st_s' r r' :
    0 < t_p tb -> 0 <= x -> 0 <= y ->
    let t0 := with_client_pub ec_pub f x tb in
    server_handle f y o t0 st_s = Ok (st_s', r) ->
    t_wf f Server (server_transcript f y o t0) = true ->
    t_wf f Client (client_transcript f x t0 r') = true ->
    single_fault f r r' ->
    forall st', client_handle f x t0 st_c r' <> Ok st'.
  Proof.
    intros Hp Hx Hy t0 HS W1 W2 HF st' HC.
    apply server_handle_inv in HS. destruct HS as (bs & E & -> & _).
    set (ts := server_transcript f y o t0) in *.
    apply client_accept_inv in HC. destruct HC as (bc & EC & V & _).
    set (tc := client_transcript f x t0 r') in *.
    apply verify_sym in V. destruct V as (o' & KS' & SG').
    cbn [r_ks r_f r_qs r_sig] in HF.
    destruct HF as [(SG & D) | (A & B & C & SG)].
    - (* signature unchanged: it is the owner's signature over the server's H *)
      rewrite SG in SG'. apply sign_inj in SG'. destruct SG' as (<- & HH).
      apply hash_inj in HH. subst bc.
      destruct D as [D | D].
      + apply D. rewrite KS'. reflexivity.
      + apply D. rewrite same_H in EC. rewrite t_wf_same in W2.
        assert (EO : t_old tc = t_old ts) by reflexivity.
        pose proof (injective_reply_fields f Server tc ts bs EO W2 W1 EC E) as (_ & _ & _ & _ & _ & _ & _ & P).
        unfold tc in P. rewrite <- wire_pub_entry in P. rewrite P. unfold ts.
        symmetry. apply server_pub_entry.
    - (* only the signature changed: same key, same transcript, hence the same signature *)
      apply SG.
      assert (KO : pubblob o' = pubblob o) by (rewrite <- KS', A; reflexivity).
      apply pubblob_inj in KO. subst o'.
      assert (TT : tc = ts).
      { unfold tc. rewrite (client_transcript_ext f x t0 (mkR (t_ks ts) (t_f ts) (t_qs ts) (sign o (hash bs))) r' A B C).
        apply (honest_transcript f x y o tb Hp Hx Hy). }
      rewrite TT, same_H, E in EC. injection EC as <-. exact SG'.
  Qed.
End Sym.

(* ---- unforgeability instead of the free signature algebra: an accepted reply is authentic ------ *)
Section Auth.
  Variable hash : list Z -> list Z.
  Variable sign : Z -> list Z -> list Z.
  Variable verify : list Z -> list Z -> list Z -> bool.
  Variable sig_alg_ok : list Z -> bool.
  Variable sig_canonical : list Z -> bool.
  Variable pubblob : Z -> list Z.
  Variable ec_pub : family -> Z -> list Z.
  Variable ec_dh : family -> Z -> list Z -> Z.
  Variable signed : Z -> list Z -> Prop.      (* owner o has, at some time, signed data m *)
  Hypothesis hash_inj : forall a b, hash a = hash b -> a = b.
  Hypothesis unforgeable : forall o m sg, verify (pubblob o) m sg = true -> signed o m.

  Lemma accept_authentic f x y o t0 st_c st_s st_s' r r' st' :
    server_handle hash sign pubblob ec_pub ec_dh f y o t0 st_s = Ok (st_s', r) ->
    (forall m, signed o m -> exists k, s_H st_s' = Some (PBytes m) /\ s_K st_s' = Some (PInt k)) ->
    t_wf f Server (server_transcript pubblob ec_pub ec_dh f y o t0) = true ->
    t_wf f Client (client_transcript ec_dh f x t0 r') = true ->
    r_ks r' = pubblob o ->
    client_handle hash verify sig_alg_ok sig_canonical ec_dh f x t0 st_c r' = Ok st' ->
    s_H st' = s_H st_s' /\ s_K st' = s_K st_s' /\ wire_pub f r' = wire_pub f r /\
    hash_fields f Server (client_transcript ec_dh f x t0 r') =
    hash_fields f Server (server_transcript pubblob ec_pub ec_dh f y o t0).
  Proof.
    intros HS ONLY W1 W2 KS HC.
    apply server_handle_inv in HS. destruct HS as (bs & E & -> & ->).
    set (ts := server_transcript pubblob ec_pub ec_dh f y o t0) in *.
    apply client_accept_inv in HC. destruct HC as (bc & EC & V & CK & CH & _).
    set (tc := client_transcript ec_dh f x t0 r') in *.
    rewrite KS in V. apply unforgeable in V. apply ONLY in V. destruct V as (k & VH & _).
    rewrite setkh_H in VH. injection VH as VH. apply hash_inj in VH. subst bc.
    rewrite same_H in EC. rewrite t_wf_same in W2.
    assert (EO : t_old tc = t_old ts) by reflexivity.
    pose proof (injective_reply_fields f Server tc ts bs EO W2 W1 EC E) as (_ & _ & _ & _ & _ & PK & _ & P).
    rewrite setkh_H, setkh_K, CK, CH, PK. repeat split.
    - unfold tc in P. rewrite <- wire_pub_entry in P. rewrite P. symmetry. apply server_pub_entry.
    - eapply hash_input_injective; eauto.
  Qed.
End Auth.
